//! Feature-configuration worker: the same oracles as C05 (Display paths) / C08 (stream modes), run against the crates
//! built with a non-default feature set.  Prints `RESULT {json}`; findings are (case, message) pairs.

#[allow(unused_imports)]
use vmodel::sgr::{fx, Col, Sgr};
#[allow(unused_imports)]
use vmodel::vt::{Ev, St, Vt};

#[allow(dead_code)]
fn show(b: &[u8]) -> String {
    b.iter().map(|&c| if c == 0x1b { "ESC".to_string() } else if (0x20..0x7f).contains(&c) { (c as char).to_string() } else { format!("\\x{c:02x}") }).collect()
}

#[allow(dead_code)]
fn interpret(start: Sgr, bytes: &[u8]) -> Result<Sgr, String> {
    if let Some(b) = bytes.iter().find(|&&b| !matches!(b, 0x1b | b'[' | b'0'..=b'9' | b';' | b':' | b'm')) {
        return Err(format!("byte 0x{b:02x} is not part of an SGR sequence (rendered {})", show(bytes)));
    }
    let mut vt = Vt::default();
    let mut sgr = start;
    for ev in vt.feed(bytes) {
        match ev {
            Ev::Csi { params, inter, ignore: false, byte: b'm' } if inter.is_empty() => {
                sgr.apply(&params);
            }
            other => return Err(format!("the VT model sees {other:?}, not an SGR sequence (rendered {})", show(bytes))),
        }
    }
    if vt.st != St::Ground {
        return Err(format!("rendering ends inside an unfinished sequence (rendered {})", show(bytes)));
    }
    Ok(sgr)
}

#[cfg(feature = "style")]
fn run() -> (u64, Vec<(String, String)>) {
    use anstyle::{Ansi256Color, AnsiColor, Color, Effects, RgbColor, Style};
    const FX: [Effects; 12] = [
        Effects::BOLD, Effects::DIMMED, Effects::ITALIC, Effects::UNDERLINE, Effects::DOUBLE_UNDERLINE, Effects::CURLY_UNDERLINE, Effects::DOTTED_UNDERLINE,
        Effects::DASHED_UNDERLINE, Effects::BLINK, Effects::INVERT, Effects::HIDDEN, Effects::STRIKETHROUGH,
    ];
    let colours: [(Option<Color>, Col); 5] = [
        (None, Col::Default),
        (Some(Color::Ansi(AnsiColor::Red)), Col::Ansi(1)),
        (Some(Color::Ansi(AnsiColor::BrightWhite)), Col::Ansi(15)),
        (Some(Color::Ansi256(Ansi256Color(200))), Col::Idx(200)),
        (Some(Color::Rgb(RgbColor(1, 22, 133))), Col::Rgb(1, 22, 133)),
    ];
    let mut bad = vec![];
    let mut n = 0u64;
    for bits in 0u16..4096 {
        let mut e = Effects::new();
        for (i, f) in FX.iter().enumerate() {
            if bits & (1 << i) != 0 {
                e = e | *f;
            }
        }
        for (ci, (c, m)) in colours.iter().enumerate() {
            // the colour goes into a different slot per index so that every slot is exercised
            let (style, exp) = match ci % 3 {
                0 => (Style::new().effects(e).fg_color(*c), Sgr { fg: *m, ..Sgr::default() }),
                1 => (Style::new().effects(e).bg_color(*c), Sgr { bg: *m, ..Sgr::default() }),
                _ => (Style::new().effects(e).underline_color(*c), Sgr { ul_color: match *m { Col::Ansi(i) => Col::Idx(i), o => o }, ..Sgr::default() }),
            };
            n += 1;
            let case = format!("effects {bits:#05x} colour {m:?} slot {}", ci % 3);
            let base = format!("{style}");
            let reset = format!("{style:#}");
            for (spec, text) in [("{:>12}", format!("{style:>12}")), ("{:.1}", format!("{style:.1}")), ("render()", format!("{}", style.render())), ("{:08}", format!("{style:08}"))] {
                if text != base {
                    bad.push((case.clone(), format!("{spec} gives {} but {{}} gives {}", show(text.as_bytes()), show(base.as_bytes()))));
                }
            }
            match interpret(Sgr::default(), base.as_bytes()) {
                Err(m) => bad.push((case.clone(), m)),
                Ok(s) => {
                    let single_ul = (bits & fx::ALL_UNDERLINES).count_ones() <= 1;
                    if s.seen != bits || (single_ul && s.terminal_effects() != bits) || s.fg != exp.fg || s.bg != exp.bg || s.ul_color != exp.ul_color {
                        bad.push((case.clone(), format!("rendered {} denotes effects {:#05x} fg {:?} bg {:?} ul {:?}", show(base.as_bytes()), s.seen, s.fg, s.bg, s.ul_color)));
                    }
                    let plain = bits == 0 && c.is_none();
                    if reset.is_empty() != plain {
                        bad.push((case.clone(), format!("reset form is {:?} for a style that is {}", reset, if plain { "plain" } else { "not plain" })));
                    }
                    match interpret(s, reset.as_bytes()) {
                        Err(m) => bad.push((case.clone(), m)),
                        Ok(after) => {
                            if !after.is_default() || after.seen != 0 {
                                bad.push((case.clone(), format!("after {} then {} the terminal is not back to default", show(base.as_bytes()), show(reset.as_bytes()))));
                            }
                        }
                    }
                }
            }
            if bad.len() > 40 {
                return (n, bad);
            }
        }
    }
    (n, bad)
}

#[cfg(feature = "stream")]
fn run() -> (u64, Vec<(String, String)>) {
    use anstream::{AutoStream, ColorChoice, StripStream};
    use std::io::Write;
    use vmodel::strip::StripModel;
    let frags: [&[u8]; 10] = [b"a", "\u{e9}".as_bytes(), b"\x1b[1;31m", b"\x1b", b"[", b"0m", b"\n", b"\x1b]0;t\x07", b"\xc3", b"\xa9"];
    let mut bad = vec![];
    let mut n = 0u64;
    // every sequence of <= 4 fragments, each written with write_all (and write! when it is text), per constructor
    let total: u32 = (0..=4).map(|l| (frags.len() as u32).pow(l)).sum();
    for mut idx in 0..total {
        let mut len = 0u32;
        loop {
            let c = (frags.len() as u32).pow(len);
            if idx < c {
                break;
            }
            idx -= c;
            len += 1;
        }
        let mut seq = vec![];
        for _ in 0..len {
            seq.push(frags[(idx % frags.len() as u32) as usize]);
            idx /= frags.len() as u32;
        }
        let whole: Vec<u8> = seq.concat();
        let stripped = StripModel::default().expected_exact(&whole);
        let valid = std::str::from_utf8(&whole).is_ok();
        for ctor in 0..7 {
            n += 1;
            let (name, mut s, strip): (&str, AutoStream<Vec<u8>>, bool) = match ctor {
                0 => ("never", AutoStream::never(Vec::new()), true),
                1 => ("always_ansi", AutoStream::always_ansi(Vec::new()), false),
                2 => ("always", AutoStream::always(Vec::new()), false),
                3 => ("new(Never)", AutoStream::new(Vec::new(), ColorChoice::Never), true),
                4 => ("new(AlwaysAnsi)", AutoStream::new(Vec::new(), ColorChoice::AlwaysAnsi), false),
                5 => ("new(Always)", AutoStream::new(Vec::new(), ColorChoice::Always), false),
                _ => ("new(Auto) over a Vec", AutoStream::new(Vec::new(), ColorChoice::Auto), true),
            };
            for (k, f) in seq.iter().enumerate() {
                let r = match std::str::from_utf8(f) {
                    Ok(t) if k % 2 == 1 => write!(s, "{t}"),
                    _ => s.write_all(f),
                };
                if let Err(e) = r {
                    bad.push((format!("{name} {}", show(&whole)), format!("write failed on a Vec: {e}")));
                }
            }
            let got = s.into_inner();
            let want: &[u8] = if strip { &stripped } else { &whole };
            // (malformed UTF-8 in strip mode: the model's exact expectation only holds for valid input)
            if (valid || !strip) && got != want {
                bad.push((format!("{name} {}", show(&whole)), format!("delivered {} but {} is expected ({})", show(&got), show(want), if strip { "stripped" } else { "verbatim" })));
            }
            if strip && valid {
                let mut r = StripStream::new(Vec::new());
                let _ = r.write_all(&whole);
                if r.into_inner() != got {
                    bad.push((format!("{name} {}", show(&whole)), "differs from what a StripStream delivers".into()));
                }
            }
            if bad.len() > 40 {
                return (n, bad);
            }
        }
    }
    (n, bad)
}

#[cfg(not(any(feature = "style", feature = "stream")))]
fn run() -> (u64, Vec<(String, String)>) {
    (0, vec![("machinery".into(), "vfeat built without a feature".into())])
}

fn main() {
    let r = std::panic::catch_unwind(run);
    let (n, bad) = match r {
        Ok(x) => x,
        Err(_) => (0, vec![("panic".into(), "the worker panicked".into())]),
    };
    let cfg = if cfg!(feature = "style") { "style" } else if cfg!(feature = "stream") { "stream" } else { "none" };
    println!("RESULT {}", serde_json::json!({"config": cfg, "cases": n, "findings": bad.iter().map(|(c, m)| serde_json::json!({"case": c, "message": m})).collect::<Vec<_>>()}));
}
