//! Runs a closure with the process's real stdout/stderr (fd 1 / fd 2) redirected to temp files and
//! returns what was written.  Single-threaded use only (fds are process-global).

use std::io::{Read, Seek, Write};
use std::os::fd::AsRawFd;

pub struct Captured {
    pub out: Vec<u8>,
    pub err: Vec<u8>,
}

fn tmp_dir() -> String {
    let base = std::env::var("VERIF_BUILD_DIR").unwrap_or_else(|_| "/verif/.build".into());
    format!("{base}/tmp")
}

pub fn capture_stdio<R>(f: impl FnOnce() -> R) -> Result<(R, Captured), String> {
    let dir = tmp_dir();
    std::fs::create_dir_all(&dir).map_err(|e| e.to_string())?;
    let mk = |name: &str| {
        std::fs::OpenOptions::new()
            .create(true)
            .truncate(true)
            .read(true)
            .write(true)
            .open(format!("{dir}/stdio-{name}-{}.bin", std::process::id()))
            .map_err(|e| e.to_string())
    };
    let mut fo = mk("out")?;
    let mut fe = mk("err")?;
    std::io::stdout().flush().ok();
    let (s1, s2) = unsafe { (libc::dup(1), libc::dup(2)) };
    if s1 < 0 || s2 < 0 {
        return Err("dup failed".into());
    }
    if unsafe { libc::dup2(fo.as_raw_fd(), 1) } < 0 || unsafe { libc::dup2(fe.as_raw_fd(), 2) } < 0 {
        unsafe {
            libc::dup2(s1, 1);
            libc::dup2(s2, 2);
        }
        return Err("dup2 failed".into());
    }
    let r = std::panic::catch_unwind(std::panic::AssertUnwindSafe(f));
    std::io::stdout().flush().ok();
    std::io::stderr().flush().ok();
    unsafe {
        libc::dup2(s1, 1);
        libc::dup2(s2, 2);
        libc::close(s1);
        libc::close(s2);
    }
    let mut cap = Captured { out: vec![], err: vec![] };
    fo.seek(std::io::SeekFrom::Start(0)).map_err(|e| e.to_string())?;
    fe.seek(std::io::SeekFrom::Start(0)).map_err(|e| e.to_string())?;
    fo.read_to_end(&mut cap.out).map_err(|e| e.to_string())?;
    fe.read_to_end(&mut cap.err).map_err(|e| e.to_string())?;
    let _ = std::fs::remove_file(format!("{dir}/stdio-out-{}.bin", std::process::id()));
    let _ = std::fs::remove_file(format!("{dir}/stdio-err-{}.bin", std::process::id()));
    match r {
        Ok(v) => Ok((v, cap)),
        Err(_) => Err(format!("panic: {}", vexplore::util::last_panic())),
    }
}

/// `write_all(prefix); lock(); write_all(suffix)` over the real stdout/stderr for every cut position
/// of a few inputs: the locked stream must continue from the carried strip state.
/// Returns (cases run, violations as (case, message)).
pub fn lock_chunking_violations() -> (u64, Vec<(String, String)>) {
    use std::io::Write as _;
    let inputs: [&[u8]; 4] = [b"a\x1b[1;32mgreen\x1b[0m b\n", "é\x1b]0;t\x07x\n".as_bytes(), b"\x1bP1q#0\x1b\\y\n", "p\x1b[38;2;1;2;3m世\n".as_bytes()];
    let mut bad = vec![];
    let mut n = 0u64;
    for input in inputs {
        let expected = vmodel::strip::StripModel::default().expected_exact(input);
        for cut in 0..=input.len() {
            let (a, b) = input.split_at(cut);
            let r = capture_stdio(|| {
                let mut s = anstream::StripStream::new(std::io::stdout());
                s.write_all(a).unwrap();
                let mut l = s.lock();
                l.write_all(b).unwrap();
                drop(l);
                let mut s = anstream::AutoStream::never(std::io::stderr());
                s.write_all(a).unwrap();
                let mut l = s.lock();
                l.write_all(b).unwrap();
                drop(l);
            });
            n += 2;
            match r {
                Ok((_, cap)) => {
                    for (name, got) in [("StripStream::new(stdout()).lock()", &cap.out), ("AutoStream::never(stderr()).lock()", &cap.err)] {
                        if *got != expected {
                            bad.push((
                                format!("{name} cut={cut} input={}", vexplore::util::hex(input)),
                                format!(
                                    "write_all({}); lock(); write_all({}) delivered {} but the one-shot result is {}",
                                    vexplore::util::show(a),
                                    vexplore::util::show(b),
                                    vexplore::util::show(got),
                                    vexplore::util::show(&expected)
                                ),
                            ));
                        }
                    }
                }
                Err(m) => bad.push((format!("cut={cut} input={}", vexplore::util::hex(input)), m)),
            }
        }
    }
    (n, bad)
}
