//! Runs a closure with the process's real stdout/stderr (fd 1 / fd 2) redirected to temp files and
//! returns what was written.  Single-threaded use only (fds are process-global).

use std::io::{Read, Seek, Write};
use std::os::fd::AsRawFd;

pub struct Captured {
    pub out: Vec<u8>,
    pub err: Vec<u8>,
}

fn tmp_dir() -> String {
    let base = std::env::var("VERIF_BUILD_DIR").unwrap_or_else(|_| "/verif/.build".into());
    format!("{base}/tmp")
}

pub fn capture_stdio<R>(f: impl FnOnce() -> R) -> Result<(R, Captured), String> {
    let dir = tmp_dir();
    std::fs::create_dir_all(&dir).map_err(|e| e.to_string())?;
    let mk = |name: &str| {
        std::fs::OpenOptions::new()
            .create(true)
            .truncate(true)
            .read(true)
            .write(true)
            .open(format!("{dir}/stdio-{name}-{}.bin", std::process::id()))
            .map_err(|e| e.to_string())
    };
    let mut fo = mk("out")?;
    let mut fe = mk("err")?;
    std::io::stdout().flush().ok();
    let (s1, s2) = unsafe { (libc::dup(1), libc::dup(2)) };
    if s1 < 0 || s2 < 0 {
        return Err("dup failed".into());
    }
    if unsafe { libc::dup2(fo.as_raw_fd(), 1) } < 0 || unsafe { libc::dup2(fe.as_raw_fd(), 2) } < 0 {
        unsafe {
            libc::dup2(s1, 1);
            libc::dup2(s2, 2);
        }
        return Err("dup2 failed".into());
    }
    let r = std::panic::catch_unwind(std::panic::AssertUnwindSafe(f));
    std::io::stdout().flush().ok();
    std::io::stderr().flush().ok();
    unsafe {
        libc::dup2(s1, 1);
        libc::dup2(s2, 2);
        libc::close(s1);
        libc::close(s2);
    }
    let mut cap = Captured { out: vec![], err: vec![] };
    fo.seek(std::io::SeekFrom::Start(0)).map_err(|e| e.to_string())?;
    fe.seek(std::io::SeekFrom::Start(0)).map_err(|e| e.to_string())?;
    fo.read_to_end(&mut cap.out).map_err(|e| e.to_string())?;
    fe.read_to_end(&mut cap.err).map_err(|e| e.to_string())?;
    let _ = std::fs::remove_file(format!("{dir}/stdio-out-{}.bin", std::process::id()));
    let _ = std::fs::remove_file(format!("{dir}/stdio-err-{}.bin", std::process::id()));
    match r {
        Ok(v) => Ok((v, cap)),
        Err(_) => Err(format!("panic: {}", vexplore::util::last_panic())),
    }
}
