//! Helpers for the finite-domain enumerations (included with #[path] by c10/c11/c12):
//! a deterministic, bounded violation collector for parallel sweeps and a quiet
//! panic guard.
#![allow(dead_code)]

use std::collections::BTreeMap;
use std::sync::atomic::{AtomicU64, Ordering};
use std::sync::Mutex;
use vexplore::evidence::Finding;

/// Keeps, per (system, clause), the `k` smallest cases (shortest first, then
/// lexicographic), so the reported set does not depend on thread scheduling.
pub struct Collector {
    k: usize,
    total: AtomicU64,
    groups: Mutex<BTreeMap<(String, String), (u64, BTreeMap<(usize, String), Finding>)>>,
}

impl Collector {
    pub fn new(k: usize) -> Self {
        Collector { k, total: AtomicU64::new(0), groups: Mutex::new(BTreeMap::new()) }
    }
    pub fn push(&self, f: Finding) {
        self.total.fetch_add(1, Ordering::Relaxed);
        let order = (f.case.iter().map(|c| c.chars().count()).sum::<usize>(), f.case.join(" "));
        let mut g = self.groups.lock().unwrap();
        let e = g.entry((f.system.clone(), f.clause.clone())).or_default();
        e.0 += 1;
        let m = &mut e.1;
        if m.len() >= self.k {
            let last = m.keys().next_back().unwrap().clone();
            if order >= last {
                return;
            }
            m.remove(&last);
        }
        m.insert(order, f);
    }
    /// count `n` further violating cases of a group without recording them individually
    pub fn add_count(&self, system: &str, clause: &str, n: u64) {
        if n == 0 {
            return;
        }
        self.total.fetch_add(n, Ordering::Relaxed);
        let mut g = self.groups.lock().unwrap();
        g.entry((system.to_string(), clause.to_string())).or_default().0 += n;
    }
    pub fn total(&self) -> u64 {
        self.total.load(Ordering::Relaxed)
    }
    /// (findings in deterministic order, total number of violating cases,
    ///  number of violating cases per "system :: clause")
    pub fn finish(self) -> (Vec<Finding>, u64, serde_json::Value) {
        let total = self.total();
        let g = self.groups.into_inner().unwrap();
        let mut v = vec![];
        let mut per = serde_json::Map::new();
        for ((system, clause), (n, m)) in g {
            per.insert(format!("{system} :: {clause}"), serde_json::json!(n));
            v.extend(m.into_values());
        }
        (v, total, serde_json::Value::Object(per))
    }
}

/// Install a panic hook that prints nothing (the sweeps provoke panics on purpose).
pub fn quiet_panics() {
    std::panic::set_hook(Box::new(|_| {}));
}

pub fn panic_text(e: Box<dyn std::any::Any + Send>) -> String {
    if let Some(s) = e.downcast_ref::<&str>() {
        s.to_string()
    } else if let Some(s) = e.downcast_ref::<String>() {
        s.clone()
    } else {
        "panic with a non-string payload".to_string()
    }
}

/// Run `f`, turning a panic into `Err(message)`.
pub fn guarded<T>(f: impl FnOnce() -> T) -> Result<T, String> {
    std::panic::catch_unwind(std::panic::AssertUnwindSafe(f)).map_err(panic_text)
}
