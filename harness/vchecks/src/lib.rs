pub mod common;
