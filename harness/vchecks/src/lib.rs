pub mod common;
pub mod wincon_sys;
