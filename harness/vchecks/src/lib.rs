pub mod common;
pub mod wincon_sys;
pub mod parser_sys;
pub mod strip_sys;
pub mod fault_sys;
pub mod stdio_sys;
pub mod parsecfg;
