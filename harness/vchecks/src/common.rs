//! Shared pieces of the checks: byte-class alphabets, a recording `Perform`,
//! conversions between the real style types and the reference model's.

use anstyle_parse::state::{state_change, Action, State};
use vmodel::vt::{self, Ev};

pub const REAL_STATES: [State; 16] = [
    State::Anywhere,
    State::CsiEntry,
    State::CsiIgnore,
    State::CsiIntermediate,
    State::CsiParam,
    State::DcsEntry,
    State::DcsIgnore,
    State::DcsIntermediate,
    State::DcsParam,
    State::DcsPassthrough,
    State::Escape,
    State::EscapeIntermediate,
    State::Ground,
    State::OscString,
    State::SosPmApcString,
    State::Utf8,
];

fn rfc3629_class(b: u8) -> u8 {
    match b {
        0x00..=0x7f => 0,
        0x80..=0x8f => 1,
        0x90..=0x9f => 2,
        0xa0..=0xbf => 3,
        0xc0..=0xc1 => 4,
        0xc2..=0xdf => 5,
        0xe0 => 6,
        0xe1..=0xec => 7,
        0xed => 8,
        0xee..=0xef => 9,
        0xf0 => 10,
        0xf1..=0xf3 => 11,
        0xf4 => 12,
        0xf5..=0xff => 13,
    }
}

/// Signature of a byte: everything the code under test and the models can use to tell bytes apart.
fn signature(b: u8) -> Vec<u16> {
    let mut sig = vec![];
    for st in REAL_STATES {
        let (s, a) = state_change(st, b);
        sig.push(((s as u16) << 8) | a as u16);
    }
    for st in vt::ALL_STATES {
        let (s, a) = vt::table(st, b);
        sig.push(vmodel_hash(&(s, a)));
    }
    sig.push(rfc3629_class(b) as u16);
    sig.push(b.is_ascii_whitespace() as u16);
    sig.push(b.is_ascii_digit() as u16);
    sig.push((b == 0x7f) as u16);
    sig.push((b == b';') as u16);
    sig.push((b == b':') as u16);
    sig.push((b == 0x07) as u16);
    sig.push((b == b'm') as u16);
    sig
}

fn vmodel_hash<T: std::hash::Hash>(t: &T) -> u16 {
    (vexplore::util::hash_of(t) & 0xffff) as u16
}

/// Bytes that always get their own symbol.
pub const NAMED: &[u8] = &[
    0x00, 0x07, 0x09, 0x0a, 0x0c, 0x0d, 0x18, 0x1a, 0x1b, b' ', b'0', b'1', b'2', b'5', b'9', b';', b':', b'?', b'[',
    b']', b'P', b'X', b'^', b'_', b'\\', b'm', b'a', 0x7f, 0x80, 0x9c, 0xa9, 0xc2, 0xc3, 0xe0, 0xe2, 0xed, 0xf0, 0xf4,
    0xff,
];

/// One representative per byte class (computed from the real table and the model) plus the named bytes.
pub fn class_alphabet() -> (Vec<u8>, usize) {
    let mut seen: std::collections::HashMap<Vec<u16>, u8> = Default::default();
    let mut reps = vec![];
    for b in 0..=255u8 {
        let sig = signature(b);
        seen.entry(sig).or_insert_with(|| {
            reps.push(b);
            b
        });
    }
    let nclasses = reps.len();
    for &b in NAMED {
        if !reps.contains(&b) {
            reps.push(b);
        }
    }
    reps.sort();
    (reps, nclasses)
}

/// Only the class representatives (no named bytes), for the larger chunk enumerations.
pub fn class_reps() -> Vec<u8> {
    let mut seen: std::collections::HashSet<Vec<u16>> = Default::default();
    let mut reps = vec![];
    for b in 0..=255u8 {
        if seen.insert(signature(b)) {
            reps.push(b);
        }
    }
    reps
}

/// Records parser callbacks as model events.
#[derive(Default, Debug, Clone, PartialEq, Eq)]
pub struct Recorder(pub Vec<Ev>);

fn params_vec(p: &anstyle_parse::Params) -> Vec<Vec<u16>> {
    p.iter().map(|g| g.to_vec()).collect()
}

impl anstyle_parse::Perform for Recorder {
    fn print(&mut self, c: char) {
        self.0.push(Ev::Print(c));
    }
    fn execute(&mut self, byte: u8) {
        self.0.push(Ev::Execute(byte));
    }
    fn hook(&mut self, params: &anstyle_parse::Params, intermediates: &[u8], ignore: bool, action: u8) {
        self.0.push(Ev::Hook { params: params_vec(params), inter: intermediates.to_vec(), ignore, byte: action });
    }
    fn put(&mut self, byte: u8) {
        self.0.push(Ev::Put(byte));
    }
    fn unhook(&mut self) {
        self.0.push(Ev::Unhook);
    }
    fn osc_dispatch(&mut self, params: &[&[u8]], bell_terminated: bool) {
        self.0.push(Ev::Osc { params: params.iter().map(|p| p.to_vec()).collect(), bell: bell_terminated });
    }
    fn csi_dispatch(&mut self, params: &anstyle_parse::Params, intermediates: &[u8], ignore: bool, action: u8) {
        self.0.push(Ev::Csi { params: params_vec(params), inter: intermediates.to_vec(), ignore, byte: action });
    }
    fn esc_dispatch(&mut self, intermediates: &[u8], ignore: bool, byte: u8) {
        self.0.push(Ev::Esc { inter: intermediates.to_vec(), ignore, byte });
    }
}

// ---- style conversions -------------------------------------------------

use vmodel::sgr::{Col, Sgr};

pub fn col_of(c: Option<anstyle::Color>) -> Col {
    match c {
        None => Col::Default,
        Some(anstyle::Color::Ansi(a)) => Col::Ansi(anstyle::Ansi256Color::from_ansi(a).0),
        Some(anstyle::Color::Ansi256(i)) => Col::Idx(i.0),
        Some(anstyle::Color::Rgb(r)) => Col::Rgb(r.0, r.1, r.2),
    }
}

pub const EFFECT_BITS: [anstyle::Effects; 12] = [
    anstyle::Effects::BOLD,
    anstyle::Effects::DIMMED,
    anstyle::Effects::ITALIC,
    anstyle::Effects::UNDERLINE,
    anstyle::Effects::DOUBLE_UNDERLINE,
    anstyle::Effects::CURLY_UNDERLINE,
    anstyle::Effects::DOTTED_UNDERLINE,
    anstyle::Effects::DASHED_UNDERLINE,
    anstyle::Effects::BLINK,
    anstyle::Effects::INVERT,
    anstyle::Effects::HIDDEN,
    anstyle::Effects::STRIKETHROUGH,
];

/// effect set of the real type as the model's bit set (bit i = i-th declared effect)
pub fn effects_bits(e: anstyle::Effects) -> u16 {
    let mut bits = 0u16;
    for (i, f) in EFFECT_BITS.iter().enumerate() {
        if e.contains(*f) {
            bits |= 1 << i;
        }
    }
    bits
}

pub fn effects_from_bits(bits: u16) -> anstyle::Effects {
    let mut e = anstyle::Effects::new();
    for (i, f) in EFFECT_BITS.iter().enumerate() {
        if bits & (1 << i) != 0 {
            e = e.insert(*f);
        }
    }
    e
}

pub fn ansi_from_index(i: u8) -> anstyle::AnsiColor {
    use anstyle::AnsiColor::*;
    [
        Black, Red, Green, Yellow, Blue, Magenta, Cyan, White, BrightBlack, BrightRed, BrightGreen, BrightYellow,
        BrightBlue, BrightMagenta, BrightCyan, BrightWhite,
    ][i as usize]
}

pub fn color_from_col(c: Col) -> Option<anstyle::Color> {
    match c {
        Col::Default => None,
        Col::Ansi(i) => Some(ansi_from_index(i).into()),
        Col::Idx(i) => Some(anstyle::Ansi256Color(i).into()),
        Col::Rgb(r, g, b) => Some(anstyle::RgbColor(r, g, b).into()),
    }
}

/// (fg, bg, underline colour, effect bits) of a real style
pub fn style_tuple(s: &anstyle::Style) -> (Col, Col, Col, u16) {
    (col_of(s.get_fg_color()), col_of(s.get_bg_color()), col_of(s.get_underline_color()), effects_bits(s.get_effects()))
}

/// the style a terminal in state `sgr` shows, as (fg, bg, ul colour, denoted effect set)
pub fn sgr_tuple(sgr: &Sgr) -> (Col, Col, Col, u16) {
    (sgr.fg, sgr.bg, sgr.ul_color, sgr.seen)
}

pub fn action_is(a: Action, b: Action) -> bool {
    a == b
}
