//! Fault-script systems for the stream wrappers (used by C06 for the strip stream and by C08
//! for the pass-through modes).
//! C06 - the strip stream keeps the Write contract under short writes and errors.
//!
//! E2: every short input x every inner-writer script with <= k deviations (a deviation is any
//! answer other than "accept everything": accept 0/1/2/3 bytes, Interrupted, WouldBlock,
//! Other), through four drivers: the standard protocol over `write`, `write_vectored` with
//! every split into <= 3 slices, `write_all`, and `write!` with the input in two fragments.

use std::cell::RefCell;
use std::io::{self, ErrorKind, IoSlice, Write};
use std::rc::Rc;
use vexplore::scripts::Script;
use vexplore::util::*;
use vmodel::strip::StripModel;

const ERR_KINDS: [ErrorKind; 4] = [ErrorKind::Interrupted, ErrorKind::WouldBlock, ErrorKind::Other, ErrorKind::BrokenPipe];

#[derive(Default)]
struct Shared {
    script: Script,
    accepted: Vec<u8>,
    /// per outer call: what the inner writer answered
    call_errors: Vec<ErrorKind>,
    call_short: bool,
    call_zero: bool,
    call_writes: usize,
    flushes: usize,
}

struct Scripted(Rc<RefCell<Shared>>);

impl Write for Scripted {
    fn write(&mut self, buf: &[u8]) -> io::Result<usize> {
        let mut s = self.0.borrow_mut();
        s.call_writes += 1;
        // menu: 0 = accept all; then accept k < len for k in 0..=3; then the three error kinds
        let mut menu: Vec<Result<usize, Result<ErrorKind, i32>>> = vec![Ok(buf.len())];
        for k in 0..=3usize {
            if k < buf.len() {
                menu.push(Ok(k));
            }
        }
        for k in ERR_KINDS {
            menu.push(Err(Ok(k)));
        }
        // ... and one error that carries a raw OS code instead of a plain kind
        menu.push(Err(Err(6)));
        let c = s.script.choose(menu.len());
        match menu[c] {
            Ok(n) => {
                if n < buf.len() {
                    s.call_short = true;
                }
                if n == 0 && !buf.is_empty() {
                    s.call_zero = true;
                }
                s.accepted.extend_from_slice(&buf[..n]);
                Ok(n)
            }
            Err(e) => {
                let err = match e {
                    Ok(k) => io::Error::new(k, "injected"),
                    Err(code) => io::Error::from_raw_os_error(code),
                };
                s.call_errors.push(err.kind());
                Err(err)
            }
        }
    }
    /// a gathering write: one scripted answer for the concatenation of the buffers
    fn write_vectored(&mut self, bufs: &[IoSlice<'_>]) -> io::Result<usize> {
        let all: Vec<u8> = bufs.iter().flat_map(|b| b.iter().copied()).collect();
        self.write(&all)
    }
    fn flush(&mut self) -> io::Result<()> {
        self.0.borrow_mut().flushes += 1;
        Ok(())
    }
}

#[derive(Clone, Copy, Debug, PartialEq, Eq)]
pub enum Driver {
    WriteProtocol,
    AutoNeverProtocol,
    Vectored(usize, usize), // cut positions (a <= b) into <= 3 slices
    WriteAll,
    WriteFmt(usize), // split point of the two fragments (a char boundary)
    /// `write!` with a literal-only format string (index into LITERALS); the input is that literal
    FmtLiteral(usize),
    /// `write!(s, "[{:>w$}]{}{:?}", text, 'c', 'd')`: padding, `char` arguments and Debug quotes reach the
    /// writer through `fmt::Write::write_char`; the bytes offered are what std's formatting produces
    FmtPad,
    /// two calls on the same stream: `write_all(input[..cut])` then `write_all(input[cut..])` - whatever the first call
    /// left behind after an error must not leak into the second
    TwoWriteAll(usize),
    /// the same with `write!(s, "{}", ..)` calls (with an argument, so that the formatting shim is used)
    TwoFmt(usize),
    /// `write!` of a value whose `Display` writes input[..cut], IGNORES a failure, writes input[cut..] and then
    /// returns the first failure ("always emit the closing reset"): the inner error must still arrive with its kind
    FmtStubborn(usize),
    /// `write!` of a value whose `Display` writes input[..cut] and then returns `Err` on its own (the stream did not
    /// fail), followed by `write_all(input[cut..])` on the same stream: the abandoned call's pieces were consumed, so
    /// both calls together must deliver what one call with the whole input delivers
    FmtAbandonThen(usize),
    /// like `FmtAbandonThen`, but the `Display` impl panics after writing its text (the panic is caught): whatever
    /// the stream delivered of that text must be a prefix of it, and the next call must behave as after some prefix
    FmtPanicThen(usize),
    /// `write_all` / `write!` on a strip stream whose inner writer is itself a strip stream (a writer that was already
    /// wrapped once): stripping twice delivers what stripping once delivers, and nothing per-thread may be shared
    /// between the two levels
    NestedWriteAll,
    NestedFmt(usize),
}

/// see `Driver::FmtPanicThen`
struct Bomb<'a>(&'a str);
impl std::fmt::Display for Bomb<'_> {
    fn fmt(&self, f: &mut std::fmt::Formatter<'_>) -> std::fmt::Result {
        f.write_str(self.0)?;
        panic!("Display impl of the harness panics on purpose")
    }
}

/// see `Driver::FmtAbandonThen`
struct Abandon<'a>(&'a str);
impl std::fmt::Display for Abandon<'_> {
    fn fmt(&self, f: &mut std::fmt::Formatter<'_>) -> std::fmt::Result {
        f.write_str(self.0)?;
        Err(std::fmt::Error)
    }
}

/// see `Driver::FmtStubborn`
struct Stubborn<'a>(&'a str, &'a str);
impl std::fmt::Display for Stubborn<'_> {
    fn fmt(&self, f: &mut std::fmt::Formatter<'_>) -> std::fmt::Result {
        let first = f.write_str(self.0);
        let second = f.write_str(self.1);
        first.and(second)
    }
}

/// what `Driver::FmtPad` offers for a given text
pub fn fmt_pad_bytes(text: &str) -> Vec<u8> {
    let w = text.chars().count() + 2;
    // a fill character and `char` arguments from every UTF-8 length, among them the Latin-1 range (one byte in
    // Latin-1, two in UTF-8) - all of them reach the writer through `fmt::Write::write_char`
    format!("[{:\u{b7}>w$}]{}{}{}{}{:?}", text, 'c', '\u{e9}', '\u{4e16}', '\u{1f600}', 'd', w = w).into_bytes()
}

/// What the stream under test is supposed to do with the bytes.
#[derive(Clone, Copy, Debug, PartialEq, Eq)]
pub enum Mode {
    /// StripStream / AutoStream::never: the inner writer gets the stripped form
    Strip,
    /// AutoStream::always_ansi: the inner writer gets the bytes verbatim
    PassAnsi,
    /// AutoStream::always (pass-through off Windows)
    PassAlways,
}

pub const LITERALS: [&str; 6] = ["ab", "a\x1b[1mb\x1b[0m\n", "\x1b[31m", "é\x1b[mé", "status: all good, nothing to see here\n", "\x1b[1;32mall good\x1b[0m\n"];

fn write_literal(s: &mut dyn Write, i: usize) -> io::Result<()> {
    match i {
        0 => write!(s, "ab"),
        1 => write!(s, "a\x1b[1mb\x1b[0m\n"),
        2 => write!(s, "\x1b[31m"),
        3 => write!(s, "é\x1b[mé"),
        4 => write!(s, "status: all good, nothing to see here\n"),
        _ => write!(s, "\x1b[1;32mall good\x1b[0m\n"),
    }
}

fn begin_call(sh: &Rc<RefCell<Shared>>) {
    let mut s = sh.borrow_mut();
    s.call_errors.clear();
    s.call_short = false;
    s.call_zero = false;
    s.call_writes = 0;
}

/// visible text of input[..consumed] must equal what the inner writer accepted so far
fn check_delivered(mode: Mode, input: &[u8], consumed: usize, sh: &Rc<RefCell<Shared>>, what: &str) -> Result<(), String> {
    let s = sh.borrow();
    if mode != Mode::Strip {
        if s.accepted == input[..consumed] {
            return Ok(());
        }
        return Err(format!(
            "{what}: the caller has been told {consumed} of {} bytes are consumed, the inner writer holds {} but the consumed prefix {} differs (pass-through must forward verbatim)",
            input.len(),
            show(&s.accepted),
            show(&input[..consumed])
        ));
    }
    StripModel::default().check_output(&input[..consumed], &s.accepted).map_err(|m| {
        format!(
            "{what}: the caller has been told {consumed} of {} bytes are consumed, the inner writer holds {} but the stripped form of the consumed prefix {} differs: {m}",
            input.len(),
            show(&s.accepted),
            show(&input[..consumed])
        )
    })
}

/// After a formatted write of `a` that was abandoned (its `Display` impl failed or panicked on its own, the inner writer
/// was healthy) and a successful `write_all(b)`: `before` is what the inner writer held after the first call, `new` what
/// it received during the second.  How much of an abandoned write counts as consumed is not specified, but it must be
/// ONE amount: for some prefix of `a`, `before` is exactly what that prefix delivers and `new` is what `b` delivers
/// from the state after that prefix.
///
/// `joint = false` (the first call unwound from a panic): what was delivered and how far the state advanced may be two
/// different amounts - a stream that renders into a buffer and writes once has consumed everything and delivered
/// nothing when the formatting code unwinds.
fn judge_after_abandoned(mode: Mode, a: &[u8], b: &[u8], before: &[u8], new: &[u8], joint: bool) -> Result<(), String> {
    let ok = if joint {
        (0..=a.len()).any(|r| {
            if mode != Mode::Strip {
                return before == &a[..r] && new == b;
            }
            let mut m = StripModel::default();
            m.check_output(&a[..r], before).is_ok() && m.check_output(b, new).is_ok()
        })
    } else if mode != Mode::Strip {
        a.starts_with(before) && new == b
    } else {
        StripModel::default().output_of_some_prefix(a, before)
            && (0..=a.len()).any(|r| {
                let mut m = StripModel::default();
                let _ = m.expected_exact(&a[..r]);
                m.check_output(b, new).is_ok()
            })
    };
    if ok {
        Ok(())
    } else {
        Err(format!(
            "after an abandoned write! of {} the inner writer held {}, and write_all({}) then delivered {}: this differs from consuming any one prefix of the abandoned text and then the second buffer",
            show(a),
            show(before),
            show(b),
            show(new)
        ))
    }
}

pub fn run_case(mode: Mode, input: &[u8], driver: Driver, script: Script) -> (Result<(), String>, Script) {
    // for the padded-format driver the oracle's input is what std formatting produces from `input`
    let padded;
    let (input, pad_text): (&[u8], Option<&str>) = if driver == Driver::FmtPad {
        match std::str::from_utf8(input) {
            Ok(t) => {
                padded = fmt_pad_bytes(t);
                (&padded[..], Some(t))
            }
            Err(_) => return (Err("machinery: FmtPad needs UTF-8 input".into()), script),
        }
    } else {
        (input, None)
    };
    let sh = Rc::new(RefCell::new(Shared { script, ..Default::default() }));
    let boxed: Box<dyn Write> = Box::new(Scripted(sh.clone()));
    let r = (|| -> Result<(), String> {
        match driver {
            Driver::WriteProtocol | Driver::AutoNeverProtocol | Driver::Vectored(..) => {
                enum S {
                    Strip(anstream::StripStream<Box<dyn Write>>),
                    Auto(anstream::AutoStream<Box<dyn Write>>),
                }
                let mut stream = match mode {
                    Mode::PassAnsi => S::Auto(anstream::AutoStream::always_ansi(boxed)),
                    Mode::PassAlways => S::Auto(anstream::AutoStream::always(boxed)),
                    Mode::Strip if driver == Driver::AutoNeverProtocol => S::Auto(anstream::AutoStream::never(boxed)),
                    Mode::Strip => S::Strip(anstream::StripStream::new(boxed)),
                };
                // slices for the vectored driver
                let cuts = match driver {
                    Driver::Vectored(a, b) => vec![0, a, b, input.len()],
                    _ => vec![0, input.len()],
                };
                let mut consumed = 0usize;
                let mut guard = 0;
                while consumed < input.len() {
                    guard += 1;
                    if guard > 64 + input.len() / 64 {
                        return Err(format!("protocol did not terminate within {} calls", 64 + input.len() / 64));
                    }
                    begin_call(&sh);
                    let offered: usize;
                    let res = match driver {
                        Driver::Vectored(..) => {
                            let slices: Vec<IoSlice<'_>> = cuts
                                .windows(2)
                                .filter_map(|w| {
                                    let (a, b) = (w[0].max(consumed), w[1]);
                                    (a < b).then(|| IoSlice::new(&input[a..b]))
                                })
                                .collect();
                            offered = input.len() - consumed;
                            match &mut stream {
                                S::Strip(s) => s.write_vectored(&slices),
                                S::Auto(s) => s.write_vectored(&slices),
                            }
                        }
                        _ => {
                            offered = input.len() - consumed;
                            match &mut stream {
                                S::Strip(s) => s.write(&input[consumed..]),
                                S::Auto(s) => s.write(&input[consumed..]),
                            }
                        }
                    };
                    let (errs, short, writes) = {
                        let s = sh.borrow();
                        (s.call_errors.clone(), s.call_short, s.call_writes)
                    };
                    match res {
                        Ok(n) => {
                            if n > offered {
                                return Err(format!("write returned {n}, more than the {offered} bytes it was given"));
                            }
                            if !errs.is_empty() && n == offered {
                                return Err(format!(
                                    "an inner error ({:?}) was turned into complete success: write returned {n} of {offered}",
                                    errs[0]
                                ));
                            }
                            consumed += n;
                            check_delivered(mode, input, consumed, &sh, "after write returned Ok")?;
                            if n == 0 {
                                if errs.is_empty() && !short {
                                    return Err(format!(
                                        "write made no progress (returned 0 of {offered}) although the inner writer accepted everything ({writes} inner writes)"
                                    ));
                                }
                                return Ok(()); // standard protocol: WriteZero, caller stops
                            }
                        }
                        Err(e) => {
                            if !errs.contains(&e.kind()) {
                                return Err(format!("write returned error kind {:?} but the inner writer raised {:?}", e.kind(), errs));
                            }
                            // std contract: an error means no byte of this buffer was consumed
                            check_delivered(mode, input, consumed, &sh, &format!("after write returned Err({:?})", e.kind()))?;
                            if e.kind() != ErrorKind::Interrupted {
                                return Ok(()); // fatal for the caller
                            }
                        }
                    }
                }
                check_delivered(mode, input, input.len(), &sh, "at the end of the protocol")?;
                Ok(())
            }
            Driver::TwoWriteAll(cut) | Driver::TwoFmt(cut) => {
                let mut strip_s;
                let mut auto_s;
                let stream: &mut dyn Write = match mode {
                    Mode::Strip => {
                        strip_s = anstream::StripStream::new(boxed);
                        &mut strip_s
                    }
                    Mode::PassAnsi => {
                        auto_s = anstream::AutoStream::always_ansi(boxed);
                        &mut auto_s
                    }
                    Mode::PassAlways => {
                        auto_s = anstream::AutoStream::always(boxed);
                        &mut auto_s
                    }
                };
                let (a, b) = input.split_at(cut);
                // model states the stream may be in before the second call: after all of `a`, or - when the first call
                // failed, where it stopped is unspecified - after any prefix of it
                let mut before_second: Vec<StripModel> = vec![];
                let mut delivered_before = 0usize;
                for (which, part) in [("first", a), ("second", b)] {
                    begin_call(&sh);
                    let res = if matches!(driver, Driver::TwoFmt(_)) {
                        let t = std::str::from_utf8(part).map_err(|_| "machinery: fragment not UTF-8".to_string())?;
                        write!(stream, "{}", t)
                    } else {
                        stream.write_all(part)
                    };
                    let (errs, zero) = {
                        let s = sh.borrow();
                        (s.call_errors.clone(), s.call_zero)
                    };
                    let fatal: Vec<ErrorKind> = errs.iter().copied().filter(|k| *k != ErrorKind::Interrupted).collect();
                    let new: Vec<u8> = sh.borrow().accepted[delivered_before..].to_vec();
                    delivered_before = sh.borrow().accepted.len();
                    let starts: Vec<StripModel> = if which == "first" { vec![StripModel::default()] } else { before_second.clone() };
                    match res {
                        Ok(()) => {
                            if !fatal.is_empty() {
                                return Err(format!("{which} call: inner error {:?} was turned into success", fatal[0]));
                            }
                            let ok = if mode == Mode::Strip {
                                starts.iter().any(|m| {
                                    let mut m = *m;
                                    m.check_output(part, &new).is_ok()
                                })
                            } else {
                                new == part
                            };
                            if !ok {
                                return Err(format!(
                                    "{which} call returned Ok(()) for {} but the inner writer received {} during it, which differs from what this call had to deliver{}",
                                    show(part),
                                    show(&new),
                                    if which == "second" { format!(" (the first call, for {}, had returned an error or success as scripted)", show(a)) } else { String::new() }
                                ));
                            }
                            if which == "first" {
                                let mut m = StripModel::default();
                                let _ = m.expected_exact(a);
                                before_second = vec![m];
                            }
                        }
                        Err(e) => {
                            let allowed = errs.contains(&e.kind()) || (zero && e.kind() == ErrorKind::WriteZero);
                            if !allowed {
                                return Err(format!("{which} call returned error kind {:?} but the inner writer raised {:?} (accepted zero bytes: {zero})", e.kind(), errs));
                            }
                            let ok = if mode == Mode::Strip { starts.iter().any(|m| m.output_of_some_prefix(part, &new)) } else { part.starts_with(&new) };
                            if !ok {
                                return Err(format!(
                                    "{which} call: after Err({:?}) the inner writer received {} during the call, which is not the stripped form of any prefix of {} and differs from anything this call may deliver",
                                    e.kind(),
                                    show(&new),
                                    show(part)
                                ));
                            }
                            if which == "first" {
                                before_second = (0..=a.len())
                                    .map(|r| {
                                        let mut m = StripModel::default();
                                        let _ = m.expected_exact(&a[..r]);
                                        m
                                    })
                                    .collect();
                                before_second.dedup();
                            }
                        }
                    }
                }
                Ok(())
            }
            Driver::FmtAbandonThen(cut) => {
                let mut strip_s;
                let mut auto_s;
                let stream: &mut dyn Write = match mode {
                    Mode::Strip => {
                        strip_s = anstream::StripStream::new(boxed);
                        &mut strip_s
                    }
                    Mode::PassAnsi => {
                        auto_s = anstream::AutoStream::always_ansi(boxed);
                        &mut auto_s
                    }
                    Mode::PassAlways => {
                        auto_s = anstream::AutoStream::always(boxed);
                        &mut auto_s
                    }
                };
                let a = std::str::from_utf8(&input[..cut]).map_err(|_| "machinery: fragment not UTF-8".to_string())?;
                begin_call(&sh);
                let first = write!(stream, "{}", Abandon(a));
                let errs1 = sh.borrow().call_errors.clone();
                if first.is_ok() {
                    return Err("write! returned Ok(()) although the Display impl returned an error".into());
                }
                if !errs1.is_empty() || sh.borrow().call_short {
                    // the inner writer deviated during the abandoned call: the two-call drivers judge that situation
                    return Ok(());
                }
                let before_len = sh.borrow().accepted.len();
                begin_call(&sh);
                let second = stream.write_all(&input[cut..]);
                let (errs, zero) = {
                    let s = sh.borrow();
                    (s.call_errors.clone(), s.call_zero)
                };
                match second {
                    Ok(()) => {
                        if errs.iter().any(|k| *k != ErrorKind::Interrupted) {
                            return Err(format!("inner error {:?} was turned into success", errs[0]));
                        }
                        let all = sh.borrow().accepted.clone();
                        judge_after_abandoned(mode, &input[..cut], &input[cut..], &all[..before_len.min(all.len())], &all[before_len.min(all.len())..], true)
                    }
                    Err(e) => {
                        let allowed = errs.contains(&e.kind()) || (zero && e.kind() == ErrorKind::WriteZero);
                        if !allowed {
                            return Err(format!("returned error kind {:?} but the inner writer raised {:?} (accepted zero bytes: {zero})", e.kind(), errs));
                        }
                        Ok(())
                    }
                }
            }
            Driver::FmtPanicThen(cut) => {
                let mut strip_s;
                let mut auto_s;
                let stream: &mut dyn Write = match mode {
                    Mode::Strip => {
                        strip_s = anstream::StripStream::new(boxed);
                        &mut strip_s
                    }
                    Mode::PassAnsi => {
                        auto_s = anstream::AutoStream::always_ansi(boxed);
                        &mut auto_s
                    }
                    Mode::PassAlways => {
                        auto_s = anstream::AutoStream::always(boxed);
                        &mut auto_s
                    }
                };
                let (a_bytes, b_bytes) = input.split_at(cut);
                let a = std::str::from_utf8(a_bytes).map_err(|_| "machinery: fragment not UTF-8".to_string())?;
                begin_call(&sh);
                let first = std::panic::catch_unwind(std::panic::AssertUnwindSafe(|| write!(stream, "{}", Bomb(a))));
                if first.is_ok() {
                    // the stream failed before the Display impl got to its panic (scripted fault): judged by other drivers
                    return Ok(());
                }
                if !sh.borrow().call_errors.is_empty() || sh.borrow().call_short {
                    return Ok(());
                }
                // How much of a formatted write that unwound was consumed is not specified (the statement is about
                // the caller's protocol, and a panic is outside it): the stream may have delivered any prefix of it -
                // even nothing, if it renders first and writes once - but what it delivered must be a prefix, and the
                // next call must behave as after SOME prefix of the abandoned text.
                let before = sh.borrow().accepted.clone();
                begin_call(&sh);
                let second = stream.write_all(b_bytes);
                let (errs, zero) = {
                    let s = sh.borrow();
                    (s.call_errors.clone(), s.call_zero)
                };
                let new: Vec<u8> = sh.borrow().accepted[before.len()..].to_vec();
                match second {
                    Ok(()) => {
                        if errs.iter().any(|k| *k != ErrorKind::Interrupted) {
                            return Err(format!("inner error {:?} was turned into success", errs[0]));
                        }
                        judge_after_abandoned(mode, a_bytes, b_bytes, &before, &new, false)?;
                        Ok(())
                    }
                    Err(e) => {
                        let allowed = errs.contains(&e.kind()) || (zero && e.kind() == ErrorKind::WriteZero);
                        if !allowed {
                            return Err(format!("returned error kind {:?} but the inner writer raised {:?} (accepted zero bytes: {zero})", e.kind(), errs));
                        }
                        Ok(())
                    }
                }
            }
            Driver::FmtStubborn(cut) => {
                let mut strip_s;
                let mut auto_s;
                let stream: &mut dyn Write = match mode {
                    Mode::Strip => {
                        strip_s = anstream::StripStream::new(boxed);
                        &mut strip_s
                    }
                    Mode::PassAnsi => {
                        auto_s = anstream::AutoStream::always_ansi(boxed);
                        &mut auto_s
                    }
                    Mode::PassAlways => {
                        auto_s = anstream::AutoStream::always(boxed);
                        &mut auto_s
                    }
                };
                let a = std::str::from_utf8(&input[..cut]).map_err(|_| "machinery: fragment not UTF-8".to_string())?;
                let b = std::str::from_utf8(&input[cut..]).map_err(|_| "machinery: fragment not UTF-8".to_string())?;
                begin_call(&sh);
                let res = write!(stream, "{}", Stubborn(a, b));
                let (errs, zero) = {
                    let s = sh.borrow();
                    (s.call_errors.clone(), s.call_zero)
                };
                let fatal: Vec<ErrorKind> = errs.iter().copied().filter(|k| *k != ErrorKind::Interrupted).collect();
                match res {
                    Ok(()) => {
                        if !fatal.is_empty() {
                            return Err(format!("inner error {:?} was turned into success", fatal[0]));
                        }
                        check_delivered(mode, input, input.len(), &sh, "after Ok(())")
                    }
                    Err(e) => {
                        // what reaches the inner writer after the failed piece is the Display impl's doing; only the kind is checked
                        let allowed = errs.contains(&e.kind()) || (zero && e.kind() == ErrorKind::WriteZero);
                        if !allowed {
                            return Err(format!("returned error kind {:?} but the inner writer raised {:?} (accepted zero bytes: {zero})", e.kind(), errs));
                        }
                        Ok(())
                    }
                }
            }
            Driver::WriteAll | Driver::WriteFmt(_) | Driver::FmtLiteral(_) | Driver::FmtPad | Driver::NestedWriteAll | Driver::NestedFmt(_) => {
                let mut strip_s;
                let mut auto_s;
                let boxed: Box<dyn Write> = if matches!(driver, Driver::NestedWriteAll | Driver::NestedFmt(_)) { Box::new(anstream::StripStream::new(boxed)) } else { boxed };
                let stream: &mut dyn Write = match mode {
                    Mode::Strip => {
                        strip_s = anstream::StripStream::new(boxed);
                        &mut strip_s
                    }
                    Mode::PassAnsi => {
                        auto_s = anstream::AutoStream::always_ansi(boxed);
                        &mut auto_s
                    }
                    Mode::PassAlways => {
                        auto_s = anstream::AutoStream::always(boxed);
                        &mut auto_s
                    }
                };
                begin_call(&sh);
                let res = match driver {
                    Driver::FmtLiteral(i) => write_literal(stream, i),
                    Driver::FmtPad => {
                        let t = pad_text.unwrap_or("");
                        let w = t.chars().count() + 2;
                        write!(stream, "[{:\u{b7}>w$}]{}{}{}{}{:?}", t, 'c', '\u{e9}', '\u{4e16}', '\u{1f600}', 'd', w = w)
                    }
                    Driver::WriteAll | Driver::NestedWriteAll => stream.write_all(input),
                    Driver::WriteFmt(cut) | Driver::NestedFmt(cut) => {
                        let a = std::str::from_utf8(&input[..cut]).map_err(|_| "machinery: fragment not UTF-8".to_string())?;
                        let b = std::str::from_utf8(&input[cut..]).map_err(|_| "machinery: fragment not UTF-8".to_string())?;
                        write!(stream, "{a}{b}")
                    }
                    _ => unreachable!(),
                };
                let (errs, zero) = {
                    let s = sh.borrow();
                    (s.call_errors.clone(), s.call_zero)
                };
                let fatal: Vec<ErrorKind> = errs.iter().copied().filter(|k| *k != ErrorKind::Interrupted).collect();
                match res {
                    Ok(()) => {
                        if !fatal.is_empty() {
                            return Err(format!("inner error {:?} was turned into success", fatal[0]));
                        }
                        check_delivered(mode, input, input.len(), &sh, "after Ok(())")
                    }
                    Err(e) => {
                        let allowed = errs.contains(&e.kind()) || (zero && e.kind() == ErrorKind::WriteZero);
                        if !allowed {
                            return Err(format!(
                                "returned error kind {:?} but the inner writer raised {:?} (accepted zero bytes: {zero})",
                                e.kind(),
                                errs
                            ));
                        }
                        // progress on error is unspecified: what was delivered must be the stripped form of some prefix
                        // (one pass over the input, not one check per prefix: inputs can be large)
                        let ok = {
                            let s = sh.borrow();
                            if mode == Mode::Strip {
                                StripModel::default().output_of_some_prefix(input, &s.accepted)
                            } else {
                                input.starts_with(&s.accepted)
                            }
                        };
                        if !ok {
                            return Err(format!(
                                "after Err({:?}) the inner writer holds {} which is not the stripped form of any prefix of the input",
                                e.kind(),
                                show(&sh.borrow().accepted)
                            ));
                        }
                        Ok(())
                    }
                }
            }
        }
    })();
    let script = std::mem::take(&mut sh.borrow_mut().script);
    (r, script)
}

/// the last symbol (BS) is a control byte stripping drops: text around it forms two printable runs without any ESC
pub const SYMS: [&[u8]; 8] = [b"a", "é".as_bytes(), b"\x1b", b"[", b"1", b"m", b"\n", b"\x08"];
/// how many leading symbols of `SYMS` the longest inputs are made of (see `sweep`)
pub const BASE_SYMS: usize = 7;

pub fn drivers_for(tokens: &[usize]) -> Vec<Driver> {
    let input: Vec<u8> = tokens.iter().flat_map(|&i| SYMS[i].to_vec()).collect();
    let mut d = vec![Driver::WriteProtocol, Driver::AutoNeverProtocol, Driver::WriteAll, Driver::FmtPad];
    // token boundaries (char boundaries) for fmt fragments and vectored cuts
    let mut bounds = vec![0];
    let mut p = 0;
    for &t in tokens {
        p += SYMS[t].len();
        bounds.push(p);
    }
    d.push(Driver::NestedWriteAll);
    for &c in &bounds {
        d.push(Driver::WriteFmt(c));
        d.push(Driver::NestedFmt(c));
        if c > 0 && c < input.len() {
            d.push(Driver::TwoWriteAll(c));
            d.push(Driver::TwoFmt(c));
            d.push(Driver::FmtStubborn(c));
            d.push(Driver::FmtAbandonThen(c));
            d.push(Driver::FmtPanicThen(c));
        }
    }
    // vectored: every pair of byte positions a <= b (cuts may fall inside "é")
    for a in 0..=input.len() {
        for b in a..=input.len() {
            d.push(Driver::Vectored(a, b));
        }
    }
    d
}

pub fn clause_of(m: &str) -> String {
    for (pat, c) in [
        ("panic:", "panic"),
        ("more than the", "count-exceeds-buffer"),
        ("turned into complete success", "error-turned-into-success"),
        ("turned into success", "error-turned-into-success"),
        ("no progress", "no-progress"),
        ("returned error kind", "error-kind-changed"),
        ("after write returned Err", "delivered-before-error"),
        ("not the stripped form of any prefix", "delivered-not-a-prefix"),
        ("did not terminate", "no-termination"),
        ("differs", "delivered-differs-from-consumed-prefix"),
    ] {
        if m.contains(pat) {
            return c.to_string();
        }
    }
    "other".into()
}

pub fn parse_driver(s: &str) -> Driver {
    let nums: Vec<usize> = s.split(|c: char| !c.is_ascii_digit()).filter(|x| !x.is_empty()).map(|x| x.parse().unwrap()).collect();
    if s.starts_with("WriteProtocol") {
        Driver::WriteProtocol
    } else if s.starts_with("AutoNever") {
        Driver::AutoNeverProtocol
    } else if s.starts_with("Vectored") {
        Driver::Vectored(nums[0], nums[1])
    } else if s.starts_with("FmtPad") {
        Driver::FmtPad
    } else if s.starts_with("FmtLiteral") {
        Driver::FmtLiteral(nums[0])
    } else if s.starts_with("TwoWriteAll") {
        Driver::TwoWriteAll(nums[0])
    } else if s.starts_with("TwoFmt") {
        Driver::TwoFmt(nums[0])
    } else if s.starts_with("FmtStubborn") {
        Driver::FmtStubborn(nums[0])
    } else if s.starts_with("FmtAbandonThen") {
        Driver::FmtAbandonThen(nums[0])
    } else if s.starts_with("NestedWriteAll") {
        Driver::NestedWriteAll
    } else if s.starts_with("NestedFmt") {
        Driver::NestedFmt(nums[0])
    } else if s.starts_with("FmtPanicThen") {
        Driver::FmtPanicThen(nums[0])
    } else if s.starts_with("WriteAll") {
        Driver::WriteAll
    } else {
        Driver::WriteFmt(nums[0])
    }
}


pub fn driver_label(mode: Mode, driver: Driver) -> String {
    let m = match mode {
        Mode::Strip => "StripStream",
        Mode::PassAnsi => "AutoStream::always_ansi",
        Mode::PassAlways => "AutoStream::always",
    };
    let d = match driver {
        Driver::WriteProtocol => "write-protocol".to_string(),
        Driver::AutoNeverProtocol => "AutoStream::never/write-protocol".to_string(),
        Driver::Vectored(..) => "write_vectored-protocol".to_string(),
        Driver::WriteAll => "write_all".to_string(),
        Driver::WriteFmt(_) => "write_fmt".to_string(),
        Driver::FmtLiteral(_) => "write_fmt-literal".to_string(),
        Driver::FmtPad => "write_fmt-padding-and-chars".to_string(),
        Driver::TwoWriteAll(_) => "write_all; write_all".to_string(),
        Driver::TwoFmt(_) => "write_fmt; write_fmt".to_string(),
        Driver::FmtStubborn(_) => "write_fmt-display-continues-after-error".to_string(),
        Driver::FmtAbandonThen(_) => "write_fmt-abandoned-by-display; write_all".to_string(),
        Driver::FmtPanicThen(_) => "write_fmt-display-panics; write_all".to_string(),
        Driver::NestedWriteAll => "write_all over a nested strip stream".to_string(),
        Driver::NestedFmt(_) => "write_fmt over a nested strip stream".to_string(),
    };
    format!("{m}/{d}")
}

/// Exhaustive sweep: every input of <= maxlen tokens x every driver (x every literal) x every
/// script with <= k deviations.  Returns (findings, executions, executions with >= 1 deviation, max decision points).
pub fn sweep(mode: Mode, maxlen: usize, k_of: &(dyn Fn(usize) -> usize + Sync)) -> (Vec<vexplore::evidence::Finding>, u64, u64, u64) {
    use rayon::prelude::*;
    use std::sync::atomic::{AtomicU64, Ordering};
    use vexplore::evidence::Finding;
    let runs = AtomicU64::new(0);
    let deviating = AtomicU64::new(0);
    let max_points = AtomicU64::new(0);
    let viol = std::sync::Mutex::new(Vec::<Finding>::new());
    // (input bytes, token count, drivers)
    // inputs of <= maxlen - 1 tokens over all symbols, and of exactly maxlen tokens over the first BASE_SYMS symbols
    let mut cases: Vec<(Vec<u8>, usize, Vec<Driver>)> = strings_upto(SYMS.len(), maxlen.saturating_sub(1))
        .chain(strings_of(BASE_SYMS, maxlen))
        .filter(|c| !c.is_empty())
        .map(|toks| {
            let input: Vec<u8> = toks.iter().flat_map(|&i| SYMS[i].to_vec()).collect();
            let mut d = drivers_for(&toks);
            if mode != Mode::Strip {
                // (in the pass-through modes write! is std's own `io::Write::write_fmt` of the inner writer, which panics
                // by design when a Display impl fails on its own)
                d.retain(|d| *d != Driver::AutoNeverProtocol && !matches!(d, Driver::FmtAbandonThen(_) | Driver::NestedWriteAll | Driver::NestedFmt(_)));
            }
            (input, toks.len(), d)
        })
        .collect();
    for (i, l) in LITERALS.iter().enumerate() {
        cases.push((l.as_bytes().to_vec(), 3, vec![Driver::FmtLiteral(i)]));
    }
    cases.par_iter().for_each(|(input, ntoks, drivers)| {
        for &driver in drivers {
            let k = k_of(*ntoks);
            let kk = if matches!(driver, Driver::Vectored(..) | Driver::TwoWriteAll(_) | Driver::TwoFmt(_) | Driver::FmtStubborn(_) | Driver::FmtAbandonThen(_) | Driver::FmtPanicThen(_)) && *ntoks > 4 { k - 1 } else { k };
            let st = vexplore::scripts::enumerate(kk, |s| {
                let r = match guard(|| run_case(mode, input, driver, s.clone())) {
                    Ok((r, script)) => {
                        *s = script;
                        r
                    }
                    Err(p) => {
                        s.mark_aborted();
                        Err(p)
                    }
                };
                if s.deviations() > 0 {
                    deviating.fetch_add(1, Ordering::Relaxed);
                }
                if let Err(m) = r {
                    let mut v = viol.lock().unwrap();
                    if v.len() < 400 {
                        v.push(Finding {
                            system: driver_label(mode, driver),
                            clause: clause_of(&m),
                            case: vec![hex(input), format!("{driver:?}"), format!("script{:?}", s.choices())],
                            message: m,
                            replay: serde_json::json!({"kind":"case","mode":format!("{mode:?}"),"input":hex(input),"driver":format!("{driver:?}"),"script":s.choices()}),
                        });
                    }
                    return false; // first (fewest-deviation) counterexample per (input, driver)
                }
                true
            });
            runs.fetch_add(st.runs, Ordering::Relaxed);
            max_points.fetch_max(st.max_points as u64, Ordering::Relaxed);
        }
    });
    let mut v = viol.into_inner().unwrap();
    v.sort_by_key(|f| (f.case[0].len(), f.case[2].len(), f.key()));
    let mut per: std::collections::HashMap<(String, String), usize> = Default::default();
    v.retain(|f| {
        let c = per.entry((f.system.clone(), f.clause.clone())).or_default();
        *c += 1;
        *c <= 6
    });
    (v, runs.load(Ordering::Relaxed), deviating.load(Ordering::Relaxed), max_points.load(Ordering::Relaxed))
}

/// the unit the large inputs are made of: text, SGR sequences, a two-byte character, an OSC, a newline
pub const LARGE_UNIT: &str = "ab\x1b[38;5;9mc\x1b[44;1mé\x1b]0;t\x07\x1b[0m\n";

pub fn large_input(n: usize, shift: usize) -> Vec<u8> {
    LARGE_UNIT.as_bytes().iter().cycle().skip(shift).take(n).copied().collect()
}

fn large_drivers(mode: Mode, input: &[u8]) -> Vec<Driver> {
    let mut d = vec![Driver::WriteProtocol, Driver::WriteAll];
    if mode == Mode::Strip {
        d.push(Driver::AutoNeverProtocol);
    }
    let n = input.len();
    for (a, b) in [(n / 3, 2 * n / 3), (n.min(8190), n.min(8195)), (1, n - 1)] {
        d.push(Driver::Vectored(a, b));
    }
    if let Ok(t) = std::str::from_utf8(input) {
        for cut in [n / 2, n.min(8192), n.min(8191), 1, 9, 100] {
            let cut = (0..=cut).rev().find(|&c| t.is_char_boundary(c)).unwrap_or(0);
            d.push(Driver::WriteFmt(cut));
        }
    }
    d.dedup();
    d
}

/// Large inputs (sizes around 4 / 8 / 16 / 64 KiB, where buffered writers and console writers cut), the unit
/// shifted so that every byte of an escape sequence and of a multi-byte character lands on every offset near
/// the cut; every driver; every script with <= k deviations (k = 0: the inner writer accepts everything).
pub fn large_sweep(mode: Mode, sizes: &[usize], k_of: &(dyn Fn(usize) -> usize + Sync)) -> (Vec<vexplore::evidence::Finding>, u64, u64) {
    use rayon::prelude::*;
    use std::sync::atomic::{AtomicU64, Ordering};
    use vexplore::evidence::Finding;
    let runs = AtomicU64::new(0);
    let deviating = AtomicU64::new(0);
    let viol = std::sync::Mutex::new(Vec::<Finding>::new());
    let cases: Vec<(usize, usize)> = sizes.iter().flat_map(|&n| (0..LARGE_UNIT.len()).map(move |s| (n, s))).collect();
    cases.par_iter().for_each(|&(n, shift)| {
        let input = large_input(n, shift);
        for driver in large_drivers(mode, &input) {
            let st = vexplore::scripts::enumerate(k_of(n), |s| {
                let r = match guard(|| run_case(mode, &input, driver, s.clone())) {
                    Ok((r, script)) => {
                        *s = script;
                        r
                    }
                    Err(p) => {
                        s.mark_aborted();
                        Err(p)
                    }
                };
                if s.deviations() > 0 {
                    deviating.fetch_add(1, Ordering::Relaxed);
                }
                if let Err(m) = r {
                    let mut v = viol.lock().unwrap();
                    if v.len() < 100 {
                        // the answers after the last deviation are all "accept everything": not part of the case
                        let mut choices = s.choices();
                        while choices.last() == Some(&0) {
                            choices.pop();
                        }
                        let short: String = if m.len() > 700 { format!("{} ... {}", m.chars().take(400).collect::<String>(), m.chars().rev().take(250).collect::<Vec<_>>().into_iter().rev().collect::<String>()) } else { m.clone() };
                        v.push(Finding {
                            system: format!("{}/large", driver_label(mode, driver)),
                            clause: clause_of(&m),
                            case: vec![format!("{n} bytes, unit shifted by {shift}"), format!("{driver:?}"), format!("script{:?}", choices)],
                            message: short,
                            replay: serde_json::json!({"kind":"large","mode":format!("{mode:?}"),"n":n,"shift":shift,"driver":format!("{driver:?}"),"script":choices}),
                        });
                    }
                    return false;
                }
                true
            });
            runs.fetch_add(st.runs, Ordering::Relaxed);
        }
    });
    let mut v = viol.into_inner().unwrap();
    v.sort_by_key(|f| (f.case[2].len(), f.key()));
    let mut per: std::collections::HashMap<(String, String), usize> = Default::default();
    v.retain(|f| {
        let c = per.entry((f.system.clone(), f.clause.clone())).or_default();
        *c += 1;
        *c <= 2
    });
    (v, runs.load(Ordering::Relaxed), deviating.load(Ordering::Relaxed))
}

/// Medium-length inputs (see C01): a sequence prefix, optionally a whitespace control, 0..=40 plain bytes, an
/// interrupting control or nothing, a character, a tail - handed over in two calls cut after the prefix (write_all
/// and write!), and through the standard protocol with every script of <= 1 deviation (a short first write makes
/// the second call begin inside the sequence).
pub fn medium_sweep(mode: Mode) -> (Vec<vexplore::evidence::Finding>, u64, u64, u64) {
    use rayon::prelude::*;
    use std::sync::atomic::{AtomicU64, Ordering};
    use vexplore::evidence::Finding;
    let prefixes: [&str; 10] = ["", "\x1b", "\x1b[", "\x1b[1", "\x1b[1;", "\x1b]", "\x1b]0;t", "\x1bP", "\x1bP1q", "\x1b_"];
    let cases: Vec<(usize, usize)> = (0..prefixes.len()).flat_map(|p| (0..=40usize).map(move |k| (p, k))).collect();
    let (runs, deviating, inputs) = (AtomicU64::new(0), AtomicU64::new(0), AtomicU64::new(0));
    let viol = std::sync::Mutex::new(Vec::<Finding>::new());
    cases.par_iter().for_each(|&(pi, k)| {
        let pre = prefixes[pi];
        for ws in ["", "\n", "\t"] {
            for ch in ['\u{e9}', '\u{1f600}', 'z'] {
                for (mid, tail) in [("", "b"), ("", "bbbbbbbbbbbbbbbbbbbbm\x07x"), ("\x18", "b"), ("\x1a", "bbbbbbbbbbbbbbbbbbbbm\x07x"), ("\x07", "bb")] {
                    let text = format!("{pre}{ws}{}{mid}{ch}{tail}", "a".repeat(k));
                    let input = text.as_bytes();
                    inputs.fetch_add(1, Ordering::Relaxed);
                    let mut drivers = vec![(Driver::WriteProtocol, 1usize), (Driver::WriteAll, 0)];
                    if !pre.is_empty() {
                        drivers.push((Driver::TwoWriteAll(pre.len()), 0));
                        drivers.push((Driver::TwoFmt(pre.len()), 0));
                    }
                    for (driver, kk) in drivers {
                        let st = vexplore::scripts::enumerate(kk, |s| {
                            let r = match guard(|| run_case(mode, input, driver, s.clone())) {
                                Ok((r, script)) => {
                                    *s = script;
                                    r
                                }
                                Err(p) => {
                                    s.mark_aborted();
                                    Err(p)
                                }
                            };
                            if s.deviations() > 0 {
                                deviating.fetch_add(1, Ordering::Relaxed);
                            }
                            if let Err(m) = r {
                                let mut v = viol.lock().unwrap();
                                if v.len() < 100 {
                                    let mut choices = s.choices();
                                    while choices.last() == Some(&0) {
                                        choices.pop();
                                    }
                                    let short: String = if m.len() > 700 { format!("{} ... {}", m.chars().take(400).collect::<String>(), m.chars().rev().take(250).collect::<Vec<_>>().into_iter().rev().collect::<String>()) } else { m.clone() };
                                    v.push(Finding {
                                        system: format!("{}/medium", driver_label(mode, driver)),
                                        clause: clause_of(&m),
                                        case: vec![hex(input), format!("{driver:?}"), format!("script{:?}", choices)],
                                        message: short,
                                        replay: serde_json::json!({"kind":"case","mode":format!("{mode:?}"),"input":hex(input),"driver":format!("{driver:?}"),"script":choices}),
                                    });
                                }
                                return false;
                            }
                            true
                        });
                        runs.fetch_add(st.runs, Ordering::Relaxed);
                    }
                }
            }
        }
    });
    let mut v = viol.into_inner().unwrap();
    v.sort_by_key(|f| (f.case[0].len(), f.key()));
    let mut per: std::collections::HashMap<(String, String), usize> = Default::default();
    v.retain(|f| {
        let c = per.entry((f.system.clone(), f.clause.clone())).or_default();
        *c += 1;
        *c <= 2
    });
    (v, runs.load(Ordering::Relaxed), deviating.load(Ordering::Relaxed), inputs.load(Ordering::Relaxed))
}

pub fn replay_large(v: &serde_json::Value) -> Result<(), String> {
    let input = large_input(v["n"].as_u64().unwrap_or(0) as usize, v["shift"].as_u64().unwrap_or(0) as usize);
    let driver = parse_driver(v["driver"].as_str().unwrap_or(""));
    let mode = parse_mode(v["mode"].as_str().unwrap_or("Strip"));
    let forced: Vec<usize> = v["script"].as_array().map(|a| a.iter().map(|x| x.as_u64().unwrap() as usize).collect()).unwrap_or_default();
    run_case(mode, &input, driver, Script::new(forced)).0.map_err(|m| m.chars().take(700).collect())
}

pub fn parse_mode(s: &str) -> Mode {
    match s {
        "PassAnsi" => Mode::PassAnsi,
        "PassAlways" => Mode::PassAlways,
        _ => Mode::Strip,
    }
}

/// Replay one recorded case.
pub fn replay_case(v: &serde_json::Value) -> Result<(), String> {
    let input = unhex(v["input"].as_str().unwrap_or(""));
    let driver = parse_driver(v["driver"].as_str().unwrap_or(""));
    let mode = parse_mode(v["mode"].as_str().unwrap_or("Strip"));
    let forced: Vec<usize> = v["script"].as_array().map(|a| a.iter().map(|x| x.as_u64().unwrap() as usize).collect()).unwrap_or_default();
    run_case(mode, &input, driver, Script::new(forced)).0
}
