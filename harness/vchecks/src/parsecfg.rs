//! Building and running the `vparsecfg` worker once per anstyle-parse feature set (shared by C20 and C04).
//! Builds of the same package with different features are serialised with a file lock, and every run uses its own
//! copy of the binary, so that concurrent checks cannot pick up each other's build.

use serde_json::Value;
use std::process::Command;

pub const CONFIGS: [(&str, &str); 4] = [("none", ""), ("core", "core"), ("core+utf8", "core,utf8"), ("utf8", "utf8")];

pub fn dirs() -> (String, String) {
    let harness = std::env::var("VERIF_HARNESS_DIR").unwrap_or_else(|_| "/verif/harness".into());
    let build = std::env::var("VERIF_BUILD_DIR").unwrap_or_else(|_| "/verif/.build".into());
    (harness, build)
}

pub fn build_and_run(name: &str, feats: &str, depth: usize, wall: f64) -> Result<(Value, String), String> {
    let (harness, build) = dirs();
    let outdir = format!("{build}/parsecfg");
    std::fs::create_dir_all(&outdir).map_err(|e| e.to_string())?;
    let lock = std::fs::File::create(format!("{outdir}/.build-lock")).map_err(|e| e.to_string())?;
    lock.lock().map_err(|e| format!("cannot lock {outdir}/.build-lock: {e}"))?;
    let st = Command::new("cargo")
        .current_dir(&harness)
        .env("CARGO_NET_OFFLINE", "true")
        .args(["build", "--offline", "--profile", "verif", "-p", "vparsecfg", "--no-default-features", "--features", feats])
        .output()
        .map_err(|e| format!("cannot run cargo: {e}"))?;
    if !st.status.success() {
        return Err(format!("build of vparsecfg [{name}] failed: {}", String::from_utf8_lossy(&st.stderr).chars().rev().take(1500).collect::<String>().chars().rev().collect::<String>()));
    }
    let pid = std::process::id();
    let bin = format!("{outdir}/vparsecfg-{}-{pid}", name.replace('+', "_"));
    std::fs::copy(format!("{build}/target/verif/vparsecfg"), &bin).map_err(|e| format!("copy worker: {e}"))?;
    drop(lock);
    let digests = format!("{outdir}/digests-{}-{pid}.txt", name.replace('+', "_"));
    let out = Command::new(&bin).args([depth.to_string(), digests.clone(), wall.to_string()]).output().map_err(|e| e.to_string());
    let _ = std::fs::remove_file(&bin);
    let out = out?;
    let stdout = String::from_utf8_lossy(&out.stdout);
    let line = stdout.lines().find(|l| l.starts_with("RESULT ")).ok_or_else(|| {
        format!("worker [{name}] gave no result (exit {:?}): {}", out.status.code(), String::from_utf8_lossy(&out.stderr).chars().take(800).collect::<String>())
    })?;
    let v: Value = serde_json::from_str(&line[7..]).map_err(|e| e.to_string())?;
    if v["config"] != name {
        return Err(format!("worker built for [{name}] reports configuration {}", v["config"]));
    }
    Ok((v, digests))
}


/// Builds the `vfeat` worker with one of its features (`style`: anstyle without `std`; `stream`: anstream without its
/// default features) under the same build lock, runs a private copy and returns its RESULT object.
pub fn build_and_run_feat(feat: &str) -> Result<Value, String> {
    let (harness, build) = dirs();
    let outdir = format!("{build}/parsecfg");
    std::fs::create_dir_all(&outdir).map_err(|e| e.to_string())?;
    let lock = std::fs::File::create(format!("{outdir}/.build-lock")).map_err(|e| e.to_string())?;
    lock.lock().map_err(|e| format!("cannot lock {outdir}/.build-lock: {e}"))?;
    let st = Command::new("cargo")
        .current_dir(&harness)
        .env("CARGO_NET_OFFLINE", "true")
        .args(["build", "--offline", "--profile", "verif", "-p", "vfeat", "--no-default-features", "--features", feat])
        .output()
        .map_err(|e| format!("cannot run cargo: {e}"))?;
    if !st.status.success() {
        return Err(format!("build of vfeat [{feat}] failed: {}", String::from_utf8_lossy(&st.stderr).chars().rev().take(1500).collect::<String>().chars().rev().collect::<String>()));
    }
    let bin = format!("{outdir}/vfeat-{feat}-{}", std::process::id());
    std::fs::copy(format!("{build}/target/verif/vfeat"), &bin).map_err(|e| format!("copy worker: {e}"))?;
    drop(lock);
    let out = Command::new(&bin).output().map_err(|e| e.to_string());
    let _ = std::fs::remove_file(&bin);
    let out = out?;
    let stdout = String::from_utf8_lossy(&out.stdout);
    let line = stdout.lines().find(|l| l.starts_with("RESULT ")).ok_or_else(|| format!("worker vfeat [{feat}] gave no result (exit {:?})", out.status.code()))?;
    let v: Value = serde_json::from_str(&line[7..]).map_err(|e| e.to_string())?;
    if v["config"] != feat {
        return Err(format!("worker built for [{feat}] reports configuration {}", v["config"]));
    }
    Ok(v)
}
