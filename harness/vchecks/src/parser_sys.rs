//! Product system anstyle_parse::Parser x M-VT, shared by C02 (and C04).

use crate::common::*;
use anstyle_parse::Parser;
use vexplore::bfs::System;
use vexplore::util::*;
use vmodel::vt::{Ev, Vt};

#[derive(Clone, Debug)]
pub struct PState {
    pub imp: Parser,
    pub model: Vt,
    /// Some: states are matched on the model's canonical form only
    pub canon: Option<Vt>,
}

impl PartialEq for PState {
    fn eq(&self, o: &Self) -> bool {
        if let (Some(a), Some(b)) = (&self.canon, &o.canon) {
            a == b
        } else {
            self.imp == o.imp && self.model == o.model
        }
    }
}
impl Eq for PState {}

pub fn feed_real(p: &mut Parser, bytes: &[u8]) -> Vec<Ev> {
    let mut rec = Recorder::default();
    for &b in bytes {
        p.advance(&mut rec, b);
    }
    rec.0
}

pub fn first_diff(real: &[Ev], exp: &[Ev]) -> String {
    let n = real.iter().zip(exp).take_while(|(a, b)| a == b).count();
    format!(
        "event #{n}: parser {:?}, VT500 model {:?} (parser emitted {} events, model {})",
        real.get(n),
        exp.get(n),
        real.len(),
        exp.len()
    )
}

pub fn parser_step(imp: &mut Parser, model: &mut Vt, tok: &[u8]) -> Result<Vec<Ev>, String> {
    let real = feed_real(imp, tok);
    let exp = model.feed(tok);
    if real != exp {
        return Err(format!("callbacks differ for token {}: {}", show(tok), first_diff(&real, &exp)));
    }
    Ok(real)
}

pub struct ParserSys {
    pub label: String,
    pub tokens: Vec<Vec<u8>>,
    pub canonical: bool,
}

impl System for ParserSys {
    type State = PState;
    fn name(&self) -> String {
        self.label.clone()
    }
    fn alphabet_len(&self) -> usize {
        self.tokens.len()
    }
    fn token_label(&self, t: usize) -> String {
        hex(&self.tokens[t])
    }
    fn init(&self) -> Vec<PState> {
        let model = Vt::default();
        let canon = self.canonical.then(|| model.canon());
        vec![PState { imp: Parser::<anstyle_parse::DefaultCharAccumulator>::new(), model, canon }]
    }
    fn key(&self, s: &PState) -> u64 {
        match &s.canon {
            Some(c) => hash_of(c),
            None => hash_of(&s.model),
        }
    }
    fn step(&self, s: &PState, t: usize) -> Result<(PState, u64), String> {
        let mut imp = s.imp.clone();
        let mut model = s.model.clone();
        let ev = parser_step(&mut imp, &mut model, &self.tokens[t])?;
        let canon = self.canonical.then(|| model.canon());
        Ok((PState { imp, model, canon }, hash_of(&ev)))
    }
}

pub fn rep(s: &str, n: usize) -> Vec<u8> {
    s.repeat(n).into_bytes()
}

/// Macro tokens that reach the documented limits within a small depth.
pub fn macro_tokens() -> Vec<Vec<u8>> {
    vec![
        rep("1;", 8),
        rep("1:", 8),
        rep(";", 8),
        b"65535".to_vec(),
        b"65536".to_vec(),
        b"99999".to_vec(),
        rep("a;", 8),
        rep("a", 8),
        b"   ".to_vec(),
        "é".as_bytes().to_vec(),
        "世".as_bytes().to_vec(),
        "😀".as_bytes().to_vec(),
        vec![0xe0, 0x80],
        vec![0xed, 0xa0],
        vec![0xf0, 0x80],
        vec![0xf4, 0x90],
        vec![0xe2, 0x82],
        b"\x1b[".to_vec(),
        b"\x1b]".to_vec(),
        b"\x1bP".to_vec(),
    ]
}

pub fn full_alphabet() -> Vec<Vec<u8>> {
    let (alpha, _) = class_alphabet();
    let mut t: Vec<Vec<u8>> = alpha.iter().map(|&b| vec![b]).collect();
    t.extend(macro_tokens());
    t
}

pub fn csi_alphabet() -> Vec<Vec<u8>> {
    let mut t: Vec<Vec<u8>> = [0x1bu8, b'[', b'P', b'1', b'9', b';', b':', b'?', b' ', b'm', b'q', 0x18, 0x0a, 0x7f, 0x9c, 0x80]
        .iter()
        .map(|&b| vec![b])
        .collect();
    t.extend([rep("1;", 8), rep("1:", 8), rep(";", 8), b"65535".to_vec(), b"  ".to_vec()]);
    t
}

pub fn osc_alphabet() -> Vec<Vec<u8>> {
    let mut t: Vec<Vec<u8>> = [0x1bu8, b']', b'\\', b'a', b';', 0x07, 0x18, 0x0a, 0x9c, 0xc3, 0xa9, 0xff].iter().map(|&b| vec![b]).collect();
    t.extend([rep("a;", 8), rep(";", 8), rep("a", 8)]);
    t
}

pub fn utf8_alphabet() -> Vec<Vec<u8>> {
    [0x1bu8, b'a', 0x0a, 0x18, 0x7f, 0x80, 0x8f, 0x90, 0x9f, 0xa0, 0xbf, 0xc0, 0xc2, 0xdf, 0xe0, 0xe1, 0xed, 0xee, 0xf0, 0xf1, 0xf4, 0xf5, 0xff]
        .iter()
        .map(|&b| vec![b])
        .collect()
}
