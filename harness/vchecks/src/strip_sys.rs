//! Product systems for the strip adapters, shared by C01, C03, C04.

use crate::common::*;
use anstream::adapter::{StripBytes, StripStr};
use vexplore::bfs::System;
use vexplore::util::*;
use vmodel::strip::StripModel;

/// Product system: StripBytes fed one token (a byte string) at a time.
pub struct StripBytesSys {
    pub tokens: Vec<Vec<u8>>,
    pub label: String,
}

pub fn run_strip_bytes(imp: &mut StripBytes, model: &mut StripModel, chunk: &[u8]) -> Result<Vec<u8>, String> {
    let pieces: Vec<&[u8]> = imp.strip_next(chunk).collect();
    let flags = emitted_flags(chunk, &pieces)?;
    let out: Vec<u8> = pieces.concat();
    if let Some(b) = out.iter().find(|&&b| vmodel::strip::FORBIDDEN(b)) {
        return Err(format!("output contains forbidden control byte 0x{b:02x} (output {})", show(&out)));
    }
    model.check_flags(chunk, &flags).map_err(|m| format!("{m} (chunk {} -> output {})", show(chunk), show(&out)))?;
    Ok(out)
}

impl System for StripBytesSys {
    type State = (StripBytes, StripModel);
    fn name(&self) -> String {
        self.label.clone()
    }
    fn alphabet_len(&self) -> usize {
        self.tokens.len()
    }
    fn token_label(&self, t: usize) -> String {
        hex(&self.tokens[t])
    }
    fn init(&self) -> Vec<Self::State> {
        vec![(StripBytes::new(), StripModel::default())]
    }
    fn key(&self, s: &Self::State) -> u64 {
        hash_debug(s)
    }
    fn step(&self, s: &Self::State, t: usize) -> Result<(Self::State, u64), String> {
        let (mut imp, mut model) = s.clone();
        let out = run_strip_bytes(&mut imp, &mut model, &self.tokens[t])?;
        Ok(((imp, model), hash_of(&out)))
    }
}

/// Product system: StripStr fed one token (a str) at a time.
pub struct StripStrSys {
    pub tokens: Vec<String>,
}

pub fn run_strip_str(imp: &mut StripStr, model: &mut StripModel, chunk: &str) -> Result<Vec<u8>, String> {
    let pieces: Vec<&str> = imp.strip_next(chunk).collect();
    for p in &pieces {
        if std::str::from_utf8(p.as_bytes()).is_err() {
            return Err(format!("returned piece is not valid UTF-8: {:02x?}", p.as_bytes()));
        }
    }
    let bpieces: Vec<&[u8]> = pieces.iter().map(|p| p.as_bytes()).collect();
    let flags = emitted_flags(chunk.as_bytes(), &bpieces)?;
    let out: Vec<u8> = bpieces.concat();
    if let Some(b) = out.iter().find(|&&b| vmodel::strip::FORBIDDEN(b)) {
        return Err(format!("output contains forbidden control byte 0x{b:02x} (output {})", show(&out)));
    }
    model
        .check_flags(chunk.as_bytes(), &flags)
        .map_err(|m| format!("{m} (chunk {} -> output {})", show(chunk.as_bytes()), show(&out)))?;
    Ok(out)
}

impl System for StripStrSys {
    type State = (StripStr, StripModel);
    fn name(&self) -> String {
        "StripStr::strip_next/chars".into()
    }
    fn alphabet_len(&self) -> usize {
        self.tokens.len()
    }
    fn token_label(&self, t: usize) -> String {
        hex(self.tokens[t].as_bytes())
    }
    fn init(&self) -> Vec<Self::State> {
        vec![(StripStr::new(), StripModel::default())]
    }
    fn key(&self, s: &Self::State) -> u64 {
        hash_debug(s)
    }
    fn step(&self, s: &Self::State, t: usize) -> Result<(Self::State, u64), String> {
        let (mut imp, mut model) = s.clone();
        let out = run_strip_str(&mut imp, &mut model, &self.tokens[t])?;
        Ok(((imp, model), hash_of(&out)))
    }
}

pub fn char_alphabet() -> Vec<String> {
    let mut v: Vec<String> = vec![];
    // ASCII class representatives
    for b in class_alphabet().0 {
        if b < 0x80 {
            v.push((b as char).to_string());
        }
    }
    for c in ['é', '世', '😀', '\u{9c}', '\u{80}', '\u{85}', '\u{a0}'] {
        v.push(c.to_string());
    }
    v
}

