//! Product system WinconBytes x (M-VT + M-SGR), shared by C03, C07 (and the model side by C14/C18).

use crate::common::*;
use anstream::adapter::WinconBytes;
use vexplore::bfs::System;
use vexplore::util::*;
use vmodel::runs::RunModel;
use vmodel::sgr::{Col, Sgr, Ul};

pub type Tuple = (Col, Col, Col, u16);

#[derive(Clone, Debug)]
pub struct WState {
    pub imp: WinconBytes,
    pub model: RunModel,
    /// canonical text used for state matching
    pub canon: String,
    pub parser_ground: bool,
    /// token history (tokens joined by 0xff) that reaches this state, for replay
    pub prefix: Vec<u8>,
}

impl PartialEq for WState {
    fn eq(&self, o: &Self) -> bool {
        self.canon == o.canon && self.model == o.model
    }
}
impl Eq for WState {}

/// Canonical form: when the parser is in Ground its parameter/intermediate/OSC buffers are
/// dead (re-initialised by the entry actions of the next sequence, which C02 checks), so only
/// the capture part is kept; in any other parser state the full Debug text is kept.
pub fn canon_of(imp: &WinconBytes) -> (String, bool) {
    let d = format!("{imp:?}");
    let ground = d.starts_with("WinconBytes { parser: Parser { state: Ground,");
    if ground {
        if let Some(i) = d.find("capture: WinconCapture") {
            return (d[i..].to_string(), true);
        }
    }
    (d, false)
}

pub fn wstate(imp: WinconBytes, model: RunModel, prefix: Vec<u8>) -> WState {
    let (canon, parser_ground) = canon_of(&imp);
    WState { imp, model: model.canon(), canon, parser_ground, prefix }
}

pub fn merge_real(runs: Vec<(anstyle::Style, String)>) -> Vec<(Tuple, String)> {
    let mut out: Vec<(Tuple, String)> = vec![];
    for (s, t) in runs {
        if t.is_empty() {
            continue;
        }
        let tup = style_tuple(&s);
        match out.last_mut() {
            Some((lt, ltxt)) if *lt == tup => ltxt.push_str(&t),
            _ => out.push((tup, t)),
        }
    }
    out
}

pub fn sgr_label(s: &Sgr) -> String {
    format!("fg={:?},bg={:?},ul={:?},fx={:#05x}", s.fg, s.bg, s.ul_color, s.seen)
}

/// One chunk through the real extractor and the model; Ok(merged real runs) when they agree.
pub fn wincon_step(imp: &mut WinconBytes, model: &mut RunModel, chunk: &[u8]) -> Result<Vec<(Tuple, String)>, String> {
    let real_raw: Vec<(anstyle::Style, String)> = imp.extract_next(chunk).collect();
    if real_raw.iter().any(|(_, t)| t.is_empty()) {
        return Err(format!("extractor yielded an empty run for chunk {}", show(chunk)));
    }
    let real = merge_real(real_raw);
    let exp: Vec<(Tuple, String)> = model.feed(chunk).into_iter().map(|(s, t)| (sgr_tuple(&s), t)).collect();
    if real != exp {
        let rt: String = real.iter().map(|r| r.1.as_str()).collect();
        let et: String = exp.iter().map(|r| r.1.as_str()).collect();
        let what = if rt != et { "visible text differs" } else { "style of a run differs" };
        return Err(format!("{what}: chunk {} -> extractor {:?}, conforming terminal {:?}", show(chunk), real, exp));
    }
    Ok(real)
}

/// SGR codes a conforming terminal knows but the property statements leave out (blink, the single-attribute resets,
/// default underline colour).  The code under test may ignore them or follow the terminal - nothing else.
pub const UNLISTED_CODES: [&str; 10] = ["5", "6", "22", "23", "24", "25", "27", "28", "29", "59"];

/// Cases for the "left-out codes" sweeps: (stream containing one left-out code, the same stream without it).
/// Each stream is `prefix a CSI ... m b`, the sequence holding the code alone, before, after and between listed groups.
pub fn unlisted_code_cases() -> Vec<(Vec<u8>, Vec<u8>)> {
    let prefixes: [&[u8]; 3] = [b"", b"\x1b[1;2;3;4;7;8;9;31;44;58;5;9m", b"\x1b[4:3;38;2;1;2;3;48;5;100m"];
    let listed = ["1", "2", "7", "9", "31", "44", "97", "0", "39", "49", "38;5;9", "48;2;4;5;6", "58;2;7;8;9", "10", "255"];
    let build = |prefix: &[u8], groups: &[&str]| -> Vec<u8> {
        let mut v = prefix.to_vec();
        v.push(b'a');
        if !groups.is_empty() {
            v.extend(seq_of(groups));
        }
        v.push(b'b');
        v
    };
    let mut out = vec![];
    for prefix in prefixes {
        for u in UNLISTED_CODES {
            out.push((build(prefix, &[u]), build(prefix, &[])));
            for g in listed {
                out.push((build(prefix, &[u, g]), build(prefix, &[g])));
                out.push((build(prefix, &[g, u]), build(prefix, &[g])));
                for g2 in ["1", "31", "48;5;21"] {
                    out.push((build(prefix, &[g, u, g2]), build(prefix, &[g, g2])));
                }
            }
        }
    }
    out
}

/// Run one "left-out code" case through the real extractor: its runs must be what a conforming terminal shows or
/// what it shows when the left-out code is not there.
pub fn unlisted_case_runs(with: &[u8], without: &[u8]) -> Result<(), String> {
    let real = merge_real(WinconBytes::new().extract_next(with).collect());
    let conform: Vec<(Tuple, String)> = RunModel::default().feed(with).into_iter().map(|(s, t)| (sgr_tuple(&s), t)).collect();
    let ignore: Vec<(Tuple, String)> = RunModel::default().feed(without).into_iter().map(|(s, t)| (sgr_tuple(&s), t)).collect();
    if real != conform && real != ignore {
        return Err(format!(
            "style of a run differs: {} -> extractor {:?}; a conforming terminal shows {:?}, and {:?} if the left-out code is ignored",
            show(with),
            real,
            conform,
            ignore
        ));
    }
    Ok(())
}

/// Streams `styled-prefix a <sequence> b` for every kind of non-SGR sequence: an OSC with every number 0..=255 (and a
/// few larger ones) as its first field, BEL and ST terminated, with and without a payload; a CSI with every final byte
/// 0x40..=0x7e other than `m` and four parameter strings; an ESC with every final byte 0x30..=0x7e, bare and after an
/// intermediate; a DCS / SOS / PM / APC string.  None of them may change the style or the text.
pub fn non_sgr_cases() -> Vec<Vec<u8>> {
    let prefix: &[u8] = b"\x1b[1;4;91;44;58;5;208ma";
    let mut out = vec![];
    let mut push = |seq: Vec<u8>| {
        let mut v = prefix.to_vec();
        v.extend(seq);
        v.push(b'b');
        out.push(v);
    };
    for n in (0u32..=255).chain([777, 1337, 9999]) {
        push(format!("\x1b]{n}\x07").into_bytes());
        push(format!("\x1b]{n};x\x1b\\").into_bytes());
        push(format!("\x1b]{n};rgb:ff/00/00\x07").into_bytes());
    }
    for f in 0x40u8..=0x7e {
        if f == b'm' {
            continue;
        }
        for params in ["", "0", "1", "1;31", "38;5;9", "?25", ">4;2"] {
            let mut v = b"\x1b[".to_vec();
            v.extend(params.as_bytes());
            v.push(f);
            push(v);
        }
    }
    for f in 0x30u8..=0x7e {
        if matches!(f, b'[' | b']' | b'P' | b'X' | b'^' | b'_') {
            continue;
        }
        push(vec![0x1b, f]);
        push(vec![0x1b, b'(', f]);
        push(vec![0x1b, b'#', f]);
    }
    for intro in [b'P', b'X', b'^', b'_'] {
        push([&[0x1b, intro][..], b"0;1|data 31m\x1b\\"].concat());
        // without parameters or intermediates (shortest sixel form, tmux passthrough), followed by an SGR sequence that
        // adds to the style
        push([&[0x1b, intro][..], b"q#0\x1b\\\x1b[3m"].concat());
        push([&[0x1b, intro][..], b"tmux;x\x1b\\c\x1b[9m"].concat());
    }
    out
}

pub fn wincon_clause_of(m: &str) -> String {
    for (pat, c) in [
        ("visible text differs", "text-differs"),
        ("style of a run differs", "style-differs"),
        ("separate sequences disagree", "combined-vs-separate"),
        ("empty run", "empty-run"),
        ("partition", "chunking-differs"),
        ("panic", "panic"),
    ] {
        if m.contains(pat) {
            return c.to_string();
        }
    }
    "other".into()
}

/// Attribute groups (the text between separators of one SGR attribute).
pub fn sgr_groups() -> Vec<&'static str> {
    vec![
        "0", "", "1", "2", "3", "4", "7", "8", "9", "21", "30", "31", "37", "40", "44", "47", "90", "97", "100", "107", "39",
        "49", "38;5;0", "38;5;7", "38;5;8", "38;5;196", "38:5:196", "38;2;1;2;3", "38:2:1:2:3", "48;5;21", "48:5:21",
        "48;2;4;5;6", "48:2:4:5:6", "58;5;9", "58:5:9", "58;2;7;8;9", "58:2:7:8:9", "4:0", "4:1", "4:2", "4:3", "4:4",
        "4:5", "01", "031", "38;05;010", "10", "50", "60", "98", "108", "255",
        // truecolor components that are themselves SGR colour codes (a mis-parse turns them into 16-colour codes)
        "38;2;40;44;52", "48;2;31;91;104",
    ]
}

pub struct WinconSys {
    pub label: String,
    pub tokens: Vec<Vec<u8>>,
    /// per token: the SGR groups it contains that set an underline style (for the guard)
    pub guards: Vec<Vec<&'static str>>,
}

fn sets_ul_style(g: &str) -> bool {
    matches!(g, "4" | "04" | "21" | "4:1" | "4:2" | "4:3" | "4:4" | "4:5")
}

impl WinconSys {
    pub fn push(&mut self, bytes: Vec<u8>, groups: &[&'static str]) {
        self.tokens.push(bytes);
        self.guards.push(groups.iter().copied().filter(|g| sets_ul_style(g)).collect());
    }
}

pub fn seq_of(groups: &[&str]) -> Vec<u8> {
    let mut v = b"\x1b[".to_vec();
    v.extend(groups.join(";").as_bytes());
    v.push(b'm');
    v
}

/// Alphabet of the C07 BFS.
pub fn sgr_bfs_system() -> WinconSys {
    let mut sys = WinconSys { label: "WinconBytes::extract_next/sgr-tokens".into(), tokens: vec![], guards: vec![] };
    for t in ["a", "é", "\n", "b c"] {
        sys.push(t.as_bytes().to_vec(), &[]);
    }
    // C0 controls: the whitespace ones are text, the others (VT, BS, NUL, ...) are not - also right after text
    for t in [&b"\x0b"[..], b"\x08", b"\x00", b"\x0c", b"\r", b"\t", b"a\x0bb", b"\x1b[1ma\x08\x0b"] {
        sys.push(t.to_vec(), &[]);
    }
    for g in sgr_groups() {
        sys.push(seq_of(&[g]), &[g]);
    }
    // mixed text / sequence tokens (runs are cut when the style changes with text pending)
    for gs in [vec!["31"], vec!["0"], vec!["1"], vec!["39"], vec!["4:3"]] {
        let mut v = b"a".to_vec();
        v.extend(seq_of(&gs));
        v.push(b'b');
        sys.push(v, &gs);
    }
    {
        let mut v = b"a".to_vec();
        v.extend(seq_of(&["31"]));
        v.extend(seq_of(&["1"]));
        v.extend(b"b\n");
        v.extend(seq_of(&["0"]));
        v.extend("é".as_bytes());
        sys.push(v, &[]);
    }
    // exactly 32 parameters (the documented limit)
    {
        let mut gs: Vec<&'static str> = vec!["1"; 31];
        gs.push("31");
        sys.push(seq_of(&gs), &[]);
    }
    // sequences abandoned half-way (ESC restart, CAN, SUB) and then a complete one: the abandoned
    // part must leave nothing behind
    for t in [
        &b"\x1b[4:3\x1b[31m"[..],
        b"\x1b[38:2:1:2\x18\x1b[1m",
        b"\x1b[58:5\x1a\x1b[44m",
        b"\x1b[1;38;5\x1b[3m",
        b"\x1b[:\x1b[m",
    ] {
        sys.push(t.to_vec(), &[]);
    }
    // over-long sequences (33 parameters, three intermediates) that are abandoned rather than dispatched:
    // whatever the parser noted about them must be gone when the next sequence starts
    {
        let long = format!("\x1b[{}", "1;".repeat(33));
        for t in [
            format!("{long}\x18").into_bytes(),
            format!("{long}\x1a").into_bytes(),
            format!("{long}<m").into_bytes(),
            format!("{long}\x1b[31m").into_bytes(),
            b"\x1b[ !\"\x18".to_vec(),
            b"\x1b[ !\"\x1b[1m".to_vec(),
            b"\x1b !\"\x18".to_vec(),
            format!("\x1bP{}\x18", "1;".repeat(33)).into_bytes(),
        ] {
            sys.push(t, &[]);
        }
    }
    // non-SGR sequences: must change nothing
    for t in [
        &b"\x1b[H"[..],
        b"\x1b[?25h",
        b"\x1b]0;title\x07",
        b"\x1b]8;;http://x\x1b\\",
        b"\x1bc",
        b"\x1bP1;2q#0\x1b\\",
        b"\x1b[>4;2m",
        b"\x1b[?4m",
        b"\x1b[1 q",
        b"\x1b[4 m",
        b"\x1b(B",
        b"\x07",
    ] {
        sys.push(t.to_vec(), &[]);
    }
    sys
}

impl System for WinconSys {
    type State = WState;
    fn name(&self) -> String {
        self.label.clone()
    }
    fn alphabet_len(&self) -> usize {
        self.tokens.len()
    }
    fn token_label(&self, t: usize) -> String {
        show(&self.tokens[t])
    }
    fn init(&self) -> Vec<WState> {
        vec![wstate(WinconBytes::new(), RunModel::default(), vec![])]
    }
    fn key(&self, s: &WState) -> u64 {
        hash_of(&(&s.canon, &s.model))
    }
    fn enabled(&self, s: &WState, t: usize) -> bool {
        // one underline style at a time: a token that sets an underline style is only
        // enabled while the model terminal has none (and it sets at most one)
        let g = &self.guards[t];
        if !(g.is_empty() || (s.model.sgr.ul == Ul::None && g.len() == 1)) {
            return false;
        }
        // SGR sequences outside the well-formed grammar are not defined by the statement
        let mut m = s.model.clone();
        m.feed(&self.tokens[t]);
        !m.ill_formed
    }
    fn step(&self, s: &WState, t: usize) -> Result<(WState, u64), String> {
        let mut imp = s.imp.clone();
        let mut model = s.model.clone();
        let runs = wincon_step(&mut imp, &mut model, &self.tokens[t])?;
        let mut prefix = s.prefix.clone();
        prefix.push(0xff);
        prefix.extend(&self.tokens[t]);
        Ok((wstate(imp, model, prefix), hash_of(&runs)))
    }
}

/// Value sweeps: every index 0..=255 in the 256-colour forms, every component value in the RGB
/// forms, every plain code 0..=110 the statement defines or leaves without representation.
pub fn value_sweep_groups() -> Vec<String> {
    let mut v = vec![];
    for n in 0..=255u32 {
        for pre in ["38;5;", "48;5;", "58;5;", "38:5:", "48:5:", "58:5:"] {
            v.push(format!("{pre}{n}"));
        }
        v.push(format!("38;2;{n};0;255"));
        v.push(format!("48;2;0;{n};1"));
        v.push(format!("58;2;1;2;{n}"));
        v.push(format!("38:2:{n}:{n}:{n}"));
    }
    for code in 0..=110u32 {
        // codes the statement excludes (blink, the 2x resets, 59) and the extended-colour introducers
        if matches!(code, 5 | 6 | 22..=29 | 38 | 48 | 58 | 59) {
            continue;
        }
        v.push(code.to_string());
    }
    v
}
