//! C06 - the strip stream keeps the Write contract under short writes and errors.
//!
//! E2: every short input x every inner-writer script with <= k deviations (a deviation is any
//! answer other than "accept everything": accept 0/1/2/3 bytes, Interrupted, WouldBlock,
//! Other), through the drivers of vchecks::fault_sys: the standard protocol over `write`
//! (StripStream and AutoStream::never), `write_vectored` with every split into <= 3 slices,
//! `write_all`, `write!` with the input in two fragments, and `write!` with literal-only
//! format strings.

use serde_json::json;
use vchecks::fault_sys::*;
use vexplore::evidence::*;

fn main_check(ctx: &Ctx) -> Outcome {
    let mut out = Outcome::default();
    let quick = ctx.quick();
    // the lock()ed strip streams over the real stdout / stderr (single-threaded, first): what was written before and
    // after lock() must together come out as the stripped form of the whole input, for every cut position
    {
        let (n, bad) = vchecks::stdio_sys::lock_chunking_violations();
        for (case, message) in bad.into_iter().take(20) {
            out.findings.push(Finding {
                system: "StripStream/AutoStream::never over real stdio: write_all; lock(); write_all".into(),
                clause: "delivered-differs-from-consumed-prefix".into(),
                case: vec![case],
                message,
                replay: json!({"kind":"lock"}),
            });
        }
        out.push_part(json!({"part":"write_all; lock(); write_all over the real stdout/stderr redirected to files, every cut position","cases":n}));
    }
    let maxlen = if quick { 5 } else { 7 };
    let k_of = move |len: usize| if quick { if len <= 4 { 3 } else { 2 } } else if len <= 6 { 3 } else { 2 };
    let (findings, runs, deviating, max_points) = sweep(Mode::Strip, maxlen, &k_of);
    out.findings.extend(findings);
    // large inputs (around the 4/8/16/64 KiB marks): no deviation for all sizes, one deviation for the 8 KiB + 1 size
    let sizes: Vec<usize> = if quick { vec![1023, 8191, 8192, 8193, 20000] } else { vec![1023, 4095, 4096, 4097, 8191, 8192, 8193, 16384, 16385, 20000, 65535, 65537, 131073] };
    let k_large = move |n: usize| if n == 1023 || (!quick && n == 8193) { 1 } else { 0 };
    let (lf, lruns, ldev) = large_sweep(Mode::Strip, &sizes, &k_large);
    out.findings.extend(lf);
    out.push_part(json!({"part":"large inputs","sizes":sizes,"unit":LARGE_UNIT,"shifts":LARGE_UNIT.len(),"executions":lruns,"executions_with_deviation":ldev,"deviation_bound":"1 for the 1023-byte size (and 8193 bytes in the thorough tier), 0 otherwise"}));
    let (mf, mruns, mdev, minputs) = medium_sweep(Mode::Strip);
    out.findings.extend(mf);
    out.push_part(json!({"part":"medium-length inputs: 10 sequence prefixes x {none, LF, TAB} x 0..=40 plain bytes x {none, CAN, SUB, BEL} x 3 characters x tails; standard protocol with <= 1 deviation, write_all, two write_all / two write! cut after the prefix","inputs":minputs,"executions":mruns,"executions_with_deviation":mdev}));
    let (runs, deviating) = (runs + lruns + mruns, deviating + ldev + mdev);
    out.set("evaluations", json!(runs));
    out.set("distinct_nontrivial", json!(deviating));
    out.set("rule", json!("evaluations = executions (input x driver x script), each distinct by construction; distinct_nontrivial = executions whose script contains at least one deviation (short write or injected error); a script is the list of answers of the inner writer, enumerated CHESS-style with a bound on the number of non-default answers"));
    out.set("max_input_tokens", json!(maxlen));
    out.set("literal_format_strings", json!(LITERALS));
    out.set("deviation_bound", json!(if quick { "3 for inputs <= 4 tokens, 2 for 5 tokens (vectored driver on inputs of 5 tokens: 1)" } else { "3 for inputs <= 6 tokens, 2 for 7 tokens (vectored driver on inputs > 4 tokens: one less)" }));
    out.set("max_decision_points", json!(max_points));
    out.set("exhaustive", json!(true));
    out.push_sample(json!({"input":"a ESC[1m b","driver":"WriteProtocol","script":[2,0],"meaning":"first inner write accepts 0 bytes, second accepts all"}));
    out.push_sample(json!({"input":"é a","driver":"Vectored(1,2)","script":[5],"meaning":"slices cut inside é; the only inner write fails with Interrupted"}));
    out.assume("standard caller protocol: resubmit the unconsumed tail after Ok(n), retry the same buffer after Interrupted, stop on other errors and on Ok(0)");
    out.assume("write may swallow an inner error into Ok(n) with n < len only if the bytes reported consumed were really delivered (std BufWriter/LineWriter convention); write_all/write! progress on error is unspecified beyond 'a prefix was delivered'");
    out.assume("Interrupted inside write_all/write! is retried by std's default write_all of the inner writer and need not surface");
    out
}

fn replay(v: &serde_json::Value) -> Result<(), String> {
    if v["kind"] == "lock" {
        return match vchecks::stdio_sys::lock_chunking_violations().1.first() {
            Some((c, m)) => Err(format!("{c}: {m}")),
            None => Ok(()),
        };
    }
    if v["kind"] == "large" {
        return replay_large(v);
    }
    replay_case(v)
}

fn main() {
    run_check("C06", "fault_enumeration", main_check, replay);
}
