//! C06 - the strip stream keeps the Write contract under short writes and errors.
//!
//! E2: every short input x every inner-writer script with <= k deviations (a deviation is any
//! answer other than "accept everything": accept 0/1/2/3 bytes, Interrupted, WouldBlock,
//! Other), through four drivers: the standard protocol over `write`, `write_vectored` with
//! every split into <= 3 slices, `write_all`, and `write!` with the input in two fragments.

use rayon::prelude::*;
use serde_json::json;
use std::cell::RefCell;
use std::io::{self, ErrorKind, IoSlice, Write};
use std::rc::Rc;
use std::sync::atomic::{AtomicU64, Ordering};
use vexplore::evidence::*;
use vexplore::scripts::{self, Script};
use vexplore::util::*;
use vmodel::strip::StripModel;

const ERR_KINDS: [ErrorKind; 3] = [ErrorKind::Interrupted, ErrorKind::WouldBlock, ErrorKind::Other];

#[derive(Default)]
struct Shared {
    script: Script,
    accepted: Vec<u8>,
    /// per outer call: what the inner writer answered
    call_errors: Vec<ErrorKind>,
    call_short: bool,
    call_zero: bool,
    call_writes: usize,
    flushes: usize,
}

struct Scripted(Rc<RefCell<Shared>>);

impl Write for Scripted {
    fn write(&mut self, buf: &[u8]) -> io::Result<usize> {
        let mut s = self.0.borrow_mut();
        s.call_writes += 1;
        // menu: 0 = accept all; then accept k < len for k in 0..=3; then the three error kinds
        let mut menu: Vec<Result<usize, ErrorKind>> = vec![Ok(buf.len())];
        for k in 0..=3usize {
            if k < buf.len() {
                menu.push(Ok(k));
            }
        }
        for k in ERR_KINDS {
            menu.push(Err(k));
        }
        let c = s.script.choose(menu.len());
        match menu[c] {
            Ok(n) => {
                if n < buf.len() {
                    s.call_short = true;
                }
                if n == 0 && !buf.is_empty() {
                    s.call_zero = true;
                }
                s.accepted.extend_from_slice(&buf[..n]);
                Ok(n)
            }
            Err(k) => {
                s.call_errors.push(k);
                Err(io::Error::new(k, "injected"))
            }
        }
    }
    fn flush(&mut self) -> io::Result<()> {
        self.0.borrow_mut().flushes += 1;
        Ok(())
    }
}

#[derive(Clone, Copy, Debug, PartialEq, Eq)]
enum Driver {
    WriteProtocol,
    AutoNeverProtocol,
    Vectored(usize, usize), // cut positions (a <= b) into <= 3 slices
    WriteAll,
    WriteFmt(usize), // split point of the two fragments (a char boundary)
}

fn begin_call(sh: &Rc<RefCell<Shared>>) {
    let mut s = sh.borrow_mut();
    s.call_errors.clear();
    s.call_short = false;
    s.call_zero = false;
    s.call_writes = 0;
}

/// visible text of input[..consumed] must equal what the inner writer accepted so far
fn check_delivered(input: &[u8], consumed: usize, sh: &Rc<RefCell<Shared>>, what: &str) -> Result<(), String> {
    let s = sh.borrow();
    StripModel::default().check_output(&input[..consumed], &s.accepted).map_err(|m| {
        format!(
            "{what}: the caller has been told {consumed} of {} bytes are consumed, the inner writer holds {} but the stripped form of the consumed prefix {} differs: {m}",
            input.len(),
            show(&s.accepted),
            show(&input[..consumed])
        )
    })
}

fn run_case(input: &[u8], driver: Driver, script: Script) -> (Result<(), String>, Script) {
    let sh = Rc::new(RefCell::new(Shared { script, ..Default::default() }));
    let boxed: Box<dyn Write> = Box::new(Scripted(sh.clone()));
    let r = (|| -> Result<(), String> {
        match driver {
            Driver::WriteProtocol | Driver::AutoNeverProtocol | Driver::Vectored(..) => {
                enum S {
                    Strip(anstream::StripStream<Box<dyn Write>>),
                    Auto(anstream::AutoStream<Box<dyn Write>>),
                }
                let mut stream = if driver == Driver::AutoNeverProtocol {
                    S::Auto(anstream::AutoStream::never(boxed))
                } else {
                    S::Strip(anstream::StripStream::new(boxed))
                };
                // slices for the vectored driver
                let cuts = match driver {
                    Driver::Vectored(a, b) => vec![0, a, b, input.len()],
                    _ => vec![0, input.len()],
                };
                let mut consumed = 0usize;
                let mut guard = 0;
                while consumed < input.len() {
                    guard += 1;
                    if guard > 64 {
                        return Err("protocol did not terminate within 64 calls".into());
                    }
                    begin_call(&sh);
                    let offered: usize;
                    let res = match driver {
                        Driver::Vectored(..) => {
                            let slices: Vec<IoSlice<'_>> = cuts
                                .windows(2)
                                .filter_map(|w| {
                                    let (a, b) = (w[0].max(consumed), w[1]);
                                    (a < b).then(|| IoSlice::new(&input[a..b]))
                                })
                                .collect();
                            offered = input.len() - consumed;
                            match &mut stream {
                                S::Strip(s) => s.write_vectored(&slices),
                                S::Auto(s) => s.write_vectored(&slices),
                            }
                        }
                        _ => {
                            offered = input.len() - consumed;
                            match &mut stream {
                                S::Strip(s) => s.write(&input[consumed..]),
                                S::Auto(s) => s.write(&input[consumed..]),
                            }
                        }
                    };
                    let (errs, short, writes) = {
                        let s = sh.borrow();
                        (s.call_errors.clone(), s.call_short, s.call_writes)
                    };
                    match res {
                        Ok(n) => {
                            if n > offered {
                                return Err(format!("write returned {n}, more than the {offered} bytes it was given"));
                            }
                            if !errs.is_empty() && n == offered {
                                return Err(format!(
                                    "an inner error ({:?}) was turned into complete success: write returned {n} of {offered}",
                                    errs[0]
                                ));
                            }
                            consumed += n;
                            check_delivered(input, consumed, &sh, "after write returned Ok")?;
                            if n == 0 {
                                if errs.is_empty() && !short {
                                    return Err(format!(
                                        "write made no progress (returned 0 of {offered}) although the inner writer accepted everything ({writes} inner writes)"
                                    ));
                                }
                                return Ok(()); // standard protocol: WriteZero, caller stops
                            }
                        }
                        Err(e) => {
                            if !errs.contains(&e.kind()) {
                                return Err(format!("write returned error kind {:?} but the inner writer raised {:?}", e.kind(), errs));
                            }
                            // std contract: an error means no byte of this buffer was consumed
                            check_delivered(input, consumed, &sh, &format!("after write returned Err({:?})", e.kind()))?;
                            if e.kind() != ErrorKind::Interrupted {
                                return Ok(()); // fatal for the caller
                            }
                        }
                    }
                }
                check_delivered(input, input.len(), &sh, "at the end of the protocol")?;
                Ok(())
            }
            Driver::WriteAll | Driver::WriteFmt(_) => {
                let mut stream = anstream::StripStream::new(boxed);
                begin_call(&sh);
                let res = match driver {
                    Driver::WriteAll => stream.write_all(input),
                    Driver::WriteFmt(cut) => {
                        let a = std::str::from_utf8(&input[..cut]).map_err(|_| "machinery: fragment not UTF-8".to_string())?;
                        let b = std::str::from_utf8(&input[cut..]).map_err(|_| "machinery: fragment not UTF-8".to_string())?;
                        write!(stream, "{a}{b}")
                    }
                    _ => unreachable!(),
                };
                let (errs, zero) = {
                    let s = sh.borrow();
                    (s.call_errors.clone(), s.call_zero)
                };
                let fatal: Vec<ErrorKind> = errs.iter().copied().filter(|k| *k != ErrorKind::Interrupted).collect();
                match res {
                    Ok(()) => {
                        if !fatal.is_empty() {
                            return Err(format!("inner error {:?} was turned into success", fatal[0]));
                        }
                        check_delivered(input, input.len(), &sh, "after Ok(())")
                    }
                    Err(e) => {
                        let allowed = errs.contains(&e.kind()) || (zero && e.kind() == ErrorKind::WriteZero);
                        if !allowed {
                            return Err(format!(
                                "returned error kind {:?} but the inner writer raised {:?} (accepted zero bytes: {zero})",
                                e.kind(),
                                errs
                            ));
                        }
                        // progress on error is unspecified: what was delivered must be the stripped form of some prefix
                        let ok = (0..=input.len()).any(|p| check_delivered(input, p, &sh, "").is_ok());
                        if !ok {
                            return Err(format!(
                                "after Err({:?}) the inner writer holds {} which is not the stripped form of any prefix of the input",
                                e.kind(),
                                show(&sh.borrow().accepted)
                            ));
                        }
                        Ok(())
                    }
                }
            }
        }
    })();
    let script = std::mem::take(&mut sh.borrow_mut().script);
    (r, script)
}

const SYMS: [&[u8]; 7] = [b"a", "é".as_bytes(), b"\x1b", b"[", b"1", b"m", b"\n"];

fn drivers_for(tokens: &[usize]) -> Vec<Driver> {
    let input: Vec<u8> = tokens.iter().flat_map(|&i| SYMS[i].to_vec()).collect();
    let mut d = vec![Driver::WriteProtocol, Driver::AutoNeverProtocol, Driver::WriteAll];
    // token boundaries (char boundaries) for fmt fragments and vectored cuts
    let mut bounds = vec![0];
    let mut p = 0;
    for &t in tokens {
        p += SYMS[t].len();
        bounds.push(p);
    }
    for &c in &bounds {
        d.push(Driver::WriteFmt(c));
    }
    // vectored: every pair of byte positions a <= b (cuts may fall inside "é")
    for a in 0..=input.len() {
        for b in a..=input.len() {
            d.push(Driver::Vectored(a, b));
        }
    }
    d
}

fn clause_of(m: &str) -> String {
    for (pat, c) in [
        ("panic:", "panic"),
        ("more than the", "count-exceeds-buffer"),
        ("turned into complete success", "error-turned-into-success"),
        ("turned into success", "error-turned-into-success"),
        ("no progress", "no-progress"),
        ("returned error kind", "error-kind-changed"),
        ("after write returned Err", "delivered-before-error"),
        ("not the stripped form of any prefix", "delivered-not-a-prefix"),
        ("did not terminate", "no-termination"),
        ("differs", "delivered-differs-from-consumed-prefix"),
    ] {
        if m.contains(pat) {
            return c.to_string();
        }
    }
    "other".into()
}

fn main_check(ctx: &Ctx) -> Outcome {
    let mut out = Outcome::default();
    let quick = ctx.quick();
    let maxlen = if quick { 5 } else { 6 };
    let k_of = |len: usize| if quick { 2 } else if len <= 5 { 3 } else { 2 };
    let inputs: Vec<Vec<usize>> = strings_upto(SYMS.len(), maxlen).filter(|c| !c.is_empty()).collect();
    let runs = AtomicU64::new(0);
    let max_points = AtomicU64::new(0);
    let deviating = AtomicU64::new(0);
    let viol = std::sync::Mutex::new(Vec::<Finding>::new());
    let distinct = std::sync::Mutex::new(std::collections::HashSet::<u64>::new());
    inputs.par_iter().for_each(|toks| {
        let input: Vec<u8> = toks.iter().flat_map(|&i| SYMS[i].to_vec()).collect();
        let mut local = std::collections::HashSet::new();
        for driver in drivers_for(toks) {
            // vectored splits are many: bound their deviations by 1 less to keep the product in budget
            let k = k_of(toks.len());
            let kk = if matches!(driver, Driver::Vectored(..)) && toks.len() > 4 { k - 1 } else { k };
            let mut found = false;
            let st = scripts::enumerate(kk, |s| {
                let r = match guard(|| run_case(&input, driver, s.clone())) {
                    Ok((r, script)) => {
                        *s = script;
                        r
                    }
                    Err(p) => {
                        s.mark_aborted();
                        Err(p)
                    }
                };
                if s.deviations() > 0 {
                    deviating.fetch_add(1, Ordering::Relaxed);
                }
                local.insert(hash_of(&(s.choices(), r.is_ok())));
                if let Err(m) = r {
                    found = true;
                    let mut v = viol.lock().unwrap();
                    if v.len() < 400 {
                        v.push(Finding {
                            system: format!("StripStream/{}", match driver {
                                Driver::WriteProtocol => "write-protocol".to_string(),
                                Driver::AutoNeverProtocol => "AutoStream::never/write-protocol".to_string(),
                                Driver::Vectored(..) => "write_vectored-protocol".to_string(),
                                Driver::WriteAll => "write_all".to_string(),
                                Driver::WriteFmt(_) => "write_fmt".to_string(),
                            }),
                            clause: clause_of(&m),
                            case: vec![hex(&input), format!("{driver:?}"), format!("script{:?}", s.choices())],
                            message: m,
                            replay: json!({"kind":"case","input":hex(&input),"driver":format!("{driver:?}"),"script":s.choices()}),
                        });
                    }
                    return false; // first (fewest-deviation) counterexample per (input, driver)
                }
                true
            });
            let _ = found;
            runs.fetch_add(st.runs, Ordering::Relaxed);
            max_points.fetch_max(st.max_points as u64, Ordering::Relaxed);
        }
        distinct.lock().unwrap().extend(local);
    });
    let mut v = viol.into_inner().unwrap();
    v.sort_by_key(|f| (f.case[0].len(), f.case[2].len(), f.key()));
    // keep the shortest few per (system, clause)
    let mut per: std::collections::HashMap<(String, String), usize> = Default::default();
    v.retain(|f| {
        let c = per.entry((f.system.clone(), f.clause.clone())).or_default();
        *c += 1;
        *c <= 6
    });
    out.findings.extend(v);
    out.set("evaluations", json!(runs.load(Ordering::Relaxed)));
    out.set("distinct_nontrivial", json!(deviating.load(Ordering::Relaxed)));
    out.set("distinct_scripts", json!(distinct.lock().unwrap().len()));
    out.set("rule", json!("evaluations = executions (input x driver x script), each distinct by construction; distinct_nontrivial = executions whose script contains at least one deviation (short write or injected error); a script is the list of answers of the inner writer, enumerated CHESS-style with a bound on the number of non-default answers"));
    out.set("inputs", json!(inputs.len()));
    out.set("max_input_tokens", json!(maxlen));
    out.set("deviation_bound", json!(if quick { "2 (vectored driver on inputs of 5 tokens: 1)" } else { "3 for inputs <= 5 tokens, 2 for 6 tokens (vectored driver on inputs > 4 tokens: one less)" }));
    out.set("max_decision_points", json!(max_points.load(Ordering::Relaxed)));
    out.set("exhaustive", json!(true));
    out.push_sample(json!({"input":"a ESC[1m b","driver":"WriteProtocol","script":[2,0],"meaning":"first inner write accepts 0 bytes, second accepts all"}));
    out.push_sample(json!({"input":"é a","driver":"Vectored(1,2)","script":[5],"meaning":"slices cut inside é; the only inner write fails with Interrupted"}));
    out.assume("standard caller protocol: resubmit the unconsumed tail after Ok(n), retry the same buffer after Interrupted, stop on other errors and on Ok(0)");
    out.assume("write may swallow an inner error into Ok(n) with n < len only if the bytes reported consumed were really delivered (std BufWriter/LineWriter convention); write_all/write! progress on error is unspecified beyond 'a prefix was delivered'");
    out.assume("Interrupted inside write_all/write! is retried by std's default write_all of the inner writer and need not surface");
    out
}

fn parse_driver(s: &str) -> Driver {
    let nums: Vec<usize> = s.split(|c: char| !c.is_ascii_digit()).filter(|x| !x.is_empty()).map(|x| x.parse().unwrap()).collect();
    if s.starts_with("WriteProtocol") {
        Driver::WriteProtocol
    } else if s.starts_with("AutoNever") {
        Driver::AutoNeverProtocol
    } else if s.starts_with("Vectored") {
        Driver::Vectored(nums[0], nums[1])
    } else if s.starts_with("WriteAll") {
        Driver::WriteAll
    } else {
        Driver::WriteFmt(nums[0])
    }
}

fn replay(v: &serde_json::Value) -> Result<(), String> {
    let input = unhex(v["input"].as_str().unwrap());
    let driver = parse_driver(v["driver"].as_str().unwrap());
    let forced: Vec<usize> = v["script"].as_array().unwrap().iter().map(|x| x.as_u64().unwrap() as usize).collect();
    let (r, _) = run_case(&input, driver, Script::new(forced));
    r
}

fn main() {
    run_check("C06", "fault_enumeration", main_check, replay);
}
