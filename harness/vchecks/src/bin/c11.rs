//! C11 - the git colour parser accepts exactly git's syntax and denotes the right style.
//!
//! Finite-domain enumeration (E3) of `anstyle_git::parse` against M-GIT (`vmodel::git`):
//!  (1) every vocabulary word alone (~80 words: colours, numbers, '#'-words, the 21
//!      attribute spellings, near misses, junk), every ASCII case pattern of each, and
//!      every single-edit mutation (delete / substitute / insert / transpose over a
//!      40-symbol alphabet) of every valid keyword, alone and as the third colour;
//!  (2) every sequence of <= 3 (thorough 4) vocabulary words (words that already fail
//!      alone are reported once and pruned from the sequences);
//!  (3) separators: every choice of separator / leading / trailing whitespace for
//!      every sequence of <= 3 words over a 10-word subset;
//!  (4) every '#'-word of 1..=6 characters over {0,9,a,F,g,G,+,-,e-acute,emoji} and over a
//!      case-mapping alphabet; every one of the 2^24 '#rrggbb' words;
//!  (5) round trip: every expressible style printed by the harness's own printer
//!      (vmodel::git::print) and parsed back must give the same style.
//! Oracle: accept/reject, the style, the error variant and the word it names; every
//! call runs under catch_unwind.

#[path = "../topk.rs"]
mod topk;

use rayon::prelude::*;
use serde_json::json;
use std::collections::HashSet;
use topk::*;
use vchecks::common::*;
use vexplore::evidence::*;
use vexplore::util::*;
use vmodel::git::{self, Expect, GitColor, GitErr, GitStyle, Word};
use vmodel::sgr::Col;

#[derive(Default)]
struct Acc {
    evals: u64,
    unspecified: u64,
    accept: u64,
    reject: u64,
    outcomes: HashSet<u64>,
}

impl Acc {
    fn merge(mut self, o: Acc) -> Acc {
        self.evals += o.evals;
        self.unspecified += o.unspecified;
        self.accept += o.accept;
        self.reject += o.reject;
        if self.outcomes.len() < o.outcomes.len() {
            let mut o = o;
            o.outcomes.extend(self.outcomes);
            self.outcomes = o.outcomes;
        } else {
            self.outcomes.extend(o.outcomes);
        }
        self
    }
}

fn color_matches(model: Option<GitColor>, actual: Col) -> bool {
    match model {
        None => actual == Col::Default,
        Some(GitColor::Named(i)) => actual.same_modulo_16(Col::Ansi(i)),
        Some(GitColor::Idx(n)) => actual.same_modulo_16(Col::Idx(n)),
        Some(GitColor::Rgb(r, g, b)) => actual == Col::Rgb(r, g, b),
        // the statement does not say how '#rgb' expands: digit values as they are, or doubled digits (git)
        Some(GitColor::Rgb12(r, g, b)) => actual == Col::Rgb(r, g, b) || actual == Col::Rgb(r * 17, g * 17, b * 17),
    }
}

fn show_actual(st: &anstyle::Style) -> String {
    let (fg, bg, ul, fx) = style_tuple(st);
    let names: Vec<&str> = (0..12).filter(|i| fx & (1 << i) != 0).map(|i| vmodel::sgr::fx::NAMES[i]).collect();
    format!("fg={fg:?} bg={bg:?} ul={ul:?} effects={{{}}}", names.join(","))
}

fn show_model(m: &GitStyle) -> String {
    let names: Vec<&str> = (0..12).filter(|i| m.effects & (1 << i) != 0).map(|i| vmodel::sgr::fx::NAMES[i]).collect();
    format!("fg={:?} bg={:?} effects={{{}}}", m.fg, m.bg, names.join(","))
}

/// "rejected with the error that names that word": the word as written
fn same_word(a: &str, b: &str) -> bool {
    a == b
}

/// Compare one input with the model.
fn check_one(input: &str, verbose: bool) -> Result<Expect, (&'static str, String)> {
    // messages are only built when they will be recorded
    macro_rules! m {
        ($($t:tt)*) => { if verbose { format!($($t)*) } else { String::new() } };
    }
    let expect = git::parse(input);
    let actual = match guarded(|| anstyle_git::parse(input)) {
        Ok(a) => a,
        Err(p) => return Err(("panic", m!("anstyle_git::parse({input:?}) panicked: {p}"))),
    };
    match &expect {
        Expect::Unspecified(_) => {}
        Expect::Style(m) => match &actual {
            Err(e) => return Err(("valid-rejected", m!("parse({input:?}) is valid ({}) but was rejected: {e}", show_model(m)))),
            Ok(st) => {
                let (fg, bg, ul, fx) = style_tuple(st);
                if !(color_matches(m.fg, fg) && color_matches(m.bg, bg) && ul == Col::Default && fx == m.effects) {
                    return Err(("wrong-style", m!("parse({input:?}) = {} but the words denote {}", show_actual(st), show_model(m))));
                }
            }
        },
        Expect::Errors(list) => match &actual {
            Ok(st) => {
                let (v, w) = &list[0];
                let what = if list.iter().any(|(_, w)| w.starts_with('#')) { "invalid-hash-word-accepted" } else { "invalid-accepted" };
                return Err((what, m!("parse({input:?}) must be rejected ({v:?} {w:?}) but was accepted as {}", show_actual(st))));
            }
            Err(e) => {
                let (av, aw) = match e {
                    anstyle_git::Error::ExtraColor { word, .. } => (GitErr::ExtraColor, word.clone()),
                    anstyle_git::Error::UnknownWord { word, .. } => (GitErr::UnknownWord, word.clone()),
                    other => return Err(("wrong-error", m!("parse({input:?}): unexpected error variant {other:?}"))),
                };
                if !list.iter().any(|(v, w)| *v == av && same_word(w, &aw)) {
                    let clause = if list.iter().any(|(_, w)| same_word(w, &aw)) { "wrong-error-variant" } else { "wrong-error-word" };
                    return Err((clause, m!("parse({input:?}) failed with {av:?} naming {aw:?}; offending words per the grammar: {list:?}")));
                }
            }
        },
    }
    Ok(expect)
}

/// at most this many violations per clause and chunk of a sweep are recorded individually; the rest are only counted
const PER_CHUNK: usize = 64;

#[derive(Default)]
struct Budget {
    /// per clause: (violations seen in this chunk, of which recorded individually)
    seen: Vec<(&'static str, u64, u64)>,
}

impl Budget {
    /// true if the next violation of `clause` is to be recorded individually
    fn take(&mut self, clause: &'static str) -> bool {
        let i = match self.seen.iter().position(|(c, _, _)| *c == clause) {
            Some(i) => i,
            None => {
                self.seen.push((clause, 0, 0));
                self.seen.len() - 1
            }
        };
        let e = &mut self.seen[i];
        e.1 += 1;
        if (e.2 as usize) < PER_CHUNK {
            e.2 += 1;
            true
        } else {
            false
        }
    }
    fn flush(self, system: &str, col: &Collector) {
        for (clause, seen, recorded) in self.seen {
            col.add_count(system, clause, seen - recorded);
        }
    }
}

fn run_case_b(system: &str, input: &str, acc: &mut Acc, col: &Collector, track: bool, budget: &mut Budget) -> bool {
    acc.evals += 1;
    match check_one(input, false) {
        Ok(e) => {
            match &e {
                Expect::Unspecified(_) => acc.unspecified += 1,
                Expect::Style(_) => acc.accept += 1,
                Expect::Errors(_) => acc.reject += 1,
            }
            if track && !matches!(e, Expect::Unspecified(_)) {
                acc.outcomes.insert(hash_of(&e));
            }
            true
        }
        Err((clause, _)) => {
            if budget.take(clause) {
                let msg = check_one(input, true).err().map(|(_, m)| m).unwrap_or_default();
                col.push(Finding {
                    system: system.to_string(),
                    clause: clause.to_string(),
                    case: vec![format!("{input:?}")],
                    message: msg,
                    replay: json!({"kind": "parse", "input": hex(input.as_bytes())}),
                });
            }
            false
        }
    }
}

fn run_case(system: &str, input: &str, acc: &mut Acc, col: &Collector, track: bool) -> bool {
    let mut b = Budget::default();
    run_case_b(system, input, acc, col, track, &mut b)
}

// ---- round trip ------------------------------------------------------------

fn real_color(c: Option<GitColor>) -> Option<anstyle::Color> {
    match c {
        None => None,
        Some(GitColor::Named(i)) => Some(ansi_from_index(i).into()),
        Some(GitColor::Idx(n)) => Some(anstyle::Ansi256Color(n).into()),
        Some(GitColor::Rgb(r, g, b)) => Some(anstyle::RgbColor(r, g, b).into()),
        Some(GitColor::Rgb12(..)) => unreachable!("the printer never uses the short form"),
    }
}

fn real_style(gs: &GitStyle) -> anstyle::Style {
    anstyle::Style::new().fg_color(real_color(gs.fg)).bg_color(real_color(gs.bg)).effects(effects_from_bits(gs.effects))
}

fn roundtrip_one(gs: &GitStyle, variant: u8) -> Result<(), (&'static str, String)> {
    let text = git::print(gs, variant);
    let want = real_style(gs);
    match guarded(|| anstyle_git::parse(&text)) {
        Err(p) => Err(("panic", format!("parse({text:?}) panicked: {p}"))),
        Ok(Err(e)) => Err(("roundtrip-rejected", format!("style {} printed as {text:?} was rejected: {e}", show_actual(&want)))),
        Ok(Ok(got)) => {
            if got == want {
                Ok(())
            } else {
                Err(("roundtrip-differs", format!("style {} printed as {text:?} parsed back as {}", show_actual(&want), show_actual(&got))))
            }
        }
    }
}

fn color_code(c: Option<GitColor>) -> String {
    git::print_color(c)
}

fn run_roundtrip(gs: &GitStyle, variant: u8, acc: &mut Acc, col: &Collector) {
    acc.evals += 1;
    acc.accept += 1;
    if let Err((clause, msg)) = roundtrip_one(gs, variant) {
        col.push(Finding {
            system: "round trip print -> parse".into(),
            clause: clause.into(),
            case: vec![format!("{:?}", git::print(gs, variant))],
            message: msg,
            replay: json!({"kind": "roundtrip", "fg": color_code(gs.fg), "bg": color_code(gs.bg), "effects": gs.effects, "variant": variant}),
        });
    }
}

fn roundtrip_colors() -> Vec<Option<GitColor>> {
    let mut v = vec![None];
    for i in 0..8 {
        v.push(Some(GitColor::Named(i)));
    }
    for n in 0..=255u8 {
        v.push(Some(GitColor::Idx(n)));
    }
    const L: [u8; 6] = [0, 1, 9, 10, 160, 255];
    for r in L {
        for g in L {
            for b in L {
                v.push(Some(GitColor::Rgb(r, g, b)));
            }
        }
    }
    v
}

fn attr_mask() -> u16 {
    git::ATTRS.iter().map(|(_, b)| *b).fold(0, |a, b| a | b)
}

/// the 128 subsets of the seven git attributes, as anstyle effect bits
fn attr_subsets() -> Vec<u16> {
    (0..128u16).map(|m| git::ATTRS.iter().enumerate().filter(|(i, _)| m & (1 << i) != 0).map(|(_, (_, b))| *b).fold(0, |a, b| a | b)).collect()
}

// ---- vocabulary -------------------------------------------------------------

fn valid_keywords() -> Vec<String> {
    let mut v: Vec<String> = git::NAMES.iter().map(|s| s.to_string()).collect();
    v.push("normal".into());
    v.push("-1".into());
    for (a, _) in git::ATTRS {
        v.push(a.to_string());
        v.push(format!("no{a}"));
        v.push(format!("no-{a}"));
    }
    v
}

fn vocabulary() -> Vec<String> {
    let mut v = valid_keywords();
    for w in [
        // numbers
        "0", "7", "8", "255", "256", "007", "-0", "-2", "+1", "1000",
        // numbers beyond u32 / u64 (an accumulator that wraps or overflows)
        "4294967296", "4294967551", "99999999999", "18446744073709551616",
        // '#'-words
        "#000", "#fff", "#a1b2c3", "#ABC", "#12", "#1234", "#1234567", "#", "#ggg", "#+f+f+f", "#a\u{e9}", "#12345g",
        // near misses
        "bol", "boldd", "no_bold", "nobright", "brightred", "default", "reset", "no", "no-", "nono-bold", "no--bold", "underline",
        "inverse", "bold,", "red;blue", "noblue", "no-#123",
        // invisible characters glued to valid words (none of them is whitespace)
        "\u{feff}", "\u{feff}red", "red\u{feff}", "\u{200b}bold", "bold\u{200d}", "\u{2060}red", "re\u{ad}d",
        // junk
        "\u{e9}", "b\u{43e}ld", "\u{ff32}\u{ff25}\u{ff24}", "blin\u{212a}", "\u{0}", "re\u{301}d", "\u{1f600}",
    ] {
        v.push(w.to_string());
    }
    v
}

fn case_patterns(w: &str) -> Vec<String> {
    let chars: Vec<char> = w.chars().collect();
    let letters: Vec<usize> = chars.iter().enumerate().filter(|(_, c)| c.is_ascii_alphabetic()).map(|(i, _)| i).collect();
    let mut v = vec![];
    for m in 0..(1u32 << letters.len()) {
        let mut cs = chars.clone();
        for (k, &i) in letters.iter().enumerate() {
            cs[i] = if m & (1 << k) != 0 { cs[i].to_ascii_uppercase() } else { cs[i].to_ascii_lowercase() };
        }
        v.push(cs.into_iter().collect());
    }
    v
}

fn edit_alphabet() -> Vec<char> {
    let mut v: Vec<char> = ('a'..='z').collect();
    v.extend('0'..='9');
    v.extend(['-', '#', '+', '\u{e9}']);
    v
}

fn single_edits(w: &str) -> Vec<String> {
    let cs: Vec<char> = w.chars().collect();
    let alpha = edit_alphabet();
    let mut out: Vec<String> = vec![];
    for i in 0..cs.len() {
        let mut d = cs.clone();
        d.remove(i);
        if !d.is_empty() {
            out.push(d.iter().collect());
        }
        for &a in &alpha {
            if a != cs[i] {
                let mut s = cs.clone();
                s[i] = a;
                out.push(s.iter().collect());
            }
        }
        if i + 1 < cs.len() && cs[i] != cs[i + 1] {
            let mut t = cs.clone();
            t.swap(i, i + 1);
            out.push(t.iter().collect());
        }
    }
    for i in 0..=cs.len() {
        for &a in &alpha {
            let mut s = cs.clone();
            s.insert(i, a);
            out.push(s.iter().collect());
        }
    }
    out.sort();
    out.dedup();
    out
}

// both alphabets are in byte order, so that enumeration order = string order (the smallest cases are met first)
const HASH_ALPHABET: [&str; 10] = ["+", "-", "0", "9", "F", "G", "a", "g", "\u{e9}", "\u{1f600}"];
/// characters whose lower-case mapping changes the byte length (U+0130, U+212A, U+2126) next to plain ones
const FOLD_ALPHABET: [&str; 5] = ["1", "a", "\u{130}", "\u{2126}", "\u{212a}"];

fn sweep_indexed(total: u64, system: &str, col: &Collector, track: bool, make: impl Fn(u64, &mut String) + Sync) -> Acc {
    const CHUNK: u64 = 4096;
    let nchunks = ((total + CHUNK - 1) / CHUNK) as usize;
    (0..nchunks)
        .into_par_iter()
        .map(|c| {
            let mut acc = Acc::default();
            let mut budget = Budget::default();
            let mut s = String::new();
            let lo = c as u64 * CHUNK;
            for i in lo..(lo + CHUNK).min(total) {
                s.clear();
                make(i, &mut s);
                run_case_b(system, &s, &mut acc, col, track, &mut budget);
            }
            budget.flush(system, col);
            acc
        })
        .reduce(Acc::default, Acc::merge)
}

fn main_check(ctx: &Ctx) -> Outcome {
    quiet_panics();
    let mut out = Outcome::default();
    // the functions under test must not consult the environment: a few representative inputs under a cleared and two
    // hostile settings of the colour-related variables (before any worker thread exists)
    fn env_digest() -> Vec<String> {
        ["", "bold red", "red blue ul", "#abc #a1b2c3 nobold", "255 0 dim italic", "x", "red blue green"].iter().map(|t| format!("{:?}", anstyle_git::parse(t))).collect::<Vec<String>>()
    }
    if let Err(m) = vexplore::util::env_independence(env_digest) {
        out.findings.push(Finding {
            system: "anstyle_git::parse".into(),
            clause: "environment-dependence".into(),
            case: vec!["representative inputs".into()],
            message: m.chars().take(900).collect(),
            replay: serde_json::json!({"kind":"env"}),
        });
    }
    let quick = ctx.quick();
    let col = Collector::new(3);
    let mut acc = Acc::default();

    // (1) single words
    let vocab = vocabulary();
    let mut pruned: Vec<String> = vec![];
    let mut kept: Vec<String> = vec![];
    {
        let mut a = Acc::default();
        for w in &vocab {
            if run_case("single vocabulary word", w, &mut a, &col, true) {
                kept.push(w.clone());
            } else {
                pruned.push(w.clone());
            }
        }
        let classes: Vec<String> = vocab.iter().map(|w| format!("{:?}", git::classify(w))).collect();
        let n_unspec = vocab.iter().filter(|w| matches!(git::classify(w), Word::Unspecified(_))).count();
        out.push_part(json!({"part":"1a","system":"every vocabulary word alone","vocabulary":vocab,"words":vocab.len(),"unspecified_words":n_unspec,"failing_alone_pruned_from_sequences":pruned,"distinct_classes":classes.iter().collect::<HashSet<_>>().len()}));
        acc = acc.merge(a);

        let mut a = Acc::default();
        for w in &kept {
            for p in case_patterns(w) {
                run_case("case patterns of a vocabulary word", &p, &mut a, &col, true);
                // and as a third colour / after two colours, where the error variant matters
                let ctxs = format!("red blue {p}");
                run_case("case patterns of a vocabulary word", &ctxs, &mut a, &col, true);
            }
        }
        out.push_part(json!({"part":"1b","system":"all 2^k ASCII case patterns of every vocabulary word that passes alone, alone and after two colours","cases":a.evals}));
        acc = acc.merge(a);

        let edits: Vec<String> = {
            let mut e: Vec<String> = valid_keywords().iter().flat_map(|w| single_edits(w)).collect();
            e.sort();
            e.dedup();
            e
        };
        let a = edits
            .par_chunks(512)
            .map(|ch| {
                let mut acc = Acc::default();
                for w in ch {
                    run_case("single-edit mutation of a keyword", w, &mut acc, &col, true);
                    run_case("single-edit mutation of a keyword", &format!("red blue {w}"), &mut acc, &col, true);
                    run_case("single-edit mutation of a keyword", &format!("{w} bold {w}"), &mut acc, &col, true);
                }
                acc
            })
            .reduce(Acc::default, Acc::merge);
        out.push_part(json!({"part":"1c","system":"every single-edit mutation of the 33 valid keywords (delete/substitute/insert/transpose, 40 symbols), alone, as third colour, twice","mutants":edits.len(),"cases":a.evals}));
        acc = acc.merge(a);
    }

    // (2) sequences
    let max_len = if quick { 3 } else { 4 };
    for len in 0..=max_len {
        let t = std::time::Instant::now();
        let n = kept.len() as u64;
        let total = n.pow(len as u32);
        let a = sweep_indexed(total, "word sequences", &col, true, |mut i, s| {
            let mut idx = [0usize; 8];
            for k in (0..len).rev() {
                idx[k] = (i % n) as usize;
                i /= n;
            }
            for k in 0..len {
                if k > 0 {
                    s.push(' ');
                }
                s.push_str(&kept[idx[k]]);
            }
        });
        out.push_part(json!({"part":"2","system":"every sequence of vocabulary words","length":len,"words":kept.len(),"cases":a.evals,"valid":a.accept,"rejected":a.reject,"unspecified":a.unspecified,"wall_s":t.elapsed().as_secs_f64()}));
        acc = acc.merge(a);
    }

    // (3) separators
    {
        let words = ["red", "blue", "bold", "nobold", "no-ul", "#abc", "255", "normal", "foo", "green"];
        let seps = [" ", "\t", "\n", "\r", "\x0c", "  ", " \t\r\n", "\r\n"];
        let ends = ["", " ", "\t", "\n", " \x0c "];
        let mut cases: Vec<String> = vec![];
        for lead in ends {
            for trail in ends {
                cases.push(format!("{lead}{trail}"));
                for a in words {
                    cases.push(format!("{lead}{a}{trail}"));
                    for s1 in seps {
                        for b in words {
                            cases.push(format!("{lead}{a}{s1}{b}{trail}"));
                            for s2 in seps {
                                for c in words {
                                    cases.push(format!("{lead}{a}{s1}{b}{s2}{c}{trail}"));
                                }
                            }
                        }
                    }
                }
            }
        }
        // disputed separators (no-panic only) and non-separators (one unknown word)
        for a in words {
            for b in words {
                for s in [
                    // every Unicode White_Space character (separators) ...
                    "\t", "\n", "\x0b", "\x0c", "\r", " ", "\u{85}", "\u{a0}", "\u{1680}", "\u{2000}", "\u{2001}", "\u{2002}", "\u{2003}", "\u{2004}", "\u{2005}",
                    "\u{2006}", "\u{2007}", "\u{2008}", "\u{2009}", "\u{200a}", "\u{2028}", "\u{2029}", "\u{202f}", "\u{205f}", "\u{3000}",
                    // ... and non-separators
                    "\u{feff}", "", ",", ";", "\0", "\x1f", "\u{200b}", "/", "\u{180e}",
                ] {
                    cases.push(format!("{a}{s}{b}"));
                    cases.push(format!("{a} {s} {b}"));
                    cases.push(format!("{s}{a} {b}{s}"));
                }
            }
        }
        let a = cases
            .par_chunks(4096)
            .map(|ch| {
                let mut acc = Acc::default();
                for s in ch {
                    run_case("separators", s, &mut acc, &col, true);
                }
                acc
            })
            .reduce(Acc::default, Acc::merge);
        out.push_part(json!({"part":"3","system":"every separator/leading/trailing choice for every sequence <= 3 of 10 words; disputed and non-separators between 2 words","separators":seps,"ends":ends,"cases":a.evals,"unspecified":a.unspecified}));
        acc = acc.merge(a);
    }

    // (4) '#'-words
    for (name, alpha) in [("'#'-words over the hex/non-hex alphabet", &HASH_ALPHABET[..]), ("'#'-words over the case-mapping alphabet", &FOLD_ALPHABET[..])] {
        let n = alpha.len() as u64;
        let mut part = Acc::default();
        for len in 1..=6usize {
            let total = n.pow(len as u32);
            let a = sweep_indexed(total, name, &col, true, |mut i, s| {
                let mut idx = [0usize; 8];
                for k in (0..len).rev() {
                    idx[k] = (i % n) as usize;
                    i /= n;
                }
                s.push('#');
                for k in 0..len {
                    s.push_str(alpha[idx[k]]);
                }
            });
            part = part.merge(a);
        }
        out.push_part(json!({"part":"4a","system":name,"alphabet":alpha,"lengths":"1..=6 characters","cases":part.evals,"valid":part.accept,"must_reject":part.reject}));
        acc = acc.merge(part);
    }
    {
        // all 2^24 '#rrggbb'; thorough: upper case and as background too
        let forms: &[(&str, bool)] = if quick { &[("", false)] } else { &[("", false), ("", true), ("normal ", false)] };
        for (prefix, upper) in forms {
            let a = sweep_indexed(1 << 24, "all '#rrggbb' words", &col, false, |i, s| {
                use std::fmt::Write as _;
                s.push_str(prefix);
                if *upper {
                    let _ = write!(s, "#{i:06X}");
                } else {
                    let _ = write!(s, "#{i:06x}");
                }
            });
            out.push_part(json!({"part":"4b","system":"all 2^24 '#rrggbb' words","prefix":prefix,"upper_case":upper,"cases":a.evals,"valid":a.accept}));
            acc = acc.merge(a);
        }
    }

    // (5) round trip
    {
        let colors = roundtrip_colors();
        let subsets = attr_subsets();
        let all = attr_mask();
        let nc = colors.len();
        // every colour pair x representative attribute sets (quick) / all 128 (thorough)
        let sets: Vec<u16> = if quick {
            let mut v = vec![0, all];
            v.extend(git::ATTRS.iter().map(|(_, b)| *b));
            v
        } else {
            subsets.clone()
        };
        let a = (0..nc * nc)
            .into_par_iter()
            .map(|i| {
                let mut acc = Acc::default();
                let (fg, bg) = (colors[i / nc], colors[i % nc]);
                for (k, &fxs) in sets.iter().enumerate() {
                    let gs = GitStyle { fg, bg, effects: fxs };
                    run_roundtrip(&gs, 0, &mut acc, &col);
                    run_roundtrip(&gs, ((i + k) % 16) as u8, &mut acc, &col);
                }
                acc
            })
            .reduce(Acc::default, Acc::merge);
        out.push_part(json!({"part":"5a","system":"round trip: every fg x bg pair x attribute sets, canonical layout + one rotating layout","colours_per_slot":nc,"attribute_sets":sets.len(),"cases":a.evals}));
        acc = acc.merge(a);
        // all 128 attribute sets x all 16 layouts x a reduced colour set
        let reduced: Vec<Option<GitColor>> = vec![
            None,
            Some(GitColor::Named(1)),
            Some(GitColor::Named(7)),
            Some(GitColor::Idx(0)),
            Some(GitColor::Idx(9)),
            Some(GitColor::Idx(255)),
            Some(GitColor::Rgb(0, 0, 0)),
            Some(GitColor::Rgb(255, 255, 255)),
            Some(GitColor::Rgb(10, 11, 12)),
        ];
        let mut a = Acc::default();
        for &fg in &reduced {
            for &bg in &reduced {
                for &fxs in &subsets {
                    for variant in 0..16 {
                        run_roundtrip(&GitStyle { fg, bg, effects: fxs }, variant, &mut a, &col);
                    }
                }
            }
        }
        out.push_part(json!({"part":"5b","system":"round trip: all 128 attribute sets x 16 layouts x 9x9 colours","cases":a.evals}));
        acc = acc.merge(a);
    }

    // (7) long descriptions: one word repeated n times (n around 16 .. 5000), then a tail word
    {
        let mut a = Acc::default();
        let mut s = String::new();
        for n in [15usize, 16, 17, 31, 32, 33, 63, 64, 65, 255, 256, 257, 1023, 1024, 1025, 5000] {
            for word in ["bold", "nobold", "ul no-ul", "BOLD  italic", "dim\treverse"] {
                for tail in ["", "red", "red blue", "red blue green", "x", "#abc", "strike"] {
                    s.clear();
                    for _ in 0..n {
                        s.push_str(word);
                        s.push(' ');
                    }
                    s.push_str(tail);
                    run_case("long descriptions", &s, &mut a, &col, false);
                }
            }
        }
        out.push_part(json!({"part":"7","system":"long descriptions: 16 lengths from 15 to 5000 repetitions x 5 words x 7 tails","cases":a.evals}));
        acc = acc.merge(a);
    }
    // (6) call histories: the result may depend on nothing but the argument.  Every ordered pair of inputs (and every
    //     triple over a smaller set) is parsed in order on a fresh thread and every answer compared with the model.
    {
        let hist: Vec<&str> = vec![
            "", "bold", "red", "red blue", "red blue green", "bold red nobold", "nobold", "no-ul", "ul", "#abc", "#a1b2c3", "#12", "255", "256", "normal",
            "bold x", "x", "red blue #123 bold", "reverse no-reverse reverse", "BOLD ITALIC", "dim  strike", "-1", "normal normal bold", "blink noblink blink noblink",
        ];
        let small: Vec<&str> = vec!["", "bold", "nobold", "red", "red blue green", "x", "#abc", "ul no-ul"];
        let mut histories: Vec<Vec<&str>> = vec![];
        for a in &hist {
            for b in &hist {
                histories.push(vec![a, b]);
            }
        }
        for a in &small {
            for b in &small {
                for c in &small {
                    histories.push(vec![a, b, c]);
                }
            }
        }
        let a = histories
            .par_iter()
            .map(|h| {
                let h = h.clone();
                let colref = &col;
                std::thread::scope(|sc| {
                    sc.spawn(move || {
                        let mut acc = Acc::default();
                        for (i, input) in h.iter().enumerate() {
                            acc.evals += 1;
                            if let Err((clause, msg)) = check_one(input, true) {
                                colref.push(Finding {
                                    system: "call histories on one thread".to_string(),
                                    clause: clause.to_string(),
                                    case: vec![format!("{:?} then {input:?}", &h[..i])],
                                    message: format!("after the calls {:?} on the same thread: {msg}", &h[..i]),
                                    replay: json!({"kind": "history", "inputs": h.iter().map(|x| hex(x.as_bytes())).collect::<Vec<_>>()}),
                                });
                                break;
                            }
                        }
                        acc
                    })
                    .join()
                    .unwrap_or_default()
                })
            })
            .reduce(Acc::default, Acc::merge);
        out.push_part(json!({"part":"6","system":"call histories (pairs over 24 inputs, triples over 8) on a fresh thread each","histories":histories.len(),"cases":a.evals}));
        acc = acc.merge(a);
    }

    let (findings, total, per_clause) = col.finish();
    out.findings.extend(findings);
    out.set("violating_cases_total", json!(total));
    out.set("violating_cases_by_part_and_clause", per_clause);
    out.set("evaluations", json!(acc.evals));
    out.set("distinct_nontrivial", json!(acc.outcomes.len()));
    out.set("cases_valid", json!(acc.accept));
    out.set("cases_must_reject", json!(acc.reject));
    out.set("cases_unspecified_no_panic_only", json!(acc.unspecified));
    out.set("rule", json!("evaluations = inputs parsed by the real anstyle_git::parse and compared with M-GIT (style, or error variant + named word); distinct_nontrivial = distinct expected outcomes (denoted style or offending-word list) outside the 2^24 hex sweep and the round trip"));
    out.set("exhaustive", json!(true));
    out.set("explanation", json!(format!("every listed finite domain was completed (sequences up to {max_len} words over {} words; {} vocabulary words fail alone and are pruned from the sequences); at most 3 smallest cases per (part, clause) are reported individually, violating_cases_total counts all", kept.len(), pruned.len())));
    for s in ["bold red nobold blue", "red blue #abc", "#+f+f+f", "no--bold", "normal 255 ul NO-UL"] {
        let r = guarded(|| anstyle_git::parse(s));
        out.push_sample(json!({"input": s, "model": format!("{:?}", git::parse(s)), "impl": format!("{r:?}")}));
    }
    out.assume("'+' sign, '-0' and leading zeros on decimal colour numbers; words that only match through Unicode case folding; non-ASCII digits: unspecified, only 'no panic' is checked. Separators are the Unicode White_Space characters (\"any whitespace\")");
    out.assume("'#rgb' may denote either (r,g,b) or (rr,gg,bb): the statement does not say how the short form expands");
    out.assume("when several words are offending the error may name any of them (with the variant belonging to that word); the named word must be the word as written; the error's `style` field is not checked");
    out.assume("named colours / decimal numbers are compared modulo 'indices 0-15 of the 256 palette are the 16-colour palette'; the round trip demands Style equality");
    out.assume("expressible styles: fg/bg in {none, 8 names, 0..=255, RGB lattice {0,1,9,10,160,255}^3}, attributes any subset of the 7; no underline colour");
    out
}

fn parse_color_code(s: &str) -> Result<Option<GitColor>, String> {
    match git::classify(s) {
        Word::Color(c) => Ok(c),
        o => Err(format!("bad colour {s:?} in replay: {o:?}")),
    }
}

fn replay(v: &serde_json::Value) -> Result<(), String> {
    quiet_panics();
    match v["kind"].as_str().unwrap_or("") {
        "parse" => {
            let b = unhex(v["input"].as_str().ok_or("missing input")?);
            let s = String::from_utf8(b).map_err(|e| e.to_string())?;
            check_one(&s, true).map(|_| ()).map_err(|(c, m)| format!("{c}: {m}"))
        }
        "history" => {
            let inputs: Vec<String> = v["inputs"].as_array().ok_or("missing inputs")?.iter().map(|x| String::from_utf8(unhex(x.as_str().unwrap_or(""))).unwrap_or_default()).collect();
            std::thread::spawn(move || {
                for i in &inputs {
                    check_one(i, true).map(|_| ()).map_err(|(c, m)| format!("{c}: {m}"))?;
                }
                Ok(())
            })
            .join()
            .map_err(|_| "history thread panicked".to_string())?
        }
        "roundtrip" => {
            let gs = GitStyle {
                fg: parse_color_code(v["fg"].as_str().ok_or("missing fg")?)?,
                bg: parse_color_code(v["bg"].as_str().ok_or("missing bg")?)?,
                effects: v["effects"].as_u64().ok_or("missing effects")? as u16,
            };
            roundtrip_one(&gs, v["variant"].as_u64().unwrap_or(0) as u8).map_err(|(c, m)| format!("{c}: {m}"))
        }
        "env" => Err("environment-dependence findings are replayed by re-running the check".into()),
        k => Err(format!("unknown replay kind {k}")),
    }
}

fn main() {
    run_check("C11", "exploration", main_check, replay);
}
