//! C02 - the parser reports exactly the events of the VT500 state machine.
//!
//! (1) all 16 x 256 (state, byte) pairs of the real `state_change` against the model table;
//! (2) product BFS Parser x M-VT, exact state matching, full alphabet (class bytes + macro tokens);
//! (3) the same product with states matched on the model's canonical form, deeper, and over
//!     focused sub-alphabets (CSI/DCS, OSC, UTF-8);
//! (4) reset differential without expected values: for every state reached in (2), the state
//!     after CAN / SUB - and every state the model calls Ground - is run in lock step with a
//!     fresh parser over all token strings up to a bound.

use anstyle_parse::state::{state_change, Action, State};
use anstyle_parse::Parser;
use rayon::prelude::*;
use serde_json::json;
use std::sync::atomic::{AtomicU64, Ordering};
use vchecks::common::*;
use vchecks::parser_sys::*;
use vexplore::bfs::{self, Limits};
use vexplore::evidence::*;
use vexplore::util::*;
use vmodel::vt::{self, Act, St};

fn model_state(s: State) -> Option<St> {
    Some(match s {
        State::Anywhere => return None,
        State::CsiEntry => St::CsiEntry,
        State::CsiIgnore => St::CsiIgnore,
        State::CsiIntermediate => St::CsiIntermediate,
        State::CsiParam => St::CsiParam,
        State::DcsEntry => St::DcsEntry,
        State::DcsIgnore => St::DcsIgnore,
        State::DcsIntermediate => St::DcsIntermediate,
        State::DcsParam => St::DcsParam,
        State::DcsPassthrough => St::DcsPassthrough,
        State::Escape => St::Escape,
        State::EscapeIntermediate => St::EscapeIntermediate,
        State::Ground => St::Ground,
        State::OscString => St::OscString,
        State::SosPmApcString => St::SosPmApcString,
        State::Utf8 => St::Utf8,
    })
}

fn model_act(a: Action) -> Act {
    match a {
        Action::Nop | Action::Ignore => Act::None, // both are no-ops
        Action::Clear => Act::Clear,
        Action::Collect => Act::Collect,
        Action::CsiDispatch => Act::CsiDispatch,
        Action::EscDispatch => Act::EscDispatch,
        Action::Execute => Act::Execute,
        Action::Hook => Act::Hook,
        Action::OscEnd => Act::OscEnd,
        Action::OscPut => Act::OscPut,
        Action::OscStart => Act::OscStart,
        Action::Param => Act::Param,
        Action::Print => Act::Print,
        Action::Put => Act::Put,
        Action::Unhook => Act::Unhook,
        Action::BeginUtf8 => Act::BeginUtf8,
    }
}

fn table_check(out: &mut Outcome) -> u64 {
    let mut n = 0;
    for st in REAL_STATES {
        for b in 0..=255u8 {
            n += 1;
            let (rs, ra) = state_change(st, b);
            let (es, ea) = match model_state(st) {
                // the "anywhere" pseudo state: only the anywhere transitions are defined
                None | Some(St::Utf8) => match b {
                    0x18 | 0x1a => (Some(St::Ground), Act::Execute),
                    0x1b => (Some(St::Escape), Act::None),
                    _ => (None, Act::None),
                },
                Some(ms) => vt::table(ms, b),
            };
            let ea = if ea == Act::Ignore { Act::None } else { ea };
            if model_state(rs) != es || model_act(ra) != ea {
                out.findings.push(Finding {
                    system: "state_change".into(),
                    clause: "table-entry".into(),
                    case: vec![format!("{st:?}"), format!("{b:02x}")],
                    message: format!("state_change({st:?}, 0x{b:02x}) = ({rs:?}, {ra:?}); VT500 model: ({es:?}, {ea:?})"),
                    replay: json!({"kind":"table","state": st as u8,"byte": b}),
                });
            }
        }
    }
    n
}

fn clause_of(m: &str) -> String {
    if m.contains("callbacks differ") {
        "callbacks-differ".into()
    } else if m.contains("fresh parser") {
        "not-fresh-after-reset".into()
    } else if m.contains("panic") {
        "panic".into()
    } else {
        "other".into()
    }
}

const LONG_SHAPES: usize = 7;
const LONG_SHAPE_NAMES: [&str; LONG_SHAPES] = [
    "OSC one field, BEL",
    "OSC one field, ST",
    "OSC three fields (0 ; n/2 ; rest), BEL",
    "OSC field of n bytes followed by a second OSC with two short fields",
    "DCS data string",
    "printable run between two SGR sequences",
    "OSC 15 short fields then a field of n bytes",
];

/// the long streams of part (3c): `n` is the length of the long string inside
fn long_stream(n: usize, shape: usize) -> Vec<u8> {
    let body = |len: usize| -> Vec<u8> { (0..len).map(|i| b"abcdefghijklmnopqrstuvwxyz0123456789 "[i % 37]).collect() };
    match shape {
        0 => [b"\x1b]".to_vec(), body(n), b"\x07z".to_vec()].concat(),
        1 => [b"\x1b]".to_vec(), body(n), b"\x1b\\z".to_vec()].concat(),
        2 => [b"\x1b]0;".to_vec(), body(n / 2), b";".to_vec(), body(n - n / 2), b"\x07z".to_vec()].concat(),
        3 => [b"\x1b]52;c;".to_vec(), body(n), b"\x07\x1b]0;t\x07z".to_vec()].concat(),
        4 => [b"\x1bP1;2q".to_vec(), body(n), b"\x1b\\z".to_vec()].concat(),
        5 => [b"\x1b[1m".to_vec(), body(n), b"\x1b[0m".to_vec()].concat(),
        _ => [b"\x1b]".to_vec(), b"a;".repeat(15), body(n), b"\x07z".to_vec()].concat(),
    }
}

fn main_check(ctx: &Ctx) -> Outcome {
    let mut out = Outcome::default();
    let quick = ctx.quick();
    let n_table = table_check(&mut out);
    out.set("table_pairs", json!(n_table));

    // (2) exact BFS
    let full = full_alphabet();
    let sys = ParserSys { label: "Parser::advance/full-alphabet/exact".into(), tokens: full.clone(), canonical: false };
    let d_exact = if quick { 4 } else { 5 };
    let mut states = vec![];
    let d_reset = if quick { 3 } else { 4 };
    let rep = bfs::explore_with(&sys, &Limits::depth(d_exact), |s, d| {
        if d <= d_reset {
            states.push(s.clone());
        }
    });
    out.add_bfs(&rep);
    out.findings.extend(bfs_findings(&rep, clause_of));
    out.set("full_alphabet_tokens", json!(full.len()));

    // (3) canonical BFS, deeper
    let mut lim = Limits::depth(if quick { 4 } else { 5 });
    lim.max_states = 30_000_000;
    lim.max_wall_s = if quick { 25.0 } else { 1200.0 };
    let sysc = ParserSys { label: "Parser::advance/full-alphabet/canonical".into(), tokens: full.clone(), canonical: true };
    let rep = bfs::explore(&sysc, &lim);
    out.add_bfs(&rep);
    out.findings.extend(bfs_findings(&rep, clause_of));
    for (name, toks, dq, dt) in [
        ("csi-dcs", csi_alphabet(), 7, 9),
        ("osc", osc_alphabet(), 7, 9),
        ("utf8", utf8_alphabet(), 8, 8),
    ] {
        let sys = ParserSys { label: format!("Parser::advance/{name}/canonical"), tokens: toks, canonical: true };
        let mut lim = Limits::depth(if quick { dq } else { dt });
        lim.max_wall_s = if quick { 15.0 } else { 900.0 };
        let rep = bfs::explore(&sys, &lim);
        out.add_bfs(&rep);
        out.findings.extend(bfs_findings(&rep, clause_of));
    }

    // (3b) parameter values: every value 0..=70000, leading zeros and very long digit strings, as a
    // CSI parameter, a sub-parameter, after a private marker with an intermediate, and as a DCS
    // parameter (saturation at 65535 has its boundary between 65529 and 65536)
    {
        let mut digit_strings: Vec<String> = (0..=70000u32).map(|v| v.to_string()).collect();
        for v in [0u32, 7, 65534, 65535, 65536] {
            digit_strings.push(format!("000{v}"));
        }
        for s in ["99999999999999999999", "18446744073709551616", "4294967296", "655350", "100000"] {
            digit_strings.push(s.to_string());
        }
        let bad = std::sync::Mutex::new(Vec::<Finding>::new());
        let count = std::sync::atomic::AtomicU64::new(0);
        digit_strings.par_iter().for_each(|d| {
            for shape in 0..4 {
                let stream = match shape {
                    0 => format!("\x1b[{d}m"),
                    1 => format!("\x1b[1:{d}:2;{d}m"),
                    2 => format!("\x1b[?3;{d} q"),
                    _ => format!("\x1bP{d};{d}q\x1b\\"),
                };
                let mut imp = Parser::<anstyle_parse::DefaultCharAccumulator>::new();
                let mut model = vt::Vt::default();
                count.fetch_add(1, Ordering::Relaxed);
                if let Err(m) = guard(|| parser_step(&mut imp, &mut model, stream.as_bytes())).and_then(|r| r.map(|_| ())) {
                    let mut b = bad.lock().unwrap();
                    if b.len() < 40 {
                        b.push(Finding {
                            system: "Parser::advance/parameter-values".into(),
                            clause: clause_of(&m),
                            case: vec![show(stream.as_bytes())],
                            message: m,
                            replay: json!({"kind":"bfs","labels":[hex(stream.as_bytes())]}),
                        });
                    }
                }
            }
        });
        let mut b = bad.into_inner().unwrap();
        b.sort_by_key(|f| (f.case[0].len(), f.key()));
        out.findings.extend(b);
        out.push_part(json!({"system":"parameter values 0..=70000 + long digit strings x 4 sequence shapes","streams":count.load(Ordering::Relaxed)}));
    }

    // (3c) long strings: OSC payloads, DCS data and printable runs whose length sits at the boundaries where an
    // implementation's bookkeeping could wrap or be capped (2^8, 2^10, 2^12, 2^16, 2^17 and beyond)
    {
        let sizes: Vec<usize> = if quick {
            vec![255, 256, 257, 1023, 1024, 1025, 4096, 65535, 65536, 65537, 70000, (1 << 20) + 5]
        } else {
            vec![255, 256, 257, 1023, 1024, 1025, 4095, 4096, 4097, 16384, 65534, 65535, 65536, 65537, 70000, 131071, 131072, 131073, 200000, 1 << 20]
        };
        let cases: Vec<(usize, usize)> = sizes.iter().flat_map(|&n| (0..LONG_SHAPES).map(move |k| (n, k))).collect();
        let bad = std::sync::Mutex::new(Vec::<Finding>::new());
        cases.par_iter().for_each(|&(n, k)| {
            let stream = long_stream(n, k);
            let mut imp = Parser::<anstyle_parse::DefaultCharAccumulator>::new();
            let mut model = vt::Vt::default();
            if let Err(m) = guard(|| parser_step(&mut imp, &mut model, &stream)).and_then(|r| r.map(|_| ())) {
                let mut b = bad.lock().unwrap();
                if b.len() < 40 {
                    let m: String = if m.len() > 700 { format!("{} ... {}", m.chars().take(350).collect::<String>(), m.chars().rev().take(300).collect::<Vec<_>>().into_iter().rev().collect::<String>()) } else { m };
                    b.push(Finding {
                        system: "Parser::advance/long-strings".into(),
                        clause: clause_of(&m),
                        case: vec![format!("{} of {n} bytes", LONG_SHAPE_NAMES[k])],
                        message: m,
                        replay: json!({"kind":"long","n":n,"shape":k}),
                    });
                }
            }
        });
        let mut b = bad.into_inner().unwrap();
        b.sort_by_key(|f| f.key());
        out.findings.extend(b);
        out.push_part(json!({"system":"long OSC / DCS / print strings at power-of-two boundaries","sizes":sizes,"shapes":LONG_SHAPE_NAMES,"streams":cases.len()}));
    }

    // (4) reset differential
    let focus: Vec<Vec<u8>> = [&b"\x1b"[..], b"[", b"]", b"P", b"1", b";", b"m", b"\x07", b" ", b"a", b"\xc3", b"\xa9", b"q", b"\\"]
        .iter()
        .map(|t| t.to_vec())
        .collect();
    let len_full = if quick { 1 } else { 2 };
    let len_focus = if quick { 3 } else { 4 };
    let mut strings: Vec<Vec<u8>> = strings_upto(full.len(), len_full).map(|c| c.iter().flat_map(|&i| full[i].clone()).collect()).collect();
    strings.extend(strings_upto(focus.len(), len_focus).map(|c| c.iter().flat_map(|&i| focus[i].clone()).collect::<Vec<u8>>()));
    strings.sort();
    strings.dedup();
    let evals = AtomicU64::new(0);
    let distinct = std::sync::Mutex::new(std::collections::HashSet::<u64>::new());
    let viol = std::sync::Mutex::new(Vec::<Finding>::new());
    // candidate parsers: s.CAN, s.SUB for every exact state; s itself when the model is in Ground
    let mut cands: Vec<(Parser, String)> = vec![];
    let mut seen = std::collections::HashSet::new();
    for (i, s) in states.iter().enumerate() {
        for (b, nm) in [(0x18u8, "CAN"), (0x1au8, "SUB")] {
            let mut p = s.imp.clone();
            feed_real(&mut p, &[b]);
            if seen.insert(format!("{p:?}")) {
                cands.push((p, format!("state#{i}+{nm}")));
            }
        }
        if s.model.st == St::Ground && seen.insert(format!("{:?}", s.imp)) {
            cands.push((s.imp.clone(), format!("state#{i}(ground)")));
        }
    }
    let fresh = Parser::<anstyle_parse::DefaultCharAccumulator>::new();
    cands.par_iter().for_each(|(p, name)| {
        let mut local = std::collections::HashSet::new();
        for s in &strings {
            let mut a = p.clone();
            let mut b = fresh.clone();
            let (ea, eb) = match guard(|| (feed_real(&mut a, s), feed_real(&mut b, s))) {
                Ok(x) => x,
                Err(p) => (vec![vmodel::vt::Ev::Print('!')], vec![vmodel::vt::Ev::Execute(0), vmodel::vt::Ev::Print(p.chars().next().unwrap_or('p'))]),
            };
            evals.fetch_add(1, Ordering::Relaxed);
            local.insert(hash_of(&ea));
            if ea != eb {
                let mut v = viol.lock().unwrap();
                if v.len() < 100 {
                    v.push(Finding {
                        system: "Parser::advance/reset-differential".into(),
                        clause: "not-fresh-after-reset".into(),
                        case: vec![name.clone(), hex(s)],
                        message: format!("after reset the stream {} is not parsed as by a fresh parser: {}", show(s), first_diff(&ea, &eb)),
                        replay: json!({"kind":"reset","parser": format!("{p:?}"), "stream": hex(s)}),
                    });
                }
                break;
            }
        }
        distinct.lock().unwrap().extend(local);
    });
    out.push_part(json!({"system":"reset differential (CAN/SUB/ground states vs fresh parser)","candidate_parsers":cands.len(),"streams":strings.len(),"max_len_full_alphabet":len_full,"max_len_focus":len_focus}));
    let mut v = viol.into_inner().unwrap();
    v.sort_by_key(|f| (f.case[1].len(), f.key()));
    out.findings.extend(v);

    out.set("evaluations", json!(evals.load(Ordering::Relaxed) + n_table));
    out.set("distinct_nontrivial", json!(distinct.lock().unwrap().len()));
    out.set("rule", json!("evaluations = table pairs + (candidate parser, stream) lock-step runs of the reset differential; distinct_nontrivial = distinct callback lists seen there"));
    out.set("exhaustive", json!(false));
    out.set("explanation", json!("bounded depth: see parts for the depth completed per alphabet; the 16x256 table comparison is complete"));
    out.assume("8-bit behaviour (C1 execute in Ground, 0x9C string terminator, other high bytes ignored outside Ground/OSC) is transcribed from the crate's documented deviations");
    out.assume("inside a UTF-8 character the decoder consumes every byte until it accepts or rejects (a rejected sequence prints U+FFFD and consumes the rejecting byte), including CAN/SUB/ESC");
    out
}

fn replay(v: &serde_json::Value) -> Result<(), String> {
    match v["kind"].as_str().unwrap_or("") {
        "table" => {
            let mut o = Outcome::default();
            table_check(&mut o);
            let st = v["state"].as_u64().unwrap();
            let b = v["byte"].as_u64().unwrap();
            match o.findings.iter().find(|f| f.replay["state"] == st && f.replay["byte"] == b) {
                Some(f) => Err(f.message.clone()),
                None => Ok(()),
            }
        }
        "bfs" => {
            let labels: Vec<Vec<u8>> = v["labels"].as_array().unwrap().iter().map(|x| unhex(x.as_str().unwrap())).collect();
            let mut imp = Parser::<anstyle_parse::DefaultCharAccumulator>::new();
            let mut model = vt::Vt::default();
            for l in labels {
                parser_step(&mut imp, &mut model, &l)?;
            }
            Ok(())
        }
        "long" => {
            let mut imp = Parser::<anstyle_parse::DefaultCharAccumulator>::new();
            let mut model = vt::Vt::default();
            parser_step(&mut imp, &mut model, &long_stream(v["n"].as_u64().unwrap_or(0) as usize, v["shape"].as_u64().unwrap_or(0) as usize)).map(|_| ()).map_err(|m| m.chars().take(700).collect())
        }
        "reset" => Err("reset-differential findings are replayed by re-running the check (the candidate parser is identified by its state text)".into()),
        k => Err(format!("unknown replay kind {k}")),
    }
}

fn main() {
    run_check("C02", "model_checking", main_check, replay);
}
