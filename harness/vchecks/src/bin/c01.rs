//! C01 - stripping removes exactly the escape sequences and nothing else.
//!
//! (1) product BFS StripBytes x M-STRIP over all 256 single bytes, to fixpoint;
//! (2) from every state reachable under the class alphabet (and, thorough, from
//!     every byte-reachable state), every chunk of <= n class symbols through
//!     StripBytes::strip_next, strip_bytes(), StripStream/AutoStream::never;
//! (3) every string of <= n characters through StripStr / strip_str.

use anstream::adapter::{strip_bytes, strip_str, StripBytes, StripStr};
use rayon::prelude::*;
use serde_json::json;
use std::io::Write as _;
use std::sync::atomic::{AtomicU64, Ordering};
use vchecks::common::*;
use vchecks::strip_sys::*;
use vexplore::bfs::{self, Limits};
use vexplore::evidence::*;
use vexplore::util::*;
use vmodel::strip::StripModel;

/// One-shot checks from Ground: strip_bytes iterator / into_vec, StripStream, AutoStream::never.
fn oneshot_bytes(input: &[u8]) -> Result<(), (String, String)> {
    let mut model = StripModel::default();
    let it = strip_bytes(input);
    let pieces: Vec<&[u8]> = it.clone().collect();
    let flags = emitted_flags(input, &pieces).map_err(|m| ("strip_bytes".to_string(), m))?;
    model.check_flags(input, &flags).map_err(|m| ("strip_bytes".to_string(), m))?;
    let cat: Vec<u8> = pieces.concat();
    let v = it.into_vec();
    if v != cat {
        return Err(("strip_bytes.into_vec".into(), format!("into_vec {} != iterator concat {}", show(&v), show(&cat))));
    }
    // a partly consumed iterator, then into_vec / clone for the rest
    let mut it2 = strip_bytes(input);
    let mut taken: Vec<u8> = vec![];
    for k in 0..pieces.len() {
        match it2.next() {
            Some(p) => taken.extend_from_slice(p),
            None => return Err(("strip_bytes".into(), "iterator ended early on a second pass".into())),
        }
        let rest = it2.clone().into_vec();
        if [taken.clone(), rest.clone()].concat() != cat {
            return Err((
                format!("strip_bytes.into_vec(after {} pieces)", k + 1),
                format!("pieces taken {} + into_vec of the rest {} != whole visible text {}", show(&taken), show(&rest), show(&cat)),
            ));
        }
    }
    if let Some(b) = cat.iter().find(|&&b| vmodel::strip::FORBIDDEN(b)) {
        return Err(("strip_bytes".into(), format!("output contains forbidden byte 0x{b:02x}")));
    }
    // streams: write_all whole input
    let mut s = anstream::StripStream::new(Vec::new());
    s.write_all(input).map_err(|e| ("StripStream.write_all".to_string(), format!("error {e}")))?;
    let out = s.into_inner();
    let mut m2 = StripModel::default();
    m2.check_output(input, &out).map_err(|m| ("StripStream.write_all".to_string(), format!("{m} (output {})", show(&out))))?;
    let mut a = anstream::AutoStream::never(Vec::new());
    a.write_all(input).map_err(|e| ("AutoStream::never.write_all".to_string(), format!("error {e}")))?;
    let out2 = a.into_inner();
    let mut m3 = StripModel::default();
    m3.check_output(input, &out2)
        .map_err(|m| ("AutoStream::never.write_all".to_string(), format!("{m} (output {})", show(&out2))))?;
    Ok(())
}

/// one large input through the one-shot APIs, the streams and the incremental byte API; returns (system, message) per failure
fn large_case(n: usize, shift: usize) -> Vec<(String, String)> {
    use vchecks::fault_sys::large_input;
    let input = large_input(n, shift);
    let mut errs: Vec<(String, String)> = vec![];
    if let Err((sys, m)) = guard(|| oneshot_bytes(&input)).unwrap_or_else(|p| Err(("strip_bytes/streams".to_string(), p))) {
        errs.push((sys, m));
    }
    // text API on the longest valid-UTF-8 part (the unit is UTF-8; a cut may sit inside é at either end)
    let lo = usize::from(input.first() == Some(&0xa9));
    let hi = input.len() - usize::from(input.last() == Some(&0xc3));
    let text = String::from_utf8(input[lo..hi].to_vec()).expect("the unit is UTF-8");
    if let Err((sys, m)) = guard(|| oneshot_str(&text)).unwrap_or_else(|p| Err(("strip_str".to_string(), p))) {
        errs.push((sys, m));
    }
    for cut in [8192usize, 1000] {
        let (mut imp, mut model) = (anstream::adapter::StripBytes::new(), StripModel::default());
        let r = guard(|| {
            for ch in input.chunks(cut) {
                run_strip_bytes(&mut imp, &mut model, ch)?;
            }
            Ok(())
        })
        .and_then(|r: Result<(), String>| r);
        if let Err(m) = r {
            errs.push(("StripBytes::strip_next/chunk".into(), format!("cut every {cut} bytes: {m}")));
        }
    }
    errs
}

fn oneshot_str(input: &str) -> Result<(), (String, String)> {
    let mut model = StripModel::default();
    let it = strip_str(input);
    let pieces: Vec<&str> = it.clone().collect();
    let bp: Vec<&[u8]> = pieces.iter().map(|p| p.as_bytes()).collect();
    let flags = emitted_flags(input.as_bytes(), &bp).map_err(|m| ("strip_str".to_string(), m))?;
    model.check_flags(input.as_bytes(), &flags).map_err(|m| ("strip_str".to_string(), m))?;
    let cat: String = pieces.concat();
    if let Some(b) = cat.bytes().find(|&b| vmodel::strip::FORBIDDEN(b)) {
        return Err(("strip_str".into(), format!("output contains forbidden byte 0x{b:02x}")));
    }
    let ts = it.to_string();
    if ts != cat {
        return Err(("strip_str.to_string".into(), format!("to_string {ts:?} != iterator concat {cat:?}")));
    }
    let disp = format!("{}", strip_str(input));
    if disp != cat {
        return Err(("strip_str.Display".into(), format!("Display {disp:?} != iterator concat {cat:?}")));
    }
    // a partly consumed iterator: what was taken plus what Display / to_string / clone render
    // for the rest must still be the whole visible text
    let mut it = strip_str(input);
    let mut taken = String::new();
    for k in 0..pieces.len() {
        let p = it.next().ok_or_else(|| ("strip_str".to_string(), "iterator ended early on a second pass".to_string()))?;
        taken.push_str(p);
        let rest_ts = it.to_string();
        let rest_disp = format!("{it}");
        let rest_clone: String = it.clone().collect();
        for (how, rest) in [("to_string", &rest_ts), ("Display", &rest_disp), ("clone", &rest_clone)] {
            if format!("{taken}{rest}") != cat {
                return Err((
                    format!("strip_str.{how}(after {} pieces)", k + 1),
                    format!("pieces taken {taken:?} + {how} of the rest {rest:?} != whole visible text {cat:?}"),
                ));
            }
        }
    }
    // formatted writes of the same text: as one `&str` argument, character by character as `char` arguments, and
    // through a `Display` impl that hands the formatter one character at a time
    struct ByChar<'a>(&'a str);
    impl std::fmt::Display for ByChar<'_> {
        fn fmt(&self, f: &mut std::fmt::Formatter<'_>) -> std::fmt::Result {
            use std::fmt::Write as _;
            self.0.chars().try_for_each(|c| f.write_char(c))
        }
    }
    for how in ["write!(\"{}\", &str)", "write!(\"{}\", char) per character", "write!(\"{}\", Display using write_char)"] {
        let mut s = anstream::StripStream::new(Vec::new());
        let mut a = anstream::AutoStream::never(Vec::new());
        let r = match how.as_bytes()[13] {
            b'&' => write!(s, "{}", input).and_then(|_| write!(a, "{}", input)),
            b'c' => input.chars().try_for_each(|c| write!(s, "{}", c).and_then(|_| write!(a, "{}", c))),
            _ => write!(s, "{}", ByChar(input)).and_then(|_| write!(a, "{}", ByChar(input))),
        };
        r.map_err(|e| (format!("StripStream.{how}"), format!("error {e}")))?;
        for (name, out) in [("StripStream", s.into_inner()), ("AutoStream::never", a.into_inner())] {
            let mut m = StripModel::default();
            m.check_output(input.as_bytes(), &out).map_err(|m| (format!("{name}.{how}"), format!("{m} (output {})", show(&out))))?;
        }
    }
    Ok(())
}

fn finding(system: &str, clause: &str, case: Vec<String>, msg: String, replay: serde_json::Value) -> Finding {
    Finding { system: system.into(), clause: clause.into(), case, message: msg, replay }
}

pub fn clause_of(m: &str) -> String {
    for (pat, c) in [
        ("panic:", "panic"),
        ("forbidden control byte", "forbidden-byte-in-output"),
        ("forbidden byte", "forbidden-byte-in-output"),
        ("not visible text was emitted", "non-visible-byte-emitted"),
        ("was dropped", "visible-byte-dropped"),
        ("not kept whole", "character-not-kept-whole"),
        ("does not lie inside", "piece-outside-input"),
        ("overlap", "pieces-overlap"),
        ("not valid UTF-8", "piece-not-utf8"),
        ("empty piece", "empty-piece"),
        ("surplus", "surplus-output"),
        ("!=", "paths-disagree"),
        ("ended early", "paths-disagree"),
    ] {
        if m.contains(pat) {
            return c.to_string();
        }
    }
    "other".to_string()
}

fn main_check(ctx: &Ctx) -> Outcome {
    let mut out = Outcome::default();
    // the functions under test must not consult the environment: a few representative inputs under a cleared and two
    // hostile settings of the colour-related variables (before any worker thread exists)
    fn env_digest() -> Vec<String> {
        ["plain", "a\x1b[1;31mb\x1b[0m c", "\x1b]0;t\x07x\x1bP1q#\x1b\\y", "\u{e9}\x1b[mz"].iter().map(|t| { let mut s = anstream::StripStream::new(Vec::new()); let _ = s.write_all(t.as_bytes()); let mut a = anstream::AutoStream::never(Vec::new()); let _ = a.write_all(t.as_bytes()); format!("{}|{:?}|{:?}|{:?}", strip_str(t), strip_bytes(t.as_bytes()).into_vec(), s.into_inner(), a.into_inner()) }).collect::<Vec<String>>()
    }
    if let Err(m) = vexplore::util::env_independence(env_digest) {
        out.findings.push(Finding {
            system: "strip adapters".into(),
            clause: "environment-dependence".into(),
            case: vec!["representative inputs".into()],
            message: m.chars().take(900).collect(),
            replay: serde_json::json!({"kind":"env"}),
        });
    }
    let quick = ctx.quick();
    // (0) the lock()ed strip streams over the real stdout/stderr (single-threaded, first): what was written before
    //     and after lock() together must come out as the stripped form, for every cut position
    {
        let (n, bad) = vchecks::stdio_sys::lock_chunking_violations();
        for (case, message) in bad.into_iter().take(20) {
            out.findings.push(finding("StripStream/AutoStream::never over real stdio: write_all; lock(); write_all", "output-differs-from-model", vec![case], message, json!({"kind":"lock"})));
        }
        out.push_part(json!({"system":"write_all; lock(); write_all over the real stdout/stderr redirected to files, every cut position","cases":n}));
    }
    let (alpha, nclasses) = class_alphabet();
    let reps = class_reps();
    out.set("byte_classes", json!(nclasses));
    out.set("class_alphabet_size", json!(alpha.len()));

    // (1) all 256 bytes, byte at a time, to fixpoint
    let sys256 = StripBytesSys { tokens: (0..=255u8).map(|b| vec![b]).collect(), label: "StripBytes::strip_next/256-bytes".into() };
    let (states256, rep) = bfs::reachable_states(&sys256, &Limits::depth(64));
    out.add_bfs(&rep);
    out.findings.extend(bfs_findings(&rep, clause_of));
    let fix256 = rep.fixpoint();

    // StripStr over characters, to fixpoint
    let chars = char_alphabet();
    // the text API has no 256-symbol fixpoint of its own: give its BFS every ASCII character
    let chars_full: Vec<String> = (0u8..0x80).map(|b| (b as char).to_string()).chain(['é', '世', '😀', '\u{9c}', '\u{80}', '\u{85}', '\u{a0}', '\u{2705}', '\u{71c}'].iter().map(|c| c.to_string())).collect();
    let sys_str = StripStrSys { tokens: chars_full.clone() };
    let (states_str, rep) = bfs::reachable_states(&sys_str, &Limits::depth(64));
    out.add_bfs(&rep);
    out.findings.extend(bfs_findings(&rep, clause_of));
    let fix_str = rep.fixpoint();

    // class alphabet, byte at a time: the start states for the chunk sweeps
    let sys_cls = StripBytesSys { tokens: alpha.iter().map(|&b| vec![b]).collect(), label: "StripBytes::strip_next/class-bytes".into() };
    let (states_cls, rep) = bfs::reachable_states(&sys_cls, &Limits::depth(64));
    out.add_bfs(&rep);
    out.findings.extend(bfs_findings(&rep, clause_of));

    // (2) chunks of <= n symbols from every class-reachable state
    let n_named = if quick { 3 } else { 4 };
    let evals = AtomicU64::new(0);
    let distinct_out = std::sync::Mutex::new(std::collections::HashSet::<u64>::new());
    let viol = std::sync::Mutex::new(Vec::<Finding>::new());
    let sweep = |label: &str, syms: &[u8], n: usize, starts: &[(StripBytes, StripModel)], trace_hint: &str| {
        let chunks: Vec<Vec<u8>> = strings_upto(syms.len(), n).filter(|c| !c.is_empty()).map(|c| c.iter().map(|&i| syms[i]).collect()).collect();
        chunks.par_iter().for_each(|chunk| {
            let mut local = std::collections::HashSet::new();
            for (si, st) in starts.iter().enumerate() {
                let (mut imp, mut model) = st.clone();
                evals.fetch_add(1, Ordering::Relaxed);
                match guard(|| run_strip_bytes(&mut imp, &mut model, chunk)).and_then(|r| r) {
                    Ok(o) => {
                        local.insert(hash_of(&(o, format!("{imp:?}"))));
                    }
                    Err(m) => {
                        let mut v = viol.lock().unwrap();
                        if v.len() < 200 {
                            v.push(finding(
                                label,
                                &clause_of(&m),
                                vec![format!("{trace_hint}{si}:{:?}", st.0), hex(chunk)],
                                m,
                                json!({"kind":"chunk-from-state","start_set":trace_hint,"start":si,"chunk":hex(chunk)}),
                            ));
                        }
                    }
                }
            }
            distinct_out.lock().unwrap().extend(local);
        });
        chunks.len()
    };
    let nchunks = sweep("StripBytes::strip_next/chunk", &alpha, n_named, &states_cls, "cls");
    out.push_part(json!({"system":"StripBytes::strip_next/chunk","symbols":alpha.len(),"max_chunk_len":n_named,"chunks":nchunks,"start_states":states_cls.len()}));
    // every chunk of <= 2 bytes over all 256 byte values from every byte-reachable state: a byte the code singles out
    // without the state table or the named predicates knowing (so that it has no class of its own) still meets every
    // neighbour inside one chunk
    {
        let all: Vec<u8> = (0..=255u8).collect();
        // (the byte-reachable states differ from the class-reachable ones only in the code point bits the UTF-8 decoder
        // has collected; the thorough tier starts from all of them)
        let (starts, hint) = if quick { (&states_cls, "cls") } else { (&states256, "all") };
        let nch = sweep("StripBytes::strip_next/chunk", &all, 2, starts, hint);
        out.push_part(json!({"system":"StripBytes::strip_next/chunk(all 256 byte values)","symbols":256,"max_chunk_len":2,"chunks":nch,"start_states":starts.len(),"start_set":hint}));
    }
    if !quick {
        // longer chunks over the bare class representatives, and every byte-reachable start state for n<=3
        let n5 = 5;
        let nch = sweep("StripBytes::strip_next/chunk", &reps, n5, &states_cls[..1], "cls");
        out.push_part(json!({"system":"StripBytes::strip_next/chunk(class reps, from Ground)","symbols":reps.len(),"max_chunk_len":n5,"chunks":nch,"start_states":1}));
        let nch = sweep("StripBytes::strip_next/chunk", &reps, 3, &states256, "all");
        out.push_part(json!({"system":"StripBytes::strip_next/chunk(class reps, from all byte-reachable states)","symbols":reps.len(),"max_chunk_len":3,"chunks":nch,"start_states":states256.len()}));
    }

    // one-shot APIs and streams from Ground
    let n_one = if quick { 3 } else { 4 };
    let inputs: Vec<Vec<u8>> = strings_upto(alpha.len(), n_one).map(|c| c.iter().map(|&i| alpha[i]).collect()).collect();
    inputs.par_iter().for_each(|inp| {
        evals.fetch_add(1, Ordering::Relaxed);
        if let Err((sys, m)) = guard(|| oneshot_bytes(inp)).unwrap_or_else(|p| Err(("strip_bytes/streams".to_string(), p))) {
            let mut v = viol.lock().unwrap();
            if v.len() < 200 {
                v.push(finding(&sys, &clause_of(&m), vec![hex(inp)], m, json!({"kind":"oneshot-bytes","input":hex(inp)})));
            }
        }
    });
    out.push_part(json!({"system":"strip_bytes / StripStream / AutoStream::never one-shot","inputs":inputs.len(),"max_len":n_one}));
    // ... and every input of <= 2 bytes over all 256 byte values, also between two letters (a fast path keyed on a
    // byte value in the stream layer, not the adapter, is exercised too)
    {
        let all2: Vec<Vec<u8>> = (0..=255u8).map(|a| vec![a]).chain((0..=255u8).flat_map(|a| (0..=255u8).map(move |b| vec![a, b]))).collect();
        all2.par_iter().for_each(|p| {
            for inp in [p.clone(), [&b"x"[..], &p[..], b"y"].concat()] {
                evals.fetch_add(1, Ordering::Relaxed);
                if let Err((sys, m)) = guard(|| oneshot_bytes(&inp)).unwrap_or_else(|p| Err(("strip_bytes/streams".to_string(), p))) {
                    let mut v = viol.lock().unwrap();
                    if v.len() < 200 {
                        v.push(finding(&sys, &clause_of(&m), vec![hex(&inp)], m, json!({"kind":"oneshot-bytes","input":hex(&inp)})));
                    }
                }
            }
        });
        out.push_part(json!({"system":"strip_bytes / StripStream / AutoStream::never one-shot, all inputs of <= 2 bytes over 256 values, bare and between letters","inputs":all2.len() * 2}));
    }

    // (3) text APIs: chunks of <= n chars from every reachable StripStr state; one-shot strip_str
    let n_str = if quick { 3 } else { 4 };
    let mut strs: Vec<String> = strings_upto(chars.len(), n_str).map(|c| c.iter().map(|&i| chars[i].as_str()).collect::<String>()).collect();
    // every string of <= 2 characters over the full ASCII range (+ the multi-byte characters), too
    strs.extend(strings_upto(chars_full.len(), 2).map(|c| c.iter().map(|&i| chars_full[i].as_str()).collect::<String>()));
    strs.sort();
    strs.dedup();
    strs.par_iter().for_each(|s| {
        for (si, st) in states_str.iter().enumerate() {
            if s.is_empty() {
                continue;
            }
            let (mut imp, mut model) = st.clone();
            evals.fetch_add(1, Ordering::Relaxed);
            if let Err(m) = guard(|| run_strip_str(&mut imp, &mut model, s)).and_then(|r| r) {
                let mut v = viol.lock().unwrap();
                if v.len() < 200 {
                    v.push(finding(
                        "StripStr::strip_next/chunk",
                        &clause_of(&m),
                        vec![format!("str{si}:{:?}", st.0), hex(s.as_bytes())],
                        m,
                        json!({"kind":"str-chunk-from-state","start":si,"chunk":hex(s.as_bytes())}),
                    ));
                }
            }
        }
        evals.fetch_add(1, Ordering::Relaxed);
        if let Err((sys, m)) = guard(|| oneshot_str(s)).unwrap_or_else(|p| Err(("strip_str".to_string(), p))) {
            let mut v = viol.lock().unwrap();
            if v.len() < 200 {
                v.push(finding(&sys, &clause_of(&m), vec![hex(s.as_bytes())], m, json!({"kind":"oneshot-str","input":hex(s.as_bytes())})));
            }
        }
    });
    out.push_part(json!({"system":"StripStr::strip_next/chunk + strip_str one-shot","strings":strs.len(),"max_chars":n_str,"char_alphabet":chars.len(),"start_states":states_str.len()}));

    // (4) every character of the Basic Multilingual Plane (and one per 4-byte lead) inside and
    //     after every kind of sequence: ST (0x9C) and the other C1 values occur as continuation
    //     bytes of ordinary characters, e.g. U+2705 = E2 9C 85
    let prefixes: [&str; 9] = ["", "\x1b", "\x1b[", "\x1b[1", "\x1b]", "\x1bP", "\x1bP1q", "\x1b_", "\x1b "];
    let mut cps: Vec<char> = (0x80u32..=0xFFFF).filter_map(char::from_u32).collect();
    for lead in [0x10000u32, 0x1F600, 0x1F705, 0x40000, 0x80000, 0xC0000, 0x100000, 0x10FFFF] {
        cps.extend(char::from_u32(lead));
    }
    let n_bmp = cps.len();
    cps.par_iter().for_each(|&ch| {
        for pre in prefixes {
            let input = format!("{pre}{ch}m\u{7}x\x1b\\y");
            evals.fetch_add(2, Ordering::Relaxed);
            if let Err((sys, m)) = guard(|| oneshot_str(&input)).unwrap_or_else(|p| Err(("strip_str".to_string(), p))) {
                let mut v = viol.lock().unwrap();
                if v.len() < 200 {
                    v.push(finding(&sys, &clause_of(&m), vec![hex(input.as_bytes())], m, json!({"kind":"oneshot-str","input":hex(input.as_bytes())})));
                }
            }
            if let Err((sys, m)) = guard(|| oneshot_bytes(input.as_bytes())).unwrap_or_else(|p| Err(("strip_bytes/streams".to_string(), p))) {
                let mut v = viol.lock().unwrap();
                if v.len() < 200 {
                    v.push(finding(&sys, &clause_of(&m), vec![hex(input.as_bytes())], m, json!({"kind":"oneshot-bytes","input":hex(input.as_bytes())})));
                }
            }
            // and split between the prefix and the character through the incremental text API
            let (mut imp, mut model) = (StripStr::new(), StripModel::default());
            let r = guard(|| {
                run_strip_str(&mut imp, &mut model, pre)?;
                run_strip_str(&mut imp, &mut model, &input[pre.len()..])
            })
            .and_then(|r| r);
            if let Err(m) = r {
                let mut v = viol.lock().unwrap();
                if v.len() < 200 {
                    v.push(finding("StripStr::strip_next/chunk", &clause_of(&m), vec![hex(pre.as_bytes()), hex(input[pre.len()..].as_bytes())], m, json!({"kind":"oneshot-str","input":hex(input.as_bytes())})));
                }
            }
        }
    });
    out.push_part(json!({"system":"every BMP character after each of 9 sequence prefixes (strip_str, strip_bytes, streams, StripStr split)","characters":n_bmp,"prefixes":prefixes.len()}));

    // (4b) medium-length inputs in every kind of parser state: a sequence prefix, optionally a whitespace control
    //      (printable even inside a sequence), k plain bytes (k = 0..=40: block-wise fast paths of 4/8/16/32 bytes),
    //      a multi-byte character, a tail - through the text and byte one-shot APIs and the incremental text API cut
    //      after the prefix
    {
        let prefixes: [&str; 10] = ["", "\x1b", "\x1b[", "\x1b[1", "\x1b[1;", "\x1b]", "\x1b]0;t", "\x1bP", "\x1bP1q", "\x1b_"];
        let cases: Vec<(usize, usize)> = (0..prefixes.len()).flat_map(|p| (0..=40usize).map(move |k| (p, k))).collect();
        let n_medium = std::sync::atomic::AtomicU64::new(0);
        cases.par_iter().for_each(|&(pi, k)| {
            let pre = prefixes[pi];
            for ws in ["", "\n", "\t", "\r", "\x0c"] {
                for ch in ['\u{e9}', '\u{4e16}', '\u{1f600}', 'z'] {
                    for (mid, tail) in [("", ""), ("", "b"), ("", "bbbbbbbbbbbbbbbbbbbbm\x07x"), ("\x18", "b"), ("\x1a", "bbbbbbbbbbbbbbbbbbbbm\x07x"), ("\x07", "bb")] {
                        let input = format!("{pre}{ws}{}{mid}{ch}{tail}", "a".repeat(k));
                        n_medium.fetch_add(1, Ordering::Relaxed);
                        evals.fetch_add(3, Ordering::Relaxed);
                        let mut errs: Vec<(String, String)> = vec![];
                        if let Err(e) = guard(|| oneshot_str(&input)).unwrap_or_else(|p| Err(("strip_str".to_string(), p))) {
                            errs.push(e);
                        }
                        if let Err(e) = guard(|| oneshot_bytes(input.as_bytes())).unwrap_or_else(|p| Err(("strip_bytes/streams".to_string(), p))) {
                            errs.push(e);
                        }
                        let (mut imp, mut model) = (StripStr::new(), StripModel::default());
                        let r = guard(|| {
                            run_strip_str(&mut imp, &mut model, pre)?;
                            run_strip_str(&mut imp, &mut model, &input[pre.len()..])
                        })
                        .and_then(|r| r);
                        if let Err(m) = r {
                            errs.push(("StripStr::strip_next/chunk".to_string(), m));
                        }
                        let (mut impb, mut modelb) = (StripBytes::new(), StripModel::default());
                        let r = guard(|| {
                            run_strip_bytes(&mut impb, &mut modelb, pre.as_bytes())?;
                            run_strip_bytes(&mut impb, &mut modelb, &input.as_bytes()[pre.len()..])
                        })
                        .and_then(|r| r);
                        if let Err(m) = r {
                            errs.push(("StripBytes::strip_next/chunk".to_string(), m));
                        }
                        for (sys, m) in errs {
                            let mut v = viol.lock().unwrap();
                            if v.len() < 200 {
                                v.push(finding(&sys, &clause_of(&m), vec![hex(input.as_bytes())], m, json!({"kind":"oneshot-str","input":hex(input.as_bytes())})));
                            }
                        }
                    }
                }
            }
        });
        out.push_part(json!({"system":"medium-length inputs: 10 prefixes x 5 whitespace controls x 0..=40 plain bytes x 4 characters x 6 (terminator, tail) pairs (strip_str, strip_bytes, streams, StripStr and StripBytes split after the prefix)","inputs":n_medium.load(Ordering::Relaxed)}));
    }

    // (5) large inputs (around the 4/8/16/64 KiB marks), the unit shifted over every offset: one-shot APIs and
    //     streams, and the incremental APIs with the input cut at 8192 (and at 1000)
    {
        use vchecks::fault_sys::LARGE_UNIT;
        let sizes: Vec<usize> = if quick { vec![8191, 8192, 8193, 20000] } else { vec![4095, 4096, 4097, 8191, 8192, 8193, 16384, 16385, 20000, 65535, 65537, 131073] };
        let cases: Vec<(usize, usize)> = sizes.iter().flat_map(|&n| (0..LARGE_UNIT.len()).map(move |s| (n, s))).collect();
        cases.par_iter().for_each(|&(n, shift)| {
            evals.fetch_add(3, Ordering::Relaxed);
            let brief = |m: String| -> String { if m.len() > 600 { format!("{} ...", m.chars().take(600).collect::<String>()) } else { m } };
            let errs = large_case(n, shift);
            for (sys, m) in errs {
                let mut v = viol.lock().unwrap();
                if v.len() < 200 {
                    let m = brief(m);
                    v.push(finding(&format!("{sys}/large"), &clause_of(&m), vec![format!("{n} bytes, unit shifted by {shift}")], m, json!({"kind":"large","n":n,"shift":shift})));
                }
            }
        });
        out.push_part(json!({"system":"large inputs: strip_bytes, strip_str, streams one-shot; StripBytes cut every 8192 / 1000 bytes","sizes":sizes,"unit":LARGE_UNIT,"shifts":LARGE_UNIT.len()}));
    }

    let mut v = viol.into_inner().unwrap();
    v.sort_by(|a, b| (a.case.iter().map(|c| c.len()).sum::<usize>(), a.key()).cmp(&(b.case.iter().map(|c| c.len()).sum::<usize>(), b.key())));
    out.findings.extend(v);
    let ev = evals.load(Ordering::Relaxed);
    out.set("evaluations", json!(ev));
    out.set("distinct_nontrivial", json!(distinct_out.lock().unwrap().len()));
    out.set("rule", json!("evaluations = chunk/one-shot runs beyond the BFS transitions; distinct_nontrivial = distinct (output, end state) pairs of the chunk sweeps"));
    out.set("exhaustive", json!(fix256 && fix_str));
    out.set("explanation", json!("256-byte BFS and StripStr BFS ran to fixpoint (frontier empty): byte-at-a-time / char-at-a-time behaviour is covered for inputs of any length; chunk sweeps are exhaustive up to the stated chunk length over the class alphabet"));
    out.push_sample(json!({"chunk_example": hex(b"\x1b[3\n2mx"), "meaning":"CSI with LF inside, then text"}));
    out.assume("the strip code distinguishes bytes only through the state table, the listed predicates and the named bytes (class alphabet); the 256-byte fixpoint does not rely on this");
    out.assume("bytes >= 0x80 that are not part of a well-formed character in Ground are unconstrained (may be kept or dropped)");
    out
}

fn replay(v: &serde_json::Value) -> Result<(), String> {
    let (alpha, _) = class_alphabet();
    match v["kind"].as_str().unwrap_or("") {
        "bfs" => {
            let sysname = v["system"].as_str().unwrap_or("");
            let labels: Vec<String> = v["labels"].as_array().map(|a| a.iter().map(|x| x.as_str().unwrap().to_string()).collect()).unwrap_or_default();
            if sysname.starts_with("StripStr") {
                let mut imp = StripStr::new();
                let mut model = StripModel::default();
                for l in labels {
                    let b = unhex(&l);
                    run_strip_str(&mut imp, &mut model, std::str::from_utf8(&b).unwrap())?;
                }
            } else {
                let mut imp = StripBytes::new();
                let mut model = StripModel::default();
                for l in labels {
                    run_strip_bytes(&mut imp, &mut model, &unhex(&l))?;
                }
            }
            Ok(())
        }
        "chunk-from-state" => {
            let set = v["start_set"].as_str().unwrap_or("cls");
            let sys = if set == "all" {
                StripBytesSys { tokens: (0..=255u8).map(|b| vec![b]).collect(), label: "x".into() }
            } else {
                StripBytesSys { tokens: alpha.iter().map(|&b| vec![b]).collect(), label: "x".into() }
            };
            let (states, _) = bfs::reachable_states(&sys, &Limits::depth(64));
            let (mut imp, mut model) = states[v["start"].as_u64().unwrap() as usize].clone();
            run_strip_bytes(&mut imp, &mut model, &unhex(v["chunk"].as_str().unwrap())).map(|_| ())
        }
        "oneshot-bytes" => oneshot_bytes(&unhex(v["input"].as_str().unwrap())).map_err(|(s, m)| format!("{s}: {m}")),
        "oneshot-str" => {
            let b = unhex(v["input"].as_str().unwrap());
            oneshot_str(std::str::from_utf8(&b).unwrap()).map_err(|(s, m)| format!("{s}: {m}"))
        }
        "str-chunk-from-state" => {
            let sys = StripStrSys { tokens: (0u8..0x80).map(|b| (b as char).to_string()).chain(['é', '世', '😀', '\u{9c}', '\u{80}', '\u{85}', '\u{a0}', '\u{2705}', '\u{71c}'].iter().map(|c| c.to_string())).collect() };
            let (states, _) = bfs::reachable_states(&sys, &Limits::depth(64));
            let (mut imp, mut model) = states[v["start"].as_u64().unwrap() as usize].clone();
            let b = unhex(v["chunk"].as_str().unwrap());
            run_strip_str(&mut imp, &mut model, std::str::from_utf8(&b).unwrap()).map(|_| ())
        }
        "lock" => match vchecks::stdio_sys::lock_chunking_violations().1.first() {
            Some((c, m)) => Err(format!("{c}: {m}")),
            None => Ok(()),
        },
        "large" => match large_case(v["n"].as_u64().unwrap_or(0) as usize, v["shift"].as_u64().unwrap_or(0) as usize).into_iter().next() {
            Some((sys, m)) => Err(format!("{sys}: {}", m.chars().take(600).collect::<String>())),
            None => Ok(()),
        },
        "env" => Err("environment-dependence findings are replayed by re-running the check".into()),
        k => Err(format!("unknown replay kind {k}")),
    }
}

fn main() {
    run_check("C01", "model_checking", main_check, replay);
}
