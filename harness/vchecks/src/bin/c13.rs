//! C13 - Style, effects and colour values obey their algebra.
//!
//! (1) E1: product BFS real `Effects` x `BTreeSet<u8>` over insert/remove/
//!     set(.,true)/set(.,false)/`|`/`-`/`|=`/`-=` with each of the twelve
//!     effects and `clear`, from `Effects::new()`, to fixpoint (all 4096
//!     states).  In every reached state: `is_plain`, `contains` of every single
//!     effect, `iter` (exact members, declaration order), `Debug` names.
//!     The state count is cross-checked by an independent plain worklist search.
//! (2) E3: all 4096 x 4096 pairs (a, b) of reached values: `contains`,
//!     `insert`, `remove`, `set`, `|`, `-`, `|=`, `-=`, `Style == Effects`.
//! (3) E1: product BFS real `Style` x record model over the colour setters (a
//!     small colour set per slot), `effects(..)`, the eight convenience methods,
//!     `|`/`-`/`|=`/`-=` with each effect; getters, `is_plain`, `Style == Effects`
//!     compared in every state.
//! (4) E3: all 16 colours x bright(true)/bright(false)/is_bright, all 256
//!     indices x into_ansi/from_ansi.

use anstyle::{Ansi256Color, AnsiColor, Color, Effects, RgbColor, Style};
use rayon::prelude::*;
use serde_json::{json, Value};
use std::collections::{BTreeMap, BTreeSet, HashSet};
use std::sync::atomic::{AtomicU64, Ordering};
use std::sync::Mutex;
use vexplore::bfs::{self, Limits, System};
use vexplore::evidence::*;
use vexplore::util::*;

/// the twelve public constants in declaration order, with their names
const FX: [(Effects, &str); 12] = [
    (Effects::BOLD, "BOLD"),
    (Effects::DIMMED, "DIMMED"),
    (Effects::ITALIC, "ITALIC"),
    (Effects::UNDERLINE, "UNDERLINE"),
    (Effects::DOUBLE_UNDERLINE, "DOUBLE_UNDERLINE"),
    (Effects::CURLY_UNDERLINE, "CURLY_UNDERLINE"),
    (Effects::DOTTED_UNDERLINE, "DOTTED_UNDERLINE"),
    (Effects::DASHED_UNDERLINE, "DASHED_UNDERLINE"),
    (Effects::BLINK, "BLINK"),
    (Effects::INVERT, "INVERT"),
    (Effects::HIDDEN, "HIDDEN"),
    (Effects::STRIKETHROUGH, "STRIKETHROUGH"),
];

/// the sixteen colours in palette order (independent table)
const ANSI: [AnsiColor; 16] = [
    AnsiColor::Black,
    AnsiColor::Red,
    AnsiColor::Green,
    AnsiColor::Yellow,
    AnsiColor::Blue,
    AnsiColor::Magenta,
    AnsiColor::Cyan,
    AnsiColor::White,
    AnsiColor::BrightBlack,
    AnsiColor::BrightRed,
    AnsiColor::BrightGreen,
    AnsiColor::BrightYellow,
    AnsiColor::BrightBlue,
    AnsiColor::BrightMagenta,
    AnsiColor::BrightCyan,
    AnsiColor::BrightWhite,
];

type Set = BTreeSet<u8>;

fn set_names(s: &Set) -> String {
    if s.is_empty() {
        "{}".into()
    } else {
        format!("{{{}}}", s.iter().map(|&i| FX[i as usize].1).collect::<Vec<_>>().join(","))
    }
}

fn set_of_bits(bits: u16) -> Set {
    (0..12u8).filter(|i| bits & (1 << i) != 0).collect()
}

fn bits_of_set(s: &Set) -> u16 {
    s.iter().fold(0, |a, &i| a | (1 << i))
}

/// Everything observable about an `Effects` value, compared with the model set.
fn observe_effects(e: Effects, model: &Set) -> Result<(), String> {
    let name = set_names(model);
    if e.is_plain() != model.is_empty() {
        return Err(format!("is_plain() = {} for the set {name}", e.is_plain()));
    }
    for (i, (f, fname)) in FX.iter().enumerate() {
        let exp = model.contains(&(i as u8));
        if e.contains(*f) != exp {
            return Err(format!("contains({fname}) = {} for the set {name}", !exp));
        }
    }
    // iteration: exactly the members, in declaration order
    let items: Vec<Effects> = e.iter().collect();
    let exp_items: Vec<Effects> = model.iter().map(|&i| FX[i as usize].0).collect();
    if items != exp_items {
        return Err(format!("iter() yields {:?} for the set {name}, expected {:?}", items, exp_items));
    }
    // ... through every way the Iterator protocol can drain it: after k calls of next() the rest, taken by a `for`
    // loop, by fold-based consumers (for_each, count, last, fold), by nth / skip, by a clone of the iterator, must
    // be exactly the remaining members in order; a size_hint, where given, must bracket the true count; an exhausted
    // iterator stays exhausted
    for k in 0..=exp_items.len() {
        let advanced = || {
            let mut it = e.iter();
            for _ in 0..k {
                it.next();
            }
            it
        };
        let rest = &exp_items[k..];
        let via_loop: Vec<Effects> = {
            let mut v = vec![];
            for x in advanced() {
                v.push(x);
            }
            v
        };
        let mut via_for_each = vec![];
        advanced().for_each(|x| via_for_each.push(x));
        let via_fold = advanced().fold(vec![], |mut v, x| {
            v.push(x);
            v
        });
        let via_clone: Vec<Effects> = advanced().clone().collect();
        let count = advanced().count();
        let last = advanced().last();
        let (lo, hi) = advanced().size_hint();
        for (how, got) in [("for loop", &via_loop), ("for_each", &via_for_each), ("fold", &via_fold), ("clone().collect()", &via_clone)] {
            if got.as_slice() != rest {
                return Err(format!("iter() yields {got:?} through {how} after {k} call(s) of next() for the set {name}, expected {rest:?}"));
            }
        }
        if count != rest.len() || last != rest.last().copied() || lo > rest.len() || hi.map_or(false, |h| h < rest.len()) {
            return Err(format!("iter() yields count {count}, last {last:?}, size_hint ({lo}, {hi:?}) after {k} call(s) of next() for the set {name}, expected {} remaining member(s) {rest:?}", rest.len()));
        }
        for n in 0..=rest.len() {
            if advanced().nth(n) != rest.get(n).copied() || advanced().skip(n).next() != rest.get(n).copied() {
                return Err(format!("iter() yields nth({n}) = {:?}, skip({n}).next() = {:?} after {k} call(s) of next() for the set {name}, expected {:?}", advanced().nth(n), advanced().skip(n).next(), rest.get(n)));
            }
        }
    }
    {
        let mut it = e.iter();
        while it.next().is_some() {}
        if it.next().is_some() || it.next().is_some() {
            return Err(format!("iter() yields another item after returning None for the set {name}"));
        }
    }
    // debug form: names exactly the members (punctuation is not prescribed)
    // ... whatever width, fill, alignment or precision the caller's format spec carries (a derived Debug of a struct
    // holding an Effects hands its spec down); fills are punctuation, so padding cannot add or hide a name
    let forms: [(&str, String); 8] = [
        ("{:?}", format!("{e:?}")),
        ("{:#?}", format!("{e:#?}")),
        ("{:.2?}", format!("{e:.2?}")),
        ("{:14?}", format!("{e:14?}")),
        ("{:.0?}", format!("{e:.0?}")),
        ("{:*>9.3?}", format!("{e:*>9.3?}")),
        ("{:-^40?}", format!("{e:-^40?}")),
        ("{:#<3.1?}", format!("{e:#<3.1?}")),
    ];
    let mut exp_names: Vec<&str> = model.iter().map(|&i| FX[i as usize].1).collect();
    exp_names.sort();
    for (spec, dbg) in &forms {
        let mut named: Vec<&str> = dbg.split(|c: char| !(c.is_ascii_alphanumeric() || c == '_')).filter(|t| !t.is_empty() && *t != "Effects").collect();
        named.sort();
        if named != exp_names {
            return Err(format!("Debug text {dbg:?} (format spec {spec}) names {named:?} for the set {name}"));
        }
    }
    Ok(())
}

// ---------------------------------------------------------------------------
// (1) Effects BFS
// ---------------------------------------------------------------------------

const EFFECT_OPS: [&str; 8] = ["insert", "remove", "set-true", "set-false", "bitor", "sub", "bitor-assign", "sub-assign"];

struct EffectsSys;

fn apply_effect_op(e: Effects, op: usize, f: Effects) -> Effects {
    match op {
        0 => e.insert(f),
        1 => e.remove(f),
        2 => e.set(f, true),
        3 => e.set(f, false),
        4 => e | f,
        5 => e - f,
        6 => {
            let mut x = e;
            x |= f;
            x
        }
        _ => {
            let mut x = e;
            x -= f;
            x
        }
    }
}

/// is `op` an adding operation
fn op_adds(op: usize) -> bool {
    matches!(op, 0 | 2 | 4 | 6)
}

impl System for EffectsSys {
    type State = (Effects, Set);
    fn name(&self) -> String {
        "Effects/ops".into()
    }
    fn alphabet_len(&self) -> usize {
        12 * EFFECT_OPS.len() + 1
    }
    fn token_label(&self, t: usize) -> String {
        if t == 12 * EFFECT_OPS.len() {
            "clear".into()
        } else {
            format!("{}({})", EFFECT_OPS[t / 12], FX[t % 12].1)
        }
    }
    fn init(&self) -> Vec<Self::State> {
        vec![(Effects::new(), Set::new())]
    }
    fn key(&self, s: &Self::State) -> u64 {
        hash_of(s)
    }
    fn step(&self, s: &Self::State, t: usize) -> Result<(Self::State, u64), String> {
        let (e, mut m) = s.clone();
        let e2 = if t == 12 * EFFECT_OPS.len() {
            m.clear();
            e.clear()
        } else {
            let (op, i) = (t / 12, t % 12);
            if op_adds(op) {
                m.insert(i as u8);
            } else {
                m.remove(&(i as u8));
            }
            apply_effect_op(e, op, FX[i].0)
        };
        observe_effects(e2, &m)?;
        Ok(((e2, m.clone()), bits_of_set(&m) as u64))
    }
}

/// Independent count of the values reachable from `Effects::new()` under the same operations:
/// a plain worklist over a `HashSet<Effects>` (no product, no model, no vexplore).
fn independent_effects_count() -> usize {
    let mut seen: HashSet<Effects> = HashSet::new();
    let mut work = vec![Effects::new()];
    seen.insert(Effects::new());
    while let Some(e) = work.pop() {
        let mut succ = vec![e.clear()];
        for (f, _) in FX {
            for op in 0..EFFECT_OPS.len() {
                succ.push(apply_effect_op(e, op, f));
            }
        }
        for n in succ {
            if seen.insert(n) {
                work.push(n);
            }
        }
    }
    seen.len()
}

// ---------------------------------------------------------------------------
// (2) all pairs
// ---------------------------------------------------------------------------

const PAIR_OPS: [&str; 11] =
    ["contains", "insert", "remove", "set-true", "set-false", "bitor", "sub", "bitor-assign", "sub-assign", "style-eq-effects", "style-from-eq"];

/// check one ordered pair; `canon[bits]` is the BFS-reached real value of the set `bits`.
/// Returns the bit mask of failing PAIR_OPS (messages are built by `pair_message` for recorded cases only).
fn check_pair(canon: &[Effects], a: u16, b: u16) -> u16 {
    let mut bad = 0u16;
    let (ea, eb) = (canon[a as usize], canon[b as usize]);
    // contains = subset
    let exp = (b & !a) == 0;
    if ea.contains(eb) != exp {
        bad |= 1;
    }
    let union = a | b;
    let diff = a & !b;
    for op in 0..8usize {
        let r = apply_effect_op(ea, op, eb);
        let exp_bits = if op_adds(op) { union } else { diff };
        if r != canon[exp_bits as usize] {
            bad |= 1 << (op + 1);
        }
    }
    // a style equals an effects value exactly when it has those effects and no colours
    let sa = Style::new().effects(ea);
    if (sa == eb) != (a == b) {
        bad |= 1 << 9;
    }
    let sf: Style = ea.into();
    if (sf == eb) != (a == b) || sf != sa {
        bad |= 1 << 10;
    }
    bad
}

fn pair_message(canon: &[Effects], a: u16, b: u16, op: usize) -> String {
    let (ea, eb) = (canon[a as usize], canon[b as usize]);
    let desc = format!("a = {}, b = {}", set_names(&set_of_bits(a)), set_names(&set_of_bits(b)));
    match op {
        0 => format!("a.contains(b) = {} ({desc})", ea.contains(eb)),
        1..=8 => {
            let r = apply_effect_op(ea, op - 1, eb);
            let exp_bits = if op_adds(op - 1) { a | b } else { a & !b };
            format!("result {:?}, expected the set {} ({desc})", r, set_names(&set_of_bits(exp_bits)))
        }
        9 => format!("Style::new().effects(a) == b is {} ({desc})", Style::new().effects(ea) == eb),
        _ => {
            let sf: Style = ea.into();
            format!("Style::from(a) == b is {}, Style::from(a) == Style::new().effects(a) is {} ({desc})", sf == eb, sf == Style::new().effects(ea))
        }
    }
}

// ---------------------------------------------------------------------------
// (3) Style BFS
// ---------------------------------------------------------------------------

#[derive(Clone, Copy, Debug, PartialEq, Eq, Hash)]
struct StyleRec {
    fg: Option<Color>,
    bg: Option<Color>,
    ul: Option<Color>,
    fx: [bool; 12],
}

impl StyleRec {
    fn new() -> Self {
        StyleRec { fg: None, bg: None, ul: None, fx: [false; 12] }
    }
    fn bits(&self) -> u16 {
        (0..12).fold(0, |a, i| a | ((self.fx[i] as u16) << i))
    }
    fn describe(&self) -> String {
        format!("fg={:?} bg={:?} ul={:?} effects={}", self.fg, self.bg, self.ul, set_names(&set_of_bits(self.bits())))
    }
}

#[derive(Clone, Debug)]
enum StyleTok {
    Fg(Option<Color>),
    Bg(Option<Color>),
    Ul(Option<Color>),
    Effects(u16),
    /// convenience method: (name, index of the effect it names)
    Conv(&'static str, usize),
    BitOr(usize),
    Sub(usize),
    BitOrAssign(usize),
    SubAssign(usize),
}

struct StyleSys {
    toks: Vec<StyleTok>,
    /// canon[bits] = the real Effects value of the set `bits` (from the Effects BFS)
    canon: Vec<Effects>,
}

fn color_label(c: &Option<Color>) -> String {
    match c {
        None => "None".into(),
        Some(Color::Ansi(a)) => format!("{a:?}"),
        Some(Color::Ansi256(i)) => format!("Ansi256({})", i.0),
        Some(Color::Rgb(r)) => format!("Rgb({},{},{})", r.0, r.1, r.2),
    }
}

fn style_colors(thorough: bool) -> Vec<Option<Color>> {
    let mut v = vec![None, Some(Color::Ansi(AnsiColor::Black)), Some(Color::Ansi256(Ansi256Color(0))), Some(Color::Rgb(RgbColor(0, 0, 0)))];
    if thorough {
        v.extend([Some(Color::Ansi(AnsiColor::BrightWhite)), Some(Color::Rgb(RgbColor(1, 2, 3)))]);
    }
    v
}

const CONV: [(&str, usize); 8] =
    [("bold", 0), ("dimmed", 1), ("italic", 2), ("underline", 3), ("blink", 8), ("invert", 9), ("hidden", 10), ("strikethrough", 11)];

fn style_tokens(thorough: bool) -> Vec<StyleTok> {
    let mut t = vec![];
    for c in style_colors(thorough) {
        t.push(StyleTok::Fg(c));
    }
    for c in style_colors(thorough) {
        t.push(StyleTok::Bg(c));
    }
    for c in style_colors(thorough) {
        t.push(StyleTok::Ul(c));
    }
    for bits in [0u16, 0x001, 0xfff, 0x0f8, 0x800, 0x555] {
        t.push(StyleTok::Effects(bits));
    }
    for (n, i) in CONV {
        t.push(StyleTok::Conv(n, i));
    }
    for i in 0..12 {
        t.push(StyleTok::BitOr(i));
    }
    for i in 0..12 {
        t.push(StyleTok::Sub(i));
    }
    for i in 0..12 {
        t.push(StyleTok::BitOrAssign(i));
    }
    for i in 0..12 {
        t.push(StyleTok::SubAssign(i));
    }
    t
}

fn call_conv(s: Style, name: &str) -> Style {
    match name {
        "bold" => s.bold(),
        "dimmed" => s.dimmed(),
        "italic" => s.italic(),
        "underline" => s.underline(),
        "blink" => s.blink(),
        "invert" => s.invert(),
        "hidden" => s.hidden(),
        _ => s.strikethrough(),
    }
}

fn observe_style(s: Style, m: &StyleRec, canon: &[Effects]) -> Result<(), String> {
    let d = m.describe();
    if s.get_fg_color() != m.fg {
        return Err(format!("get_fg_color() = {:?}, model {d}", s.get_fg_color()));
    }
    if s.get_bg_color() != m.bg {
        return Err(format!("get_bg_color() = {:?}, model {d}", s.get_bg_color()));
    }
    if s.get_underline_color() != m.ul {
        return Err(format!("get_underline_color() = {:?}, model {d}", s.get_underline_color()));
    }
    let bits = m.bits();
    if s.get_effects() != canon[bits as usize] {
        return Err(format!("get_effects() = {:?}, model {d}", s.get_effects()));
    }
    let plain = m.fg.is_none() && m.bg.is_none() && m.ul.is_none() && bits == 0;
    if s.is_plain() != plain {
        return Err(format!("is_plain() = {}, model {d}", s.is_plain()));
    }
    // a style equals an effects value exactly when it has those effects and no colours
    let no_col = m.fg.is_none() && m.bg.is_none() && m.ul.is_none();
    if (s == canon[bits as usize]) != no_col {
        return Err(format!("style == its own effects is {}, model {d}", s == canon[bits as usize]));
    }
    for i in 0..12 {
        let other = canon[(bits ^ (1 << i)) as usize];
        if s == other {
            return Err(format!("style == {:?} is true, model {d}", other));
        }
    }
    if (s == canon[0]) != (no_col && bits == 0) {
        return Err(format!("style == Effects::new() is {}, model {d}", s == canon[0]));
    }
    Ok(())
}

impl System for StyleSys {
    type State = (Style, StyleRec);
    fn name(&self) -> String {
        "Style/ops".into()
    }
    fn alphabet_len(&self) -> usize {
        self.toks.len()
    }
    fn token_label(&self, t: usize) -> String {
        match &self.toks[t] {
            StyleTok::Fg(c) => format!("fg_color({})", color_label(c)),
            StyleTok::Bg(c) => format!("bg_color({})", color_label(c)),
            StyleTok::Ul(c) => format!("underline_color({})", color_label(c)),
            StyleTok::Effects(b) => format!("effects({})", set_names(&set_of_bits(*b))),
            StyleTok::Conv(n, _) => format!("{n}()"),
            StyleTok::BitOr(i) => format!("bitor({})", FX[*i].1),
            StyleTok::Sub(i) => format!("sub({})", FX[*i].1),
            StyleTok::BitOrAssign(i) => format!("bitor-assign({})", FX[*i].1),
            StyleTok::SubAssign(i) => format!("sub-assign({})", FX[*i].1),
        }
    }
    fn init(&self) -> Vec<Self::State> {
        vec![(Style::new(), StyleRec::new())]
    }
    fn key(&self, s: &Self::State) -> u64 {
        hash_of(s)
    }
    fn step(&self, st: &Self::State, t: usize) -> Result<(Self::State, u64), String> {
        let (s, mut m) = *st;
        let s2 = match &self.toks[t] {
            StyleTok::Fg(c) => {
                m.fg = *c;
                s.fg_color(*c)
            }
            StyleTok::Bg(c) => {
                m.bg = *c;
                s.bg_color(*c)
            }
            StyleTok::Ul(c) => {
                m.ul = *c;
                s.underline_color(*c)
            }
            StyleTok::Effects(b) => {
                for i in 0..12 {
                    m.fx[i] = b & (1 << i) != 0;
                }
                s.effects(self.canon[*b as usize])
            }
            StyleTok::Conv(n, i) => {
                m.fx[*i] = true;
                let r = call_conv(s, n);
                // "the convenience methods equal inserting the named effect"
                let via_insert = s.effects(s.get_effects().insert(FX[*i].0));
                if r != via_insert {
                    return Err(format!("{n}() gives {r:?} but inserting {} gives {via_insert:?}", FX[*i].1));
                }
                r
            }
            StyleTok::BitOr(i) => {
                m.fx[*i] = true;
                s | FX[*i].0
            }
            StyleTok::Sub(i) => {
                m.fx[*i] = false;
                s - FX[*i].0
            }
            StyleTok::BitOrAssign(i) => {
                m.fx[*i] = true;
                let mut x = s;
                x |= FX[*i].0;
                x
            }
            StyleTok::SubAssign(i) => {
                m.fx[*i] = false;
                let mut x = s;
                x -= FX[*i].0;
                x
            }
        };
        observe_style(s2, &m, &self.canon)?;
        Ok(((s2, m), hash_of(&m)))
    }
}

/// `|`, `-`, `|=`, `-=` of a style with an arbitrary effects value (not only single effects)
fn check_style_setops(canon: &[Effects], base: Style, a: u16, b: u16, want_msg: bool) -> Option<String> {
    let s = base.effects(canon[a as usize]);
    let exp_or = base.effects(canon[(a | b) as usize]);
    let exp_sub = base.effects(canon[(a & !b) as usize]);
    let eb = canon[b as usize];
    let mut x = s;
    x |= eb;
    let mut y = s;
    y -= eb;
    if (s | eb) != exp_or || x != exp_or || (s - eb) != exp_sub || y != exp_sub {
        if !want_msg {
            return Some(String::new());
        }
        return Some(format!(
            "style {:?}: | gives {:?}, |= gives {:?}, - gives {:?}, -= gives {:?} with b = {}",
            s,
            (s | eb).get_effects(),
            x.get_effects(),
            (s - eb).get_effects(),
            y.get_effects(),
            set_names(&set_of_bits(b))
        ));
    }
    None
}

// ---------------------------------------------------------------------------
// (4) colours
// ---------------------------------------------------------------------------

fn check_ansi(i: usize) -> Vec<(String, String)> {
    let mut bad = vec![];
    let c = ANSI[i];
    let up = c.bright(true);
    let down = c.bright(false);
    if up != ANSI[i | 8] {
        bad.push(("bright(true)".to_string(), format!("{c:?}.bright(true) = {up:?}, expected {:?}", ANSI[i | 8])));
    }
    if down != ANSI[i & 7] {
        bad.push(("bright(false)".to_string(), format!("{c:?}.bright(false) = {down:?}, expected {:?}", ANSI[i & 7])));
    }
    if c.is_bright() != (i >= 8) {
        bad.push(("is_bright".to_string(), format!("{c:?}.is_bright() = {}", c.is_bright())));
    }
    // projection: idempotent, lands in the right half, undone by the other toggle up to the hue
    if up.bright(true) != up || down.bright(false) != down {
        bad.push(("bright-idempotent".to_string(), format!("{c:?}: bright(true) twice = {:?}, bright(false) twice = {:?}", up.bright(true), down.bright(false))));
    }
    if !up.is_bright() || down.is_bright() {
        bad.push(("bright-is_bright".to_string(), format!("{c:?}: bright(true).is_bright() = {}, bright(false).is_bright() = {}", up.is_bright(), down.is_bright())));
    }
    if up.bright(false) != down || down.bright(true) != up {
        bad.push(("bright-hue".to_string(), format!("{c:?}: bright(true).bright(false) = {:?}, bright(false).bright(true) = {:?}", up.bright(false), down.bright(true))));
    }
    // 16 <-> 256
    let idx = Ansi256Color::from_ansi(c);
    if idx != Ansi256Color(i as u8) || idx.index() != i as u8 {
        bad.push(("from_ansi".to_string(), format!("Ansi256Color::from_ansi({c:?}) = {idx:?}")));
    }
    let idx2: Ansi256Color = c.into();
    if idx2 != Ansi256Color(i as u8) {
        bad.push(("from-AnsiColor".to_string(), format!("Ansi256Color::from({c:?}) = {idx2:?}")));
    }
    if idx.into_ansi() != Some(c) {
        bad.push(("roundtrip-16-256-16".to_string(), format!("from_ansi({c:?}).into_ansi() = {:?}", idx.into_ansi())));
    }
    bad
}

fn check_index(i: u8) -> Vec<(String, String)> {
    let mut bad = vec![];
    let got = Ansi256Color(i).into_ansi();
    let exp = if i < 16 { Some(ANSI[i as usize]) } else { None };
    if got != exp {
        bad.push(("into_ansi".to_string(), format!("Ansi256Color({i}).into_ansi() = {got:?}, expected {exp:?}")));
    }
    if let Some(a) = got {
        if Ansi256Color::from_ansi(a) != Ansi256Color(i) {
            bad.push(("roundtrip-256-16-256".to_string(), format!("from_ansi(Ansi256Color({i}).into_ansi()) = {:?}", Ansi256Color::from_ansi(a))));
        }
    }
    if Ansi256Color(i).index() != i {
        bad.push(("index".to_string(), format!("Ansi256Color({i}).index() = {}", Ansi256Color(i).index())));
    }
    bad
}

// ---------------------------------------------------------------------------

fn clause_of(m: &str) -> String {
    for (pat, c) in [
        ("is_plain()", "is_plain"),
        ("contains(", "contains"),
        ("iter() yields", "iter"),
        ("Debug text", "debug-names"),
        ("get_fg_color", "getter-fg"),
        ("get_bg_color", "getter-bg"),
        ("get_underline_color", "getter-underline"),
        ("get_effects", "getter-effects"),
        ("but inserting", "convenience-method"),
        ("style ==", "style-eq-effects"),
    ] {
        if m.contains(pat) {
            return c.to_string();
        }
    }
    "other".to_string()
}

fn main_check(ctx: &Ctx) -> Outcome {
    let mut out = Outcome::default();
    let thorough = !ctx.quick();
    let mut evals: u64 = 0;
    let mut nontrivial: u64 = 0;

    // (1) Effects BFS to fixpoint
    let (states, rep) = bfs::reachable_states(&EffectsSys, &Limits::depth(64));
    out.add_bfs(&rep);
    out.findings.extend(bfs_findings(&rep, clause_of));
    let fix_effects = rep.fixpoint();
    let nstates = states.len();
    out.set("effects_states", json!(nstates));

    // set extensionality + canonical value per set
    let mut canon_map: BTreeMap<u16, Effects> = BTreeMap::new();
    for (e, m) in &states {
        let bits = bits_of_set(m);
        match canon_map.get(&bits) {
            None => {
                canon_map.insert(bits, *e);
            }
            Some(prev) => {
                if prev != e && out.findings.len() < 200 {
                    out.findings.push(Finding {
                        system: "Effects/ops".into(),
                        clause: "extensionality".into(),
                        case: vec![set_names(m)],
                        message: format!("two reachable values with the members {} are unequal: {:?} vs {:?}", set_names(m), prev, e),
                        replay: json!({"kind":"full"}),
                    });
                }
            }
        }
    }
    // independent count of reachable values
    let indep = independent_effects_count();
    out.set("effects_states_independent_worklist", json!(indep));
    if indep != canon_map.len() || (out.findings.is_empty() && indep != nstates) {
        out.findings.push(Finding {
            system: "Effects/ops".into(),
            clause: "state-count".into(),
            case: vec![format!("bfs={nstates}"), format!("sets={}", canon_map.len()), format!("worklist={indep}")],
            message: format!("the product BFS found {nstates} states / {} distinct member sets, the independent worklist search {indep} values", canon_map.len()),
            replay: json!({"kind":"full"}),
        });
    }
    let all_sets = canon_map.len() == 4096;
    out.set("all_4096_sets_reached", json!(all_sets));

    if all_sets {
        let canon: Vec<Effects> = (0..4096u16).map(|b| canon_map[&b]).collect();

        // (2) all pairs
        let first_bad: Mutex<BTreeMap<usize, u32>> = Mutex::new(BTreeMap::new());
        let bad_total = AtomicU64::new(0);
        let n_pairs = AtomicU64::new(0);
        let n_nontrivial = AtomicU64::new(0);
        (0..4096u32).into_par_iter().for_each(|a| {
            let mut local: BTreeMap<usize, u32> = BTreeMap::new();
            let mut nbad = 0u64;
            let mut nt = 0u64;
            for b in 0..4096u32 {
                let mask = check_pair(&canon, a as u16, b as u16);
                // non-trivial: operands overlap and neither contains the other
                if a & b != 0 && a & !b != 0 && b & !a != 0 {
                    nt += 1;
                }
                if mask != 0 {
                    for op in 0..PAIR_OPS.len() {
                        if mask & (1 << op) != 0 {
                            nbad += 1;
                            local.entry(op).or_insert((a << 12) | b);
                        }
                    }
                }
            }
            n_pairs.fetch_add(4096, Ordering::Relaxed);
            n_nontrivial.fetch_add(nt, Ordering::Relaxed);
            if nbad != 0 {
                bad_total.fetch_add(nbad, Ordering::Relaxed);
                let mut fb = first_bad.lock().unwrap();
                for (op, ord) in local {
                    let e = fb.entry(op).or_insert(ord);
                    if ord < *e {
                        *e = ord;
                    }
                }
            }
        });
        let pairs = n_pairs.load(Ordering::Relaxed);
        evals += pairs * PAIR_OPS.len() as u64;
        nontrivial += n_nontrivial.load(Ordering::Relaxed);
        let fb = first_bad.into_inner().unwrap();
        for (op, ord) in &fb {
            let (a, b) = ((ord >> 12) as u16, (ord & 0xfff) as u16);
            let msg = pair_message(&canon, a, b, *op);
            out.findings.push(Finding {
                system: "Effects/pairs".into(),
                clause: PAIR_OPS[*op].into(),
                case: vec![format!("a={}", set_names(&set_of_bits(a))), format!("b={}", set_names(&set_of_bits(b)))],
                message: msg,
                replay: json!({"kind":"pair","a":a,"b":b,"op":PAIR_OPS[*op]}),
            });
        }
        let bt = bad_total.load(Ordering::Relaxed);
        if bt > fb.len() as u64 {
            out.extra_violation_count += bt - fb.len() as u64;
        }
        out.push_part(json!({"system":"Effects/pairs","pairs":pairs,"ops_per_pair":PAIR_OPS,"violating_observations":bt}));
        out.push_sample(json!({"pair":{"a":set_names(&set_of_bits(0x809)),"b":set_names(&set_of_bits(0x00a))},"ops":PAIR_OPS}));

        // (3) Style BFS
        let sys = StyleSys { toks: style_tokens(thorough), canon: canon.clone() };
        let rep = bfs::explore(&sys, &Limits::depth(64));
        out.add_bfs(&rep);
        out.findings.extend(bfs_findings(&rep, clause_of));
        let fix_style = rep.fixpoint();
        out.set("style_colours_per_slot", json!(style_colors(thorough).iter().map(color_label).collect::<Vec<_>>()));

        // style set operators with arbitrary effect values: all pairs on two base styles
        let bases = [Style::new(), Style::new().fg_color(Some(Color::Ansi(AnsiColor::Red))).bg_color(Some(Color::Ansi256(Ansi256Color(7)))).underline_color(Some(Color::Rgb(RgbColor(1, 2, 3))))];
        let first: Mutex<Option<(u32, usize)>> = Mutex::new(None);
        let nbad = AtomicU64::new(0);
        (0..4096u32).into_par_iter().for_each(|a| {
            for b in 0..4096u32 {
                for (bi, base) in bases.iter().enumerate() {
                    if check_style_setops(&canon, *base, a as u16, b as u16, false).is_some() {
                        nbad.fetch_add(1, Ordering::Relaxed);
                        let ord = (a << 12) | b;
                        let mut f = first.lock().unwrap();
                        if f.as_ref().map(|(o, obi)| (ord, bi) < (*o, *obi)).unwrap_or(true) {
                            *f = Some((ord, bi));
                        }
                    }
                }
            }
        });
        evals += 4096 * 4096 * 2 * 4;
        if let Some((ord, bi)) = first.into_inner().unwrap() {
            let (a, b) = ((ord >> 12) as u16, (ord & 0xfff) as u16);
            let msg = check_style_setops(&canon, bases[bi], a, b, true).unwrap_or_default();
            out.findings.push(Finding {
                system: "Style/set-operators".into(),
                clause: "union-difference".into(),
                case: vec![format!("base{bi}"), format!("a={}", set_names(&set_of_bits(a))), format!("b={}", set_names(&set_of_bits(b)))],
                message: msg,
                replay: json!({"kind":"style-setops","a":a,"b":b,"base":bi}),
            });
            out.extra_violation_count += nbad.load(Ordering::Relaxed) - 1;
        }
        out.push_part(json!({"system":"Style/set-operators","pairs":4096u64*4096,"bases":2,"ops":["bitor","bitor-assign","sub","sub-assign"]}));
        out.set("exhaustive", json!(fix_effects && fix_style));
    } else {
        out.set("exhaustive", json!(false));
        out.set("explanation", json!("not all 4096 member sets were reached by the Effects BFS; the pair and Style phases were skipped"));
        if out.findings.is_empty() {
            out.findings.push(Finding {
                system: "Effects/ops".into(),
                clause: "state-count".into(),
                case: vec![format!("sets={}", canon_map.len())],
                message: format!("only {} of the 4096 effect sets are reachable with insert/remove/set/|/-", canon_map.len()),
                replay: json!({"kind":"full"}),
            });
        }
    }

    // (4) colours
    let mut cbad: Vec<(String, String, String)> = vec![];
    for i in 0..16 {
        evals += 9;
        nontrivial += 1;
        for (cl, msg) in check_ansi(i) {
            cbad.push((format!("{:?}", ANSI[i]), cl, msg));
        }
    }
    for i in 0..=255u8 {
        evals += 2;
        if i < 16 {
            nontrivial += 1;
        }
        for (cl, msg) in check_index(i) {
            cbad.push((format!("index{i}"), cl, msg));
        }
    }
    for (case, cl, msg) in cbad {
        out.findings.push(Finding { system: "Colour/conversions".into(), clause: cl, case: vec![case.clone()], message: msg, replay: json!({"kind":"colour","case":case}) });
    }
    out.push_part(json!({"system":"Colour/conversions","ansi_colours":16,"indices":256}));
    out.push_sample(json!({"colour":"BrightBlue","checks":["bright(true)","bright(false)","is_bright","from_ansi","into_ansi"]}));

    out.set("evaluations", json!(evals));
    out.set("distinct_nontrivial", json!(nontrivial));
    out.set("rule", json!("evaluations = operator/method applications outside the two BFS runs (pairs x operations, colour calls); distinct_nontrivial = ordered pairs (a, b) of effect sets that overlap without one containing the other, plus the 16 colours and the 16 convertible indices"));
    if out.coverage.get("explanation").is_none() {
        out.set("explanation", json!("Effects BFS and Style BFS ran to fixpoint (frontier empty); all 4096 x 4096 ordered pairs and all 16 / 256 colour values were enumerated"));
    }
    out.assume("the twelve public constants Effects::BOLD .. Effects::STRIKETHROUGH, in the order they are declared, are the twelve effects; an Effects value is observed only through the public API (contains, iter, Debug, is_plain, ==)");
    out.assume("'the debug form names exactly the members': the identifiers in the Debug text other than the type name must be exactly the member names; punctuation and order of the Debug text are not prescribed");
    out.assume("set extensionality: two reachable Effects values with the same members must compare equal (needed to use == on results)");
    out.assume("Style BFS uses a small colour set per slot (quick 4 values, thorough 6); setters are field assignments, so the colour values themselves are representatives");
    out.assume("Effects::render and the colour render paths are C05's subject and are not part of this check; on()/on_default() constructors are not named by the statement and are not checked");
    out
}

fn canon_by_construction() -> Vec<Effects> {
    (0..4096u16)
        .map(|bits| {
            let mut e = Effects::new();
            for (i, (f, _)) in FX.iter().enumerate() {
                if bits & (1 << i) != 0 {
                    e = e.insert(*f);
                }
            }
            e
        })
        .collect()
}

fn replay(v: &Value) -> Result<(), String> {
    match v["kind"].as_str().unwrap_or("") {
        "bfs" => {
            let trace: Vec<usize> = v["trace"].as_array().ok_or("trace missing")?.iter().map(|x| x.as_u64().unwrap() as usize).collect();
            let init = v["init"].as_u64().unwrap_or(0) as usize;
            match v["system"].as_str().unwrap_or("") {
                "Effects/ops" => bfs::replay(&EffectsSys, init, &trace).map(|_| ()).map_err(|(i, m)| format!("step {i}: {m}")),
                "Style/ops" => {
                    // token indices depend on the tier's colour set: resolve the recorded labels instead
                    let labels: Vec<String> = v["labels"].as_array().ok_or("labels missing")?.iter().map(|x| x.as_str().unwrap().to_string()).collect();
                    let sys = StyleSys { toks: style_tokens(true), canon: canon_by_construction() };
                    let mut tr = vec![];
                    for l in &labels {
                        let t = (0..sys.alphabet_len()).find(|&t| sys.token_label(t) == *l).ok_or(format!("unknown token {l}"))?;
                        tr.push(t);
                    }
                    bfs::replay(&sys, init, &tr).map(|_| ()).map_err(|(i, m)| format!("step {i}: {m}"))
                }
                s => Err(format!("unknown system {s}")),
            }
        }
        "pair" => {
            let canon = canon_by_construction();
            let (a, b) = (v["a"].as_u64().ok_or("a")? as u16, v["b"].as_u64().ok_or("b")? as u16);
            let mask = check_pair(&canon, a, b);
            let want = v["op"].as_str().unwrap_or("");
            let failing: Vec<usize> = (0..PAIR_OPS.len()).filter(|op| mask & (1 << op) != 0).collect();
            match failing.iter().find(|op| PAIR_OPS[**op] == want).or(failing.first()) {
                None => Ok(()),
                Some(op) => Err(format!("{}: {}", PAIR_OPS[*op], pair_message(&canon, a, b, *op))),
            }
        }
        "style-setops" => {
            let canon = canon_by_construction();
            let (a, b) = (v["a"].as_u64().ok_or("a")? as u16, v["b"].as_u64().ok_or("b")? as u16);
            let base = if v["base"].as_u64() == Some(0) {
                Style::new()
            } else {
                Style::new().fg_color(Some(Color::Ansi(AnsiColor::Red))).bg_color(Some(Color::Ansi256(Ansi256Color(7)))).underline_color(Some(Color::Rgb(RgbColor(1, 2, 3))))
            };
            match check_style_setops(&canon, base, a, b, true) {
                None => Ok(()),
                Some(m) => Err(m),
            }
        }
        "colour" => {
            let case = v["case"].as_str().ok_or("case")?;
            let bad = if let Some(i) = case.strip_prefix("index") {
                check_index(i.parse::<u8>().map_err(|e| e.to_string())?)
            } else {
                let i = (0..16).find(|&i| format!("{:?}", ANSI[i]) == case).ok_or("unknown colour")?;
                check_ansi(i)
            };
            match bad.first() {
                None => Ok(()),
                Some((cl, m)) => Err(format!("{cl}: {m}")),
            }
        }
        "full" => {
            // whole-space facts (state count, extensionality): re-run the Effects BFS and the independent count
            let (states, rep) = bfs::reachable_states(&EffectsSys, &Limits::depth(64));
            let sets: BTreeSet<u16> = states.iter().map(|(_, m)| bits_of_set(m)).collect();
            let indep = independent_effects_count();
            if !rep.violations.is_empty() {
                return Err(format!("Effects BFS: {}", rep.violations[0].message));
            }
            if sets.len() != 4096 || states.len() != 4096 || indep != 4096 {
                return Err(format!("bfs states {}, member sets {}, independent worklist {}", states.len(), sets.len(), indep));
            }
            Ok(())
        }
        k => Err(format!("unknown replay kind {k}")),
    }
}

fn main() {
    run_check("C13", "model_checking", main_check, replay);
}
