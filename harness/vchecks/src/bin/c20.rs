//! C20 - parser feature configurations differ only by their documented limits.
//!
//! Driver: builds the worker `vparsecfg` once per anstyle-parse feature set
//! ({}, {core}, {core,utf8}, {utf8}), runs the four binaries (each explores the product
//! Parser x M-VT over the same 7-bit alphabet + OSC macro tokens, the model configured with that
//! build's limits) and compares the per-transition callback digests across configurations.

use serde_json::{json, Value};
use std::collections::HashMap;
use vexplore::evidence::*;

use vchecks::parsecfg::{build_and_run, CONFIGS};

fn main_check(ctx: &Ctx) -> Outcome {
    let mut out = Outcome::default();
    let depth = if ctx.quick() { 5 } else { 6 };
    let wall = if ctx.quick() { 30.0 } else { 600.0 };
    let mut tables: Vec<(String, HashMap<String, (String, bool)>)> = vec![];
    let mut states = 0u64;
    let mut transitions = 0u64;
    let mut sweeps = 0u64;
    // builds must be sequential (same package, different features); runs are cheap
    for (name, feats) in CONFIGS {
        match build_and_run(name, feats, depth, wall) {
            Ok((v, digests)) => {
                states += v["states"].as_u64().unwrap_or(0);
                transitions += v["transitions"].as_u64().unwrap_or(0);
                sweeps += v["sweep_inputs"].as_u64().unwrap_or(0);
                for viol in v["violations"].as_array().cloned().unwrap_or_default() {
                    let labels: Vec<String> = viol["labels"].as_array().unwrap().iter().map(|x| x.as_str().unwrap().to_string()).collect();
                    out.findings.push(Finding {
                        system: format!("Parser[{name}]"),
                        clause: "callbacks-differ-from-model".into(),
                        case: labels.clone(),
                        message: viol["message"].as_str().unwrap_or("").to_string(),
                        replay: json!({"kind":"worker","config":name,"depth":labels.len()}),
                    });
                }
                let pruned = v["pruned_violating"].as_u64().unwrap_or(0);
                let listed = v["violations"].as_array().map(|a| a.len() as u64).unwrap_or(0);
                out.extra_violation_count += pruned.saturating_sub(listed);
                let mut part = v.clone();
                part.as_object_mut().unwrap().remove("violations");
                part.as_object_mut().unwrap().remove("sample_traces");
                out.push_part(part);
                for t in v["sample_traces"].as_array().cloned().unwrap_or_default() {
                    out.push_sample(json!({"config": name, "trace": t}));
                }
                let text = std::fs::read_to_string(&digests).unwrap_or_default();
                let _ = std::fs::remove_file(&digests);
                let mut m = HashMap::new();
                for l in text.lines() {
                    let mut it = l.split(' ');
                    if let (Some(t), Some(d), Some(c)) = (it.next(), it.next(), it.next()) {
                        m.insert(t.to_string(), (d.to_string(), c == "1"));
                    }
                }
                tables.push((name.to_string(), m));
            }
            Err(m) => {
                println!("MACHINERY ERROR: {m}");
                std::process::exit(2);
            }
        }
    }
    // cross-configuration comparison: every transition whose OSC payload fits the fixed buffer
    // must have the same callback digest in all four builds
    let mut compared = 0u64;
    let mut oversize = 0u64;
    let (base_name, base) = &tables[0];
    for (trace, (d0, _)) in base {
        let capped_somewhere = tables.iter().any(|(_, m)| m.get(trace).map_or(false, |x| x.1));
        if capped_somewhere {
            oversize += 1;
            continue;
        }
        for (name, m) in &tables[1..] {
            match m.get(trace) {
                Some((d, _)) if d == d0 => compared += 1,
                Some((d, _)) => {
                    if out.findings.len() < 50 {
                        out.findings.push(Finding {
                            system: format!("Parser[{base_name}] vs Parser[{name}]"),
                            clause: "configurations-differ".into(),
                            case: vec![trace.clone()],
                            message: format!("callback digest {d0} under [{base_name}] but {d} under [{name}] for token trace {trace}"),
                            replay: json!({"kind":"cross","trace":trace}),
                        });
                    }
                }
                None => {}
            }
        }
    }
    let sizes: Vec<usize> = tables.iter().map(|t| t.1.len()).collect();
    out.set("states", json!(states));
    out.set("transitions", json!(transitions));
    out.set("traces_validated_against_impl", json!(transitions + sweeps));
    out.set("boundary_sweep_inputs_per_configuration", json!(sweeps / 4));
    out.set("cross_config_digest_comparisons", json!(compared));
    out.set("oversize_osc_transitions_excluded_from_cross_comparison", json!(oversize));
    out.set("digest_table_sizes", json!(sizes));
    out.set("evaluations", json!(transitions + sweeps));
    out.set("distinct_nontrivial", json!(base.len()));
    out.set("depth", json!(depth));
    out.set("exhaustive", json!(false));
    out.set("explanation", json!("bounded depth over a 23-token 7-bit alphabet (single bytes + OSC payload macro tokens of 24/500/1000/1030/1100 bytes, 20 separators, 16 parameters); each of the four separately built binaries is compared with the model on every transition, and the digests are compared across builds; plus boundary sweeps from the initial state in every build: every 7-bit byte value in the OSC payload slots around the fixed buffer's end (payload lengths 1022..=1026, 1100; BEL and ST), separators straddling the end, and every parameter / sub-parameter value 0..=70000 and some larger ones in CSI and DCS position"));
    out.assume("what happens to ';' separators after the fixed OSC buffer is full is not specified: for such dispatches only the stored payload bytes and the terminator kind are compared");
    out.assume("only 7-bit input is fed (without the utf8 feature the crate does not accept multi-byte characters)");
    out
}

fn replay(v: &Value) -> Result<(), String> {
    // re-run the workers at the depth of the failing trace and report what they find
    let depth = v["depth"].as_u64().unwrap_or(4) as usize;
    for (name, feats) in CONFIGS {
        if v["config"].as_str().map_or(true, |c| c == name) {
            let (r, _) = build_and_run(name, feats, depth.max(1), 300.0)?;
            if let Some(first) = r["violations"].as_array().and_then(|a| a.first()) {
                return Err(format!("[{name}] {}", first["message"].as_str().unwrap_or("")));
            }
        }
    }
    Ok(())
}

fn main() {
    run_check("C20", "model_checking", main_check, replay);
}
