//! C05 - rendered styles are pure SGR and round-trip through SGR interpretation.
//!
//! Finite-domain exhaustive enumeration (E3).  Style values are built from
//! model tuples (fg, bg, underline colour, effect bits), rendered through every
//! public render path and a fixed grid of literal format specs, and the bytes
//! are interpreted by the independent references M-VT (must yield nothing but
//! `CSI ... m` dispatches) and M-SGR (must end in exactly the tuple the style
//! was built from).
//!
//!   E-all : all 4096 effect sets x {no colour, one fixed colour triple}
//!   S-all : per slot all 16 + 256 colours and, per RGB component, all 256
//!           values with the other two from {0,9,10,99,100,255}
//!   ExS   : all 4096 effect sets x 11 representative colours in each single slot
//!   X     : cross product of a representative colour set over the three slots
//!           x representative effect sets
//!   C-all : every colour above through Color/AnsiColor/Ansi256Color/RgbColor
//!           ::render_fg/render_bg;  F-all: all 4096 sets through Effects::render
//!   thorough: additionally the full 2^24 RGB cube in each slot.

use anstyle::{Ansi256Color, Color, Effects, Reset, RgbColor, Style};
use rayon::prelude::*;
use serde_json::{json, Value};
use std::collections::BTreeMap;
use std::fmt::{Display, Write as _};
use std::sync::atomic::{AtomicU64, Ordering};
use std::sync::Mutex;
use vchecks::common::ansi_from_index;
use vexplore::evidence::*;
use vexplore::util::*;
use vmodel::sgr::{fx, Col, Sgr};
use vmodel::vt::{Ev, St, Vt};

// ---------------------------------------------------------------------------
// model side
// ---------------------------------------------------------------------------

/// The value a style is built from (and must render back to).
#[derive(Clone, Copy, Debug, PartialEq, Eq, Hash, PartialOrd, Ord)]
struct StyleM {
    fg: Col,
    bg: Col,
    ul: Col,
    bits: u16,
}

impl StyleM {
    fn plain(&self) -> bool {
        self.fg == Col::Default && self.bg == Col::Default && self.ul == Col::Default && self.bits == 0
    }
}

/// The twelve public effect constants in declaration order (bit i of the model = i-th constant).
const FX: [Effects; 12] = [
    Effects::BOLD,
    Effects::DIMMED,
    Effects::ITALIC,
    Effects::UNDERLINE,
    Effects::DOUBLE_UNDERLINE,
    Effects::CURLY_UNDERLINE,
    Effects::DOTTED_UNDERLINE,
    Effects::DASHED_UNDERLINE,
    Effects::BLINK,
    Effects::INVERT,
    Effects::HIDDEN,
    Effects::STRIKETHROUGH,
];

fn real_effects(bits: u16) -> Effects {
    let mut e = Effects::new();
    for (i, f) in FX.iter().enumerate() {
        if bits & (1 << i) != 0 {
            e = e | *f;
        }
    }
    e
}

fn real_color(c: Col) -> Option<Color> {
    match c {
        Col::Default => None,
        Col::Ansi(i) => Some(Color::Ansi(ansi_from_index(i))),
        Col::Idx(i) => Some(Color::Ansi256(Ansi256Color(i))),
        Col::Rgb(r, g, b) => Some(Color::Rgb(RgbColor(r, g, b))),
    }
}

fn real_style(m: &StyleM) -> Style {
    Style::new().fg_color(real_color(m.fg)).bg_color(real_color(m.bg)).underline_color(real_color(m.ul)).effects(real_effects(m.bits))
}

fn col_str(c: Col) -> String {
    match c {
        Col::Default => "none".into(),
        Col::Ansi(i) => format!("ansi:{i}"),
        Col::Idx(i) => format!("idx:{i}"),
        Col::Rgb(r, g, b) => format!("rgb:{r},{g},{b}"),
    }
}

fn col_parse(s: &str) -> Result<Col, String> {
    let num = |t: &str| t.parse::<u8>().map_err(|e| format!("bad colour {s}: {e}"));
    if s == "none" {
        Ok(Col::Default)
    } else if let Some(t) = s.strip_prefix("ansi:") {
        let i = num(t)?;
        if i < 16 {
            Ok(Col::Ansi(i))
        } else {
            Err(format!("bad colour {s}"))
        }
    } else if let Some(t) = s.strip_prefix("idx:") {
        Ok(Col::Idx(num(t)?))
    } else if let Some(t) = s.strip_prefix("rgb:") {
        let p: Vec<&str> = t.split(',').collect();
        if p.len() != 3 {
            return Err(format!("bad colour {s}"));
        }
        Ok(Col::Rgb(num(p[0])?, num(p[1])?, num(p[2])?))
    } else {
        Err(format!("bad colour {s}"))
    }
}

fn bits_str(bits: u16) -> String {
    let names: Vec<&str> = (0..12).filter(|i| bits & (1 << i) != 0).map(|i| fx::NAMES[i]).collect();
    if names.is_empty() {
        "fx:-".into()
    } else {
        format!("fx:{}", names.join("+"))
    }
}

fn style_case(m: &StyleM) -> Vec<String> {
    vec![format!("fg={}", col_str(m.fg)), format!("bg={}", col_str(m.bg)), format!("ul={}", col_str(m.ul)), bits_str(m.bits)]
}

fn style_json(m: &StyleM) -> Value {
    json!({"fg": col_str(m.fg), "bg": col_str(m.bg), "ul": col_str(m.ul), "bits": m.bits})
}

/// "consists solely of SGR control sequences": every byte belongs to the 7-bit
/// spelling of `CSI params m`, M-VT dispatches nothing but `CSI ... m` (no
/// intermediates, not ignored), prints/executes nothing and ends in Ground.
/// Returns the SGR state reached from `start`.
fn interpret(start: Sgr, bytes: &[u8]) -> Result<Sgr, String> {
    if let Some(b) = bytes.iter().find(|&&b| !matches!(b, 0x1b | b'[' | b'0'..=b'9' | b';' | b':' | b'm')) {
        return Err(format!("byte 0x{b:02x} is not part of an SGR sequence (rendered {})", show(bytes)));
    }
    let mut vt = Vt::default();
    let mut sgr = start;
    for ev in vt.feed(bytes) {
        match ev {
            Ev::Csi { params, inter, ignore: false, byte: b'm' } if inter.is_empty() => {
                sgr.apply(&params);
            }
            other => return Err(format!("the VT model sees {other:?}, not an SGR sequence (rendered {})", show(bytes))),
        }
    }
    if vt.st != St::Ground {
        return Err(format!("rendering ends inside an unfinished sequence (rendered {})", show(bytes)));
    }
    Ok(sgr)
}

// ---------------------------------------------------------------------------
// format-spec grid (specs must be literals, hence the macro)
// ---------------------------------------------------------------------------

macro_rules! run_specs {
    ($d:expr, $buf:expr, $f:expr; $($spec:literal),* $(,)?) => {{
        $(
            $buf.clear();
            let r = write!($buf, $spec, $d);
            $f($spec, $buf.as_str(), r.is_ok());
        )*
    }};
}

/// plain specs: index 0 is the bare `{}`
fn grid_plain<D: Display>(d: &D, buf: &mut String, mut f: impl FnMut(&'static str, &str, bool)) {
    run_specs!(d, buf, f;
        "{}", "{:1}", "{:10}", "{:40}", "{:<10}", "{:*<10}", "{:*^10}", "{:*>40}", "{:>1}", "{:010}",
        "{:.0}", "{:.2}", "{:.10}", "{:10.2}", "{:*^40.10}", "{:+}", "{:+010.2}");
}

/// alternate specs: index 0 is the bare `{:#}`
fn grid_alt<D: Display>(d: &D, buf: &mut String, mut f: impl FnMut(&'static str, &str, bool)) {
    run_specs!(d, buf, f;
        "{:#}", "{:#1}", "{:#10}", "{:#40}", "{:<#10}", "{:*<#10}", "{:*^#10}", "{:*>#40}", "{:>#1}", "{:#010}",
        "{:#.0}", "{:#.2}", "{:#.10}", "{:#10.2}", "{:*^#40.10}", "{:+#}", "{:+#010.2}");
}

const N_SPECS: u64 = 34;

#[derive(Clone, Debug)]
struct Bad {
    system: &'static str,
    clause: &'static str,
    spec: &'static str,
    msg: String,
}

fn bad(system: &'static str, clause: &'static str, spec: &'static str, msg: String) -> Bad {
    Bad { system, clause, spec, msg }
}

/// Run the whole grid on one Display value.
/// * every plain spec must give `expect_plain` (if Some) - else the bare `{}` output;
/// * every alternate spec must give `expect_alt` (if Some) - else the bare `{:#}` output.
/// Returns (bare `{}` output, bare `{:#}` output).
fn grid_check<D: Display>(
    system: &'static str,
    d: &D,
    expect_plain: Option<&str>,
    expect_alt: Option<&str>,
    buf: &mut String,
    bads: &mut Vec<Bad>,
) -> (String, String) {
    let mut bare_plain: Option<String> = None;
    grid_plain(d, buf, |spec, out, ok| {
        if !ok {
            bads.push(bad(system, "fmt-error", spec, format!("formatting with {spec} returned fmt::Error")));
        }
        if bare_plain.is_none() {
            bare_plain = Some(out.to_string());
            if let Some(e) = expect_plain {
                if out != e {
                    bads.push(bad(system, "paths-disagree", spec, format!("{spec} gives {} but the reference path gives {}", show(out.as_bytes()), show(e.as_bytes()))));
                }
            }
        } else {
            let e = bare_plain.as_deref().unwrap();
            if out != e {
                bads.push(bad(system, "spec-changes-bytes", spec, format!("{spec} gives {:?} but {{}} gives {:?}", out, e)));
            }
        }
    });
    let mut bare_alt: Option<String> = None;
    grid_alt(d, buf, |spec, out, ok| {
        if !ok {
            bads.push(bad(system, "fmt-error", spec, format!("formatting with {spec} returned fmt::Error")));
        }
        if bare_alt.is_none() {
            bare_alt = Some(out.to_string());
            if let Some(e) = expect_alt {
                if out != e {
                    bads.push(bad(system, "paths-disagree", spec, format!("{spec} gives {} but {} is expected", show(out.as_bytes()), show(e.as_bytes()))));
                }
            }
        } else {
            let e = bare_alt.as_deref().unwrap();
            if out != e {
                bads.push(bad(system, "spec-changes-bytes", spec, format!("{spec} gives {:?} but {{:#}} gives {:?}", out, e)));
            }
        }
    });
    (bare_plain.unwrap(), bare_alt.unwrap())
}

// ---------------------------------------------------------------------------
// the checks for one case
// ---------------------------------------------------------------------------

/// `full` = run the format-spec grid on every path (else only the bare specs and the io paths).
fn check_style(m: &StyleM, full: bool, evals: &mut u64) -> Vec<Bad> {
    let mut bads = vec![];
    let s = real_style(m);
    let mut buf = String::with_capacity(128);

    // --- Display of the style itself
    let (base, reset) = if full {
        *evals += N_SPECS;
        grid_check("Style/Display", &s, None, None, &mut buf, &mut bads)
    } else {
        *evals += 2;
        (format!("{}", s), format!("{:#}", s))
    };

    // pure SGR + round trip
    match interpret(Sgr::default(), base.as_bytes()) {
        Err(e) => bads.push(bad("Style/Display", "not-pure-sgr", "{}", e)),
        Ok(sgr) => {
            let exp_ul = match m.ul {
                Col::Ansi(i) => Col::Idx(i),
                c => c,
            };
            if sgr.fg != m.fg {
                bads.push(bad("Style/Display", "roundtrip-fg", "{}", format!("rendered {} is read as foreground {:?}, style has {:?}", show(base.as_bytes()), sgr.fg, m.fg)));
            }
            if sgr.bg != m.bg {
                bads.push(bad("Style/Display", "roundtrip-bg", "{}", format!("rendered {} is read as background {:?}, style has {:?}", show(base.as_bytes()), sgr.bg, m.bg)));
            }
            if sgr.ul_color != exp_ul {
                bads.push(bad("Style/Display", "roundtrip-underline-color", "{}", format!("rendered {} is read as underline colour {:?}, expected {:?}", show(base.as_bytes()), sgr.ul_color, exp_ul)));
            }
            let single_ul = (m.bits & fx::ALL_UNDERLINES).count_ones() <= 1;
            if sgr.seen != m.bits || (single_ul && sgr.terminal_effects() != m.bits) {
                bads.push(bad("Style/Display", "roundtrip-effects", "{}", format!("rendered {} denotes effects {} , style has {}", show(base.as_bytes()), bits_str(sgr.seen), bits_str(m.bits))));
            }
            // reset form: empty iff plain, returns the terminal to default
            if reset.is_empty() != m.plain() {
                bads.push(bad("Style/Display", "reset-emptiness", "{:#}", format!("reset form is {:?} for a style that is {}", reset, if m.plain() { "plain" } else { "not plain" })));
            }
            match interpret(sgr, reset.as_bytes()) {
                Err(e) => bads.push(bad("Style/Display", "reset-not-pure-sgr", "{:#}", e)),
                Ok(after) => {
                    if !after.is_default() || after.seen != 0 {
                        bads.push(bad("Style/Display", "reset-not-default", "{:#}", format!("after {} then {} the terminal is {:?}", show(base.as_bytes()), show(reset.as_bytes()), after)));
                    }
                }
            }
            // the unconditional Reset value from the styled state
            let r = format!("{}", Reset);
            *evals += 1;
            match interpret(sgr, r.as_bytes()) {
                Err(e) => bads.push(bad("Reset", "not-pure-sgr", "{}", e)),
                Ok(after) => {
                    if !after.is_default() || after.seen != 0 {
                        bads.push(bad("Reset", "reset-not-default", "{}", format!("after {} then Reset the terminal is {:?}", show(base.as_bytes()), after)));
                    }
                }
            }
        }
    }

    // --- render(): same bytes.  The alternate flag selects the reset form on `Style`'s own Display only; what
    // `render()` returns renders the style under every flag (a `{:#}` that produced something else would not
    // "reproduce exactly the style")
    if full {
        *evals += N_SPECS;
        let (_, alt) = grid_check("Style::render", &s.render(), Some(&base), Some(&base), &mut buf, &mut bads);
        if let Err(e) = interpret(Sgr::default(), alt.as_bytes()) {
            bads.push(bad("Style::render", "not-pure-sgr", "{:#}", e));
        }
    } else {
        *evals += 1;
        let r = format!("{}", s.render());
        if r != base {
            bads.push(bad("Style::render", "paths-disagree", "{}", format!("render() gives {} but Display gives {}", show(r.as_bytes()), show(base.as_bytes()))));
        }
    }

    // --- render_reset()
    if full {
        *evals += N_SPECS;
        let (_, alt) = grid_check("Style::render_reset", &s.render_reset(), Some(&reset), Some(&reset), &mut buf, &mut bads);
        if let Err(e) = interpret(Sgr::default(), alt.as_bytes()) {
            bads.push(bad("Style::render_reset", "not-pure-sgr", "{:#}", e));
        }
    } else {
        *evals += 1;
        let r = format!("{}", s.render_reset());
        if r != reset {
            bads.push(bad("Style::render_reset", "paths-disagree", "{}", format!("render_reset() gives {:?} but {{:#}} gives {:?}", r, reset)));
        }
    }

    // --- io::Write paths
    let mut w: Vec<u8> = Vec::with_capacity(96);
    *evals += 2;
    match s.write_to(&mut w) {
        Err(e) => bads.push(bad("Style::write_to", "io-error", "-", format!("write_to a Vec returned {e}"))),
        Ok(()) => {
            if w != base.as_bytes() {
                bads.push(bad("Style::write_to", "paths-disagree", "-", format!("write_to gives {} but Display gives {}", show(&w), show(base.as_bytes()))));
            }
        }
    }
    w.clear();
    match s.write_reset_to(&mut w) {
        Err(e) => bads.push(bad("Style::write_reset_to", "io-error", "-", format!("write_reset_to a Vec returned {e}"))),
        Ok(()) => {
            if w != reset.as_bytes() {
                bads.push(bad("Style::write_reset_to", "paths-disagree", "-", format!("write_reset_to gives {} but {{:#}} gives {}", show(&w), show(reset.as_bytes()))));
            }
        }
    }
    // --- io::Write paths over writers that take the bytes a few at a time, and over fixed buffers that run out of room:
    // an Ok(()) means every byte was delivered; an error means a prefix was
    if full {
        for (which, want) in [("Style::write_to", base.as_bytes()), ("Style::write_reset_to", reset.as_bytes())] {
            for k in 1..=3usize {
                *evals += 1;
                let mut sw = ShortWriter { got: Vec::new(), per_call: k, room: usize::MAX };
                let r = if which == "Style::write_to" { s.write_to(&mut sw) } else { s.write_reset_to(&mut sw) };
                match r {
                    Err(e) => bads.push(bad(which, "io-error", "short-writes", format!("a writer that accepts {k} byte(s) per call never failed, yet {e} was returned"))),
                    Ok(()) => {
                        if sw.got != want {
                            bads.push(bad(which, "paths-disagree", "short-writes", format!("over a writer that accepts {k} byte(s) per call {} arrived but Display gives {}", show(&sw.got), show(want))));
                        }
                    }
                }
            }
            // a call into a writer that panics (caught), then the same call into a Vec: the second one is unaffected
            {
                *evals += 1;
                let _ = std::panic::catch_unwind(|| {
                    let mut pw = PanickingWriter;
                    if which == "Style::write_to" {
                        s.write_to(&mut pw)
                    } else {
                        s.write_reset_to(&mut pw)
                    }
                });
                let mut after: Vec<u8> = Vec::new();
                let r = if which == "Style::write_to" { s.write_to(&mut after) } else { s.write_reset_to(&mut after) };
                if r.is_err() || after != want {
                    bads.push(bad(which, "paths-disagree", "after-panicking-writer", format!("after a call into a writer that panicked, the next call delivered {} ({r:?}) but Display gives {}", show(&after), show(want))));
                }
            }
            for room in 0..=want.len() {
                *evals += 1;
                let mut sw = ShortWriter { got: Vec::new(), per_call: usize::MAX, room };
                let r = if which == "Style::write_to" { s.write_to(&mut sw) } else { s.write_reset_to(&mut sw) };
                match r {
                    Ok(()) if sw.got != want => {
                        bads.push(bad(which, "paths-disagree", "full-buffer", format!("Ok(()) over a buffer with room for {room} byte(s) but only {} arrived of {}", show(&sw.got), show(want))));
                    }
                    Err(_) if room >= want.len() || !want.starts_with(&sw.got) => {
                        bads.push(bad(which, "io-error", "full-buffer", format!("error over a buffer with room for {room} byte(s); {} arrived of {}", show(&sw.got), show(want))));
                    }
                    _ => {}
                }
            }
        }
    }
    bads
}

/// a writer that unwinds (the panic is caught by the check): whatever the io::Write path keeps between calls must
/// not be left dirty by it
struct PanickingWriter;
impl std::io::Write for PanickingWriter {
    fn write(&mut self, _buf: &[u8]) -> std::io::Result<usize> {
        panic!("writer of the harness panics on purpose")
    }
    fn flush(&mut self) -> std::io::Result<()> {
        Ok(())
    }
}

/// accepts at most `per_call` bytes per `write` call and `room` bytes in total (then `Ok(0)`, like a full `&mut [u8]`)
struct ShortWriter {
    got: Vec<u8>,
    per_call: usize,
    room: usize,
}
impl std::io::Write for ShortWriter {
    fn write(&mut self, buf: &[u8]) -> std::io::Result<usize> {
        let n = buf.len().min(self.per_call).min(self.room - self.got.len().min(self.room));
        self.got.extend_from_slice(&buf[..n]);
        Ok(n)
    }
    fn flush(&mut self) -> std::io::Result<()> {
        Ok(())
    }
}

#[derive(Clone, Copy, PartialEq, Eq, Debug)]
enum Ground {
    Fg,
    Bg,
}

fn check_color_display<D: Display>(system: &'static str, d: &D, c: Col, g: Ground, full: bool, evals: &mut u64, bads: &mut Vec<Bad>) {
    let mut buf = String::with_capacity(64);
    let (base, alt) = if full {
        *evals += N_SPECS;
        grid_check(system, d, None, None, &mut buf, bads)
    } else {
        *evals += 1;
        (format!("{}", d), String::new())
    };
    if let Err(e) = interpret(Sgr::default(), alt.as_bytes()) {
        bads.push(bad(system, "not-pure-sgr", "{:#}", e));
    }
    if full && alt != base {
        bads.push(bad(system, "alternate-flag-changes-bytes", "{:#}", format!("{{:#}} gives {} but {{}} gives {}", show(alt.as_bytes()), show(base.as_bytes()))));
    }
    match interpret(Sgr::default(), base.as_bytes()) {
        Err(e) => bads.push(bad(system, "not-pure-sgr", "{}", e)),
        Ok(sgr) => {
            let exp = match g {
                Ground::Fg => Sgr { fg: c, ..Sgr::default() },
                Ground::Bg => Sgr { bg: c, ..Sgr::default() },
            };
            if sgr != exp {
                let clause = if g == Ground::Fg { "roundtrip-fg" } else { "roundtrip-bg" };
                bads.push(bad(system, clause, "{}", format!("rendered {} is read as {:?}, expected only {:?} = {:?}", show(base.as_bytes()), sgr, g, c)));
            }
        }
    }
}

/// All colour render paths for one colour value.
fn check_color(c: Col, full: bool, evals: &mut u64) -> Vec<Bad> {
    let mut bads = vec![];
    let color = match real_color(c) {
        Some(x) => x,
        None => return bads,
    };
    check_color_display("Color::render_fg", &color.render_fg(), c, Ground::Fg, full, evals, &mut bads);
    check_color_display("Color::render_bg", &color.render_bg(), c, Ground::Bg, full, evals, &mut bads);
    match color {
        Color::Ansi(a) => {
            check_color_display("AnsiColor::render_fg", &a.render_fg(), c, Ground::Fg, full, evals, &mut bads);
            check_color_display("AnsiColor::render_bg", &a.render_bg(), c, Ground::Bg, full, evals, &mut bads);
        }
        Color::Ansi256(a) => {
            check_color_display("Ansi256Color::render_fg", &a.render_fg(), c, Ground::Fg, full, evals, &mut bads);
            check_color_display("Ansi256Color::render_bg", &a.render_bg(), c, Ground::Bg, full, evals, &mut bads);
        }
        Color::Rgb(a) => {
            check_color_display("RgbColor::render_fg", &a.render_fg(), c, Ground::Fg, full, evals, &mut bads);
            check_color_display("RgbColor::render_bg", &a.render_bg(), c, Ground::Bg, full, evals, &mut bads);
        }
    }
    bads
}

fn check_effects(bits: u16, evals: &mut u64) -> Vec<Bad> {
    let mut bads = vec![];
    let mut buf = String::with_capacity(96);
    let e = real_effects(bits);
    *evals += N_SPECS;
    let (base, alt) = grid_check("Effects::render", &e.render(), None, None, &mut buf, &mut bads);
    if let Err(e) = interpret(Sgr::default(), alt.as_bytes()) {
        bads.push(bad("Effects::render", "not-pure-sgr", "{:#}", e));
    }
    if alt != base {
        bads.push(bad("Effects::render", "alternate-flag-changes-bytes", "{:#}", format!("{{:#}} gives {} but {{}} gives {}", show(alt.as_bytes()), show(base.as_bytes()))));
    }
    match interpret(Sgr::default(), base.as_bytes()) {
        Err(e) => bads.push(bad("Effects::render", "not-pure-sgr", "{}", e)),
        Ok(sgr) => {
            if sgr.seen != bits || sgr.fg != Col::Default || sgr.bg != Col::Default || sgr.ul_color != Col::Default {
                bads.push(bad("Effects::render", "roundtrip-effects", "{}", format!("rendered {} denotes {} / colours {:?} {:?} {:?}, expected {}", show(base.as_bytes()), bits_str(sgr.seen), sgr.fg, sgr.bg, sgr.ul_color, bits_str(bits))));
            }
        }
    }
    bads
}

/// `Reset` and `Reset.render()`: pure SGR, any terminal state -> default, format specs irrelevant.
fn check_reset(evals: &mut u64) -> Vec<Bad> {
    let mut bads = vec![];
    let mut buf = String::new();
    *evals += 2 * N_SPECS;
    let (a, a_alt) = grid_check("Reset", &Reset, None, None, &mut buf, &mut bads);
    let (b, b_alt) = grid_check("Reset::render", &Reset.render(), Some(&a), Some(&a), &mut buf, &mut bads);
    let mut busy = Sgr::default();
    busy.apply(&Sgr::parse_params("1;2;3;4:3;5;7;8;9;91;48;5;200;58;2;1;2;3"));
    for (sys, text) in [("Reset", &a), ("Reset", &a_alt), ("Reset::render", &b), ("Reset::render", &b_alt)] {
        if text.is_empty() {
            bads.push(bad(sys, "reset-emptiness", "{}", "Reset renders nothing".into()));
        }
        match interpret(busy, text.as_bytes()) {
            Err(e) => bads.push(bad(sys, "not-pure-sgr", "{}", e)),
            Ok(after) => {
                if !after.is_default() || after.seen != 0 {
                    bads.push(bad(sys, "reset-not-default", "{}", format!("after {} a fully styled terminal is {:?}", show(text.as_bytes()), after)));
                }
            }
        }
    }
    bads
}

fn guarded(f: impl FnOnce() -> Vec<Bad> + std::panic::UnwindSafe) -> Vec<Bad> {
    match std::panic::catch_unwind(f) {
        Ok(v) => v,
        Err(p) => {
            let m = p.downcast_ref::<String>().cloned().or_else(|| p.downcast_ref::<&str>().map(|s| s.to_string())).unwrap_or_else(|| "panic".into());
            vec![bad("render", "panic", "-", format!("rendering panicked: {m}"))]
        }
    }
}

// ---------------------------------------------------------------------------
// domains
// ---------------------------------------------------------------------------

const RGB_SIDE: [u8; 6] = [0, 9, 10, 99, 100, 255];

/// all 16 + 256 colours, then per RGB component all 256 values with the other two from RGB_SIDE
fn slot_colors() -> Vec<Col> {
    let mut v = vec![];
    let mut seen = std::collections::HashSet::new();
    let mut push = |c: Col, v: &mut Vec<Col>| {
        if seen.insert(c) {
            v.push(c);
        }
    };
    for i in 0..16u8 {
        push(Col::Ansi(i), &mut v);
    }
    for i in 0..=255u8 {
        push(Col::Idx(i), &mut v);
    }
    for comp in 0..3 {
        for x in 0..=255u8 {
            for &a in &RGB_SIDE {
                for &b in &RGB_SIDE {
                    let c = match comp {
                        0 => Col::Rgb(x, a, b),
                        1 => Col::Rgb(a, x, b),
                        _ => Col::Rgb(a, b, x),
                    };
                    push(c, &mut v);
                }
            }
        }
    }
    v
}

fn cross_colors(thorough: bool) -> Vec<Col> {
    let mut v = vec![
        Col::Default,
        Col::Ansi(0),
        Col::Ansi(7),
        Col::Ansi(8),
        Col::Ansi(15),
        Col::Idx(0),
        Col::Idx(15),
        Col::Idx(16),
        Col::Idx(255),
        Col::Rgb(0, 0, 0),
        Col::Rgb(255, 255, 255),
        Col::Rgb(1, 20, 255),
    ];
    if thorough {
        v.extend([Col::Ansi(4), Col::Ansi(12), Col::Idx(7), Col::Idx(100), Col::Idx(231), Col::Rgb(100, 10, 1), Col::Rgb(9, 99, 199), Col::Rgb(255, 0, 100)]);
    }
    v
}

fn cross_effects(thorough: bool) -> Vec<u16> {
    let mut v: Vec<u16> = vec![
        0,
        fx::BOLD,
        fx::DIMMED | fx::ITALIC,
        fx::UNDERLINE,
        fx::DOUBLE_UNDERLINE,
        fx::CURLY_UNDERLINE,
        fx::DOTTED_UNDERLINE,
        fx::DASHED_UNDERLINE,
        fx::BLINK | fx::INVERT,
        fx::HIDDEN,
        fx::STRIKETHROUGH,
        0xfff,
        fx::ALL_UNDERLINES,
        fx::BOLD | fx::STRIKETHROUGH,
        0xaaa,
        0x555,
    ];
    if thorough {
        // every single effect, every pair with BOLD and with STRIKETHROUGH, complements of singles
        for i in 0..12 {
            v.push(1 << i);
            v.push((1 << i) | fx::BOLD);
            v.push((1 << i) | fx::STRIKETHROUGH);
            v.push(0xfff & !(1 << i));
        }
        v.sort();
        v.dedup();
    }
    v
}

const FIXED_TRIPLE: (Col, Col, Col) = (Col::Ansi(1), Col::Idx(200), Col::Rgb(1, 20, 255));

fn style_domain(thorough: bool) -> (Vec<StyleM>, BTreeMap<&'static str, usize>) {
    let mut v = vec![];
    let mut seen = std::collections::HashSet::new();
    let mut parts = BTreeMap::new();
    let mut push = |m: StyleM, v: &mut Vec<StyleM>| {
        if seen.insert(m) {
            v.push(m);
        }
    };
    // E-all
    for bits in 0..4096u16 {
        push(StyleM { fg: Col::Default, bg: Col::Default, ul: Col::Default, bits }, &mut v);
    }
    for bits in 0..4096u16 {
        push(StyleM { fg: FIXED_TRIPLE.0, bg: FIXED_TRIPLE.1, ul: FIXED_TRIPLE.2, bits }, &mut v);
    }
    parts.insert("E-all (4096 effect sets x {no colour, fixed triple})", v.len());
    // S-all
    let n0 = v.len();
    let cols = slot_colors();
    for slot in 0..3 {
        for &c in &cols {
            let mut m = StyleM { fg: Col::Default, bg: Col::Default, ul: Col::Default, bits: 0 };
            match slot {
                0 => m.fg = c,
                1 => m.bg = c,
                _ => m.ul = c,
            }
            push(m, &mut v);
        }
    }
    parts.insert("S-all (per slot: 16 + 256 colours + RGB component sweeps)", v.len() - n0);
    // ExS: every effect set next to every representative colour in each single slot
    let n0 = v.len();
    for slot in 0..3 {
        for &c in &cross_colors(false) {
            for bits in 0..4096u16 {
                let mut m = StyleM { fg: Col::Default, bg: Col::Default, ul: Col::Default, bits };
                match slot {
                    0 => m.fg = c,
                    1 => m.bg = c,
                    _ => m.ul = c,
                }
                push(m, &mut v);
            }
        }
    }
    parts.insert("ExS (4096 effect sets x 11 representative colours x 3 single slots, new ones)", v.len() - n0);
    // X
    let n0 = v.len();
    let cc = cross_colors(thorough);
    let ce = cross_effects(thorough);
    for &fg in &cc {
        for &bg in &cc {
            for &ul in &cc {
                for &bits in &ce {
                    push(StyleM { fg, bg, ul, bits }, &mut v);
                }
            }
        }
    }
    parts.insert("X (representative colours^3 x representative effect sets, new ones)", v.len() - n0);
    (v, parts)
}

// ---------------------------------------------------------------------------
// finding aggregation: per (system, clause, spec) keep the first case in enumeration order
// ---------------------------------------------------------------------------

#[derive(Default)]
struct Agg {
    map: BTreeMap<(&'static str, &'static str, &'static str), (u64, Finding)>,
    total: u64,
}

impl Agg {
    /// `case_replay` is only evaluated when this observation becomes the recorded one.
    fn add(&mut self, order: u64, b: &Bad, case_replay: impl FnOnce() -> (Vec<String>, Value)) {
        self.total += 1;
        let key = (b.system, b.clause, b.spec);
        let better = match self.map.get(&key) {
            None => true,
            Some((o, _)) => order < *o,
        };
        if better {
            let (case, mut replay) = case_replay();
            let mut c = vec![b.spec.to_string()];
            c.extend(case);
            replay["system"] = json!(b.system);
            replay["clause"] = json!(b.clause);
            replay["spec"] = json!(b.spec);
            self.map.insert(key, (order, Finding { system: b.system.to_string(), clause: b.clause.to_string(), case: c, message: b.msg.clone(), replay }));
        }
    }
}

fn main_check(ctx: &Ctx) -> Outcome {
    std::panic::set_hook(Box::new(|_| {}));
    let mut out = Outcome::default();
    // the same oracles against a non-default feature set of the crate (the Display paths of all 4096 effect sets x 5 colours in the three slots, in a build of anstyle without `std`)
    match vchecks::parsecfg::build_and_run_feat("style") {
        Ok(v) => {
            for f in v["findings"].as_array().cloned().unwrap_or_default().into_iter().take(12) {
                out.findings.push(Finding {
                    system: "anstyle without its `std` feature".into(),
                    clause: "feature-configuration".into(),
                    case: vec![f["case"].as_str().unwrap_or("").to_string()],
                    message: f["message"].as_str().unwrap_or("").chars().take(600).collect(),
                    replay: serde_json::json!({"kind":"feature-configuration","feature":"style"}),
                });
            }
            out.push_part(serde_json::json!({"configuration":"anstyle without its `std` feature","cases":v["cases"]}));
        }
        Err(m) => {
            println!("MACHINERY ERROR: {m}");
            std::process::exit(2);
        }
    }
    // the functions under test must not consult the environment: a few representative inputs under a cleared and two
    // hostile settings of the colour-related variables (before any worker thread exists)
    fn env_digest() -> Vec<String> {
        { use anstyle::*; let styles = [Style::new(), Style::new().bold(), AnsiColor::Red.on(AnsiColor::Blue).underline(), Style::new().fg_color(Some(Ansi256Color(200).into())).bg_color(Some(RgbColor(1, 2, 3).into())).underline_color(Some(AnsiColor::BrightGreen.into())).effects(Effects::ITALIC | Effects::CURLY_UNDERLINE)]; styles.iter().map(|s| { let mut w = Vec::new(); let _ = s.write_to(&mut w); let _ = s.write_reset_to(&mut w); format!("{s}|{s:#}|{}|{}|{}", s.render(), s.render_reset(), String::from_utf8_lossy(&w)) }).collect::<Vec<String>>() }
    }
    if let Err(m) = vexplore::util::env_independence(env_digest) {
        out.findings.push(Finding {
            system: "Style rendering".into(),
            clause: "environment-dependence".into(),
            case: vec!["representative inputs".into()],
            message: m.chars().take(900).collect(),
            replay: serde_json::json!({"kind":"env"}),
        });
    }
    let thorough = !ctx.quick();
    let agg = Mutex::new(Agg::default());
    let evals = AtomicU64::new(0);
    let nontrivial = AtomicU64::new(0);
    let mut order_base: u64 = 0;

    // Reset
    {
        let mut e = 0;
        let bads = guarded(std::panic::AssertUnwindSafe(|| check_reset(&mut e)));
        evals.fetch_add(e, Ordering::Relaxed);
        let mut a = agg.lock().unwrap();
        for b in &bads {
            a.add(order_base, b, || (vec![], json!({"kind":"reset"})));
        }
        order_base += 1;
    }

    // F-all: Effects::render over all 4096 sets
    (0..4096u16).into_par_iter().for_each(|bits| {
        let mut e = 0;
        let bads = guarded(std::panic::AssertUnwindSafe(|| check_effects(bits, &mut e)));
        evals.fetch_add(e, Ordering::Relaxed);
        if bits != 0 {
            nontrivial.fetch_add(1, Ordering::Relaxed);
        }
        if !bads.is_empty() {
            let mut a = agg.lock().unwrap();
            for b in &bads {
                a.add(order_base + bits as u64, b, || (vec![bits_str(bits)], json!({"kind":"effects","bits":bits})));
            }
        }
    });
    order_base += 4096;
    out.push_part(json!({"part":"F-all: Effects::render, all effect sets x 34 specs","cases":4096}));

    // C-all: colour render paths
    let cols = slot_colors();
    cols.par_iter().enumerate().for_each(|(i, &c)| {
        let mut e = 0;
        let bads = guarded(std::panic::AssertUnwindSafe(|| check_color(c, true, &mut e)));
        evals.fetch_add(e, Ordering::Relaxed);
        nontrivial.fetch_add(1, Ordering::Relaxed);
        if !bads.is_empty() {
            let mut a = agg.lock().unwrap();
            for b in &bads {
                a.add(order_base + i as u64, b, || (vec![col_str(c)], json!({"kind":"color","col":col_str(c),"full":true})));
            }
        }
    });
    order_base += cols.len() as u64;
    out.push_part(json!({"part":"C-all: Color + per-kind render_fg/render_bg x 34 specs","colours":cols.len(),
        "of_which":{"ansi16":16,"indexed":256,"rgb":cols.len()-272}}));

    // styles
    let (styles, parts) = style_domain(thorough);
    styles.par_iter().enumerate().for_each(|(i, m)| {
        let mut e = 0;
        let bads = guarded(std::panic::AssertUnwindSafe(|| check_style(m, true, &mut e)));
        evals.fetch_add(e, Ordering::Relaxed);
        if !m.plain() {
            nontrivial.fetch_add(1, Ordering::Relaxed);
        }
        if !bads.is_empty() {
            let mut a = agg.lock().unwrap();
            for b in &bads {
                a.add(order_base + i as u64, b, || {
                    let mut r = style_json(m);
                    r["kind"] = json!("style");
                    r["full"] = json!(true);
                    (style_case(m), r)
                });
            }
        }
    });
    order_base += styles.len() as u64;
    out.push_part(json!({"part":"styles x {Display, {:#}, render, render_reset} x 34 specs + write_to + write_reset_to","distinct_styles":styles.len(),"new_styles_per_family":parts}));
    for idx in [1usize, 4096 + 0xfff, styles.len() / 2, styles.len() - 1] {
        if let Some(m) = styles.get(idx) {
            let s = real_style(m);
            out.push_sample(json!({"style": style_case(m), "rendered": show(format!("{}", s).as_bytes()), "reset": show(format!("{:#}", s).as_bytes())}));
        }
    }

    // thorough: the full RGB cube in every slot (bare paths, no spec grid) + RgbColor/Color render_fg/bg
    let mut cube_done = false;
    if thorough {
        (0..(1u32 << 24)).into_par_iter().for_each(|v| {
            let c = Col::Rgb((v >> 16) as u8, (v >> 8) as u8, v as u8);
            let mut e = 0;
            let mut all: Vec<(Bad, Option<StyleM>)> = vec![];
            for slot in 0..3 {
                let mut m = StyleM { fg: Col::Default, bg: Col::Default, ul: Col::Default, bits: 0 };
                match slot {
                    0 => m.fg = c,
                    1 => m.bg = c,
                    _ => m.ul = c,
                }
                for b in guarded(std::panic::AssertUnwindSafe(|| check_style(&m, false, &mut e))) {
                    all.push((b, Some(m)));
                }
            }
            for b in guarded(std::panic::AssertUnwindSafe(|| check_color(c, false, &mut e))) {
                all.push((b, None));
            }
            evals.fetch_add(e, Ordering::Relaxed);
            nontrivial.fetch_add(1, Ordering::Relaxed);
            if !all.is_empty() {
                let mut a = agg.lock().unwrap();
                for (b, m) in &all {
                    a.add(order_base + v as u64, b, || match m {
                        Some(m) => {
                            let mut r = style_json(m);
                            r["kind"] = json!("style");
                            r["full"] = json!(false);
                            (style_case(m), r)
                        }
                        None => (vec![col_str(c)], json!({"kind":"color","col":col_str(c),"full":false})),
                    });
                }
            }
        });
        cube_done = true;
        out.push_part(json!({"part":"RGB cube: every (r,g,b) in fg, bg and underline slot (Display, {:#}, render, render_reset, write_to, write_reset_to) + Color/RgbColor render_fg/bg","colours":1u32<<24}));
    }

    let agg = agg.into_inner().unwrap();
    let recorded = agg.map.len() as u64;
    out.findings.extend(agg.map.into_values().map(|(_, f)| f));
    if agg.total > recorded {
        out.extra_violation_count = agg.total - recorded;
        out.set("violating_observations_total", json!(agg.total));
        out.set("violating_observations_note", json!("findings are aggregated per (path, clause, format spec): the first case in enumeration order is kept"));
    }
    out.set("evaluations", json!(evals.load(Ordering::Relaxed)));
    out.set("distinct_nontrivial", json!(nontrivial.load(Ordering::Relaxed)));
    out.set("rule", json!("evaluations = format!/write_to calls performed; a case is one distinct model value (style tuple, colour, effect set; deduplicated before enumeration) and it is non-trivial when it is not the plain style / empty effect set, i.e. must render a non-empty SGR string that is interpreted by M-VT + M-SGR"));
    out.set("format_specs", json!(N_SPECS));
    out.set("exhaustive", json!(true));
    out.set("explanation", json!(if cube_done {
        "all listed finite domains were completed: 4096 effect sets, 16 + 256 colours per slot, per-component RGB sweeps, the full 2^24 RGB cube per slot, the representative cross product; every path x 34 literal format specs"
    } else {
        "all listed finite domains were completed: 4096 effect sets, 16 + 256 colours per slot, all 256 values of each RGB component per slot (other two from {0,9,10,99,100,255}), the representative cross product; every path x 34 literal format specs (the full RGB cube runs in the thorough tier)"
    }));
    out.assume("M-VT / M-SGR (vmodel) are the reading of 'ECMA-48/xterm SGR rules': zero-padded parameters denote the same code, `4:n` selects an underline style, 21 is double underline, 5 is blink");
    out.assume("effects are compared as the set of effects denoted by the codes (a terminal keeps one underline style; with at most one underline effect the terminal state itself is compared too)");
    out.assume("the alternate flag `#` is only defined for Style's own Display (reset form); on render()/render_reset()/Reset/Effects/colour wrappers `{:#}` must only be pure SGR and insensitive to width/fill/align/precision");
    out.assume("the reset form is applied to the terminal state reached by the style's own rendering from the default state");
    out.assume("cross product over the three colour slots and effects is representative (12 colours^3 x 16 effect sets; thorough 20^3 x 58), each single component is exhaustive");
    out
}

fn replay(v: &Value) -> Result<(), String> {
    if v["kind"] == "feature-configuration" || v["kind"] == "env" {
        // re-run the worker / the environment part and report its first finding
        if v["kind"] == "env" {
            return Err("environment-dependence findings are replayed by re-running the check".into());
        }
        let r = vchecks::parsecfg::build_and_run_feat(v["feature"].as_str().unwrap_or(""))?;
        return match r["findings"].as_array().and_then(|a| a.first()) {
            Some(f) => Err(format!("{}: {}", f["case"].as_str().unwrap_or(""), f["message"].as_str().unwrap_or(""))),
            None => Ok(()),
        };
    }
    std::panic::set_hook(Box::new(|_| {}));
    let mut e = 0;
    let full = v["full"].as_bool().unwrap_or(true);
    let bads = match v["kind"].as_str().unwrap_or("") {
        "reset" => guarded(std::panic::AssertUnwindSafe(|| check_reset(&mut e))),
        "effects" => {
            let bits = v["bits"].as_u64().ok_or("bits missing")? as u16;
            guarded(std::panic::AssertUnwindSafe(|| check_effects(bits, &mut e)))
        }
        "color" => {
            let c = col_parse(v["col"].as_str().ok_or("col missing")?)?;
            guarded(std::panic::AssertUnwindSafe(|| check_color(c, full, &mut e)))
        }
        "style" => {
            let m = StyleM {
                fg: col_parse(v["fg"].as_str().ok_or("fg missing")?)?,
                bg: col_parse(v["bg"].as_str().ok_or("bg missing")?)?,
                ul: col_parse(v["ul"].as_str().ok_or("ul missing")?)?,
                bits: v["bits"].as_u64().ok_or("bits missing")? as u16,
            };
            guarded(std::panic::AssertUnwindSafe(|| check_style(&m, full, &mut e)))
        }
        k => return Err(format!("unknown replay kind {k}")),
    };
    // the recorded (path, clause, spec) first, any other violation of the same case otherwise
    let same = bads.iter().find(|b| Some(b.system) == v["system"].as_str() && Some(b.clause) == v["clause"].as_str() && Some(b.spec) == v["spec"].as_str());
    match same.or(bads.first()) {
        None => Ok(()),
        Some(b) => Err(format!("{} :: {} :: {} :: {}", b.system, b.clause, b.spec, b.msg)),
    }
}

fn main() {
    run_check("C05", "exploration", main_check, replay);
}
