//! C03 - incremental processing equals one-shot processing for every chunking.
//!
//! The reference models are chunk-agnostic, so chunking invariance reduces to: every chunk
//! transition from every chunk-reachable state conforms to the model.
//! (a) product BFS whose tokens are whole chunks (all chunks of <= n class symbols) for
//!     StripBytes, StripStr (chunks of <= n chars) and StripStream (one write_all per chunk),
//!     run to fixpoint;
//! (b) product BFS over SGR/text fragments for WinconBytes (parser state is unbounded: depth bound);
//! (c) directly as stated: for every input of <= L symbols over a focused alphabet, all
//!     2^(len-1) partitions are compared with the one-shot result (no model involved).

use anstream::adapter::{StripBytes, StripStr, WinconBytes};
use rayon::prelude::*;
use serde_json::json;
use std::io::Write as _;
use std::sync::atomic::{AtomicU64, Ordering};
use vchecks::common::*;
use vchecks::strip_sys::*;
use vchecks::wincon_sys::*;
use vexplore::bfs::{self, Limits, System};
use vexplore::evidence::*;
use vexplore::util::*;
use vmodel::strip::StripModel;

/// StripStream is neither Clone nor comparable: a state is the chunk history that reaches it
/// (replayed into a fresh stream), matched on the Debug text of the strip state.
#[derive(Clone, Debug)]
struct SsState {
    history: Vec<usize>,
    canon: String,
    model: StripModel,
}
impl PartialEq for SsState {
    fn eq(&self, o: &Self) -> bool {
        self.canon == o.canon && self.model == o.model
    }
}
impl Eq for SsState {}

struct StripStreamSys {
    tokens: Vec<Vec<u8>>,
}

fn stream_canon(s: &anstream::StripStream<Vec<u8>>) -> String {
    let d = format!("{s:?}");
    match d.find("state: StripBytes") {
        Some(i) => d[i..].to_string(),
        None => d,
    }
}

impl System for StripStreamSys {
    type State = SsState;
    fn name(&self) -> String {
        "StripStream::write_all/chunk".into()
    }
    fn alphabet_len(&self) -> usize {
        self.tokens.len()
    }
    fn token_label(&self, t: usize) -> String {
        hex(&self.tokens[t])
    }
    fn init(&self) -> Vec<SsState> {
        let s = anstream::StripStream::new(Vec::new());
        vec![SsState { history: vec![], canon: stream_canon(&s), model: StripModel::default() }]
    }
    fn key(&self, s: &SsState) -> u64 {
        hash_of(&(&s.canon, &s.model))
    }
    fn step(&self, s: &SsState, t: usize) -> Result<(SsState, u64), String> {
        // what the history alone delivers
        let mut probe = anstream::StripStream::new(Vec::new());
        for &h in &s.history {
            probe.write_all(&self.tokens[h]).map_err(|e| format!("write_all failed on Vec: {e}"))?;
        }
        if stream_canon(&probe) != s.canon {
            return Err("machinery: replayed history did not reproduce the state".into());
        }
        let delivered_before = probe.into_inner().len();
        // the history again, then the new chunk
        let mut stream = anstream::StripStream::new(Vec::new());
        for &h in &s.history {
            stream.write_all(&self.tokens[h]).map_err(|e| format!("write_all failed on Vec: {e}"))?;
        }
        stream.write_all(&self.tokens[t]).map_err(|e| format!("write_all failed on Vec: {e}"))?;
        let canon = stream_canon(&stream);
        let all = stream.into_inner();
        if all.len() < delivered_before {
            return Err("machinery: delivered bytes shrank".into());
        }
        let new = &all[delivered_before..];
        let mut model = s.model;
        model
            .check_output(&self.tokens[t], new)
            .map_err(|m| format!("{m} (chunk {} -> delivered {})", show(&self.tokens[t]), show(new)))?;
        let mut history = s.history.clone();
        history.push(t);
        Ok((SsState { history, canon, model }, hash_of(&new.to_vec())))
    }
}

fn chunks_upto(syms: &[u8], n: usize) -> Vec<Vec<u8>> {
    strings_upto(syms.len(), n).filter(|c| !c.is_empty()).map(|c| c.iter().map(|&i| syms[i]).collect()).collect()
}

fn partitions(len: usize) -> impl Iterator<Item = Vec<(usize, usize)>> {
    // every subset of the len-1 cut positions
    let cuts = len.saturating_sub(1);
    (0..(1u32 << cuts)).map(move |mask| {
        let mut v = vec![];
        let mut start = 0;
        for i in 0..cuts {
            if mask & (1 << i) != 0 {
                v.push((start, i + 1));
                start = i + 1;
            }
        }
        if len > 0 {
            v.push((start, len));
        }
        v
    })
}

fn clause_of(m: &str) -> String {
    if m.contains("partition") {
        "chunking-differs".into()
    } else if m.starts_with("machinery") {
        "machinery".into()
    } else {
        let c = wincon_clause_of(m);
        if c != "other" {
            c
        } else {
            // strip clauses
            for (pat, c) in [
                ("panic:", "panic"),
                ("forbidden", "forbidden-byte-in-output"),
                ("not visible text was emitted", "non-visible-byte-emitted"),
                ("was dropped", "visible-byte-dropped"),
                ("not kept whole", "character-not-kept-whole"),
                ("surplus", "surplus-output"),
            ] {
                if m.contains(pat) {
                    return c.to_string();
                }
            }
            "other".into()
        }
    }
}

fn strip_starts(alpha: &[u8]) -> Vec<(StripBytes, vmodel::strip::StripModel)> {
    let sys_cls = StripBytesSys { tokens: alpha.iter().map(|&b| vec![b]).collect(), label: "StripBytes::strip_next/class-bytes".into() };
    bfs::reachable_states(&sys_cls, &Limits::depth(64)).0
}

/// WinconBytes after each class byte string of <= 2 (parser states incl. partial characters)
fn wincon_starts(alpha: &[u8]) -> Vec<WinconBytes> {
    let mut v = vec![WinconBytes::new()];
    for c in strings_upto(alpha.len(), 2).filter(|c| !c.is_empty()) {
        let mut w = WinconBytes::new();
        let bytes: Vec<u8> = c.iter().map(|&i| alpha[i]).collect();
        let _ = w.extract_next(&bytes).count();
        if !v.contains(&w) {
            v.push(w);
        }
    }
    v
}

/// follow-up chunks that tell the adapter states apart: text, a final byte, continuation bytes, terminators
const PROBES: [&[u8]; 8] = [b"a", b"mx", b"\xa9x", b"\x9c\x85x", b"\x1b\\x", b"\x07x", b";5;9mx", b"\x80\x80x"];

fn pair_strip(st: &StripBytes, p: &[u8]) -> Result<(), String> {
    let mut one = st.clone();
    let whole: Vec<u8> = one.strip_next(p).collect::<Vec<_>>().concat();
    let mut two = st.clone();
    let mut split: Vec<u8> = two.strip_next(&p[..1]).collect::<Vec<_>>().concat();
    split.extend(two.strip_next(&p[1..]).collect::<Vec<_>>().concat());
    if whole != split {
        return Err(format!("from {:?}: the chunk {} gives {} (end {:?}), byte by byte {} (end {:?})", st, show(p), show(&whole), one, show(&split), two));
    }
    // the two must also have the same future (observed through probes, not through the private fields)
    for probe in PROBES {
        let a: Vec<u8> = one.clone().strip_next(probe).collect::<Vec<_>>().concat();
        let b: Vec<u8> = two.clone().strip_next(probe).collect::<Vec<_>>().concat();
        if a != b {
            return Err(format!("from {:?}: after the chunk {} the next chunk {} gives {}, after the same bytes one by one {}", st, show(p), show(probe), show(&a), show(&b)));
        }
    }
    Ok(())
}

fn pair_wincon(st: &WinconBytes, p: &[u8]) -> Result<(), String> {
    let mut one = st.clone();
    let whole = merge_real(one.extract_next(p).collect());
    let mut two = st.clone();
    let mut runs: Vec<_> = two.extract_next(&p[..1]).collect();
    runs.extend(two.extract_next(&p[1..]));
    let split = merge_real(runs);
    if whole != split {
        return Err(format!("from {:?}: the chunk {} gives {:?}, byte by byte {:?}", st, show(p), whole, split));
    }
    for probe in PROBES {
        let a = merge_real(one.clone().extract_next(probe).collect());
        let b = merge_real(two.clone().extract_next(probe).collect());
        if a != b {
            return Err(format!("from {:?}: after the chunk {} the next chunk {} gives {:?}, after the same bytes one by one {:?}", st, show(p), show(probe), a, b));
        }
    }
    Ok(())
}

/// One input with very many small items, handed over whole and in chunks of `size` bytes, through every
/// incremental interface: the concatenated results must agree (C03's statement, for counts of runs per call
/// instead of lengths).
fn many_items_case(unit: &[u8], n: usize, size: usize) -> Result<(), String> {
    let whole: Vec<u8> = unit.iter().cycle().take(unit.len() * n).copied().collect();
    let chunks: Vec<&[u8]> = whole.chunks(size).collect();
    let one: Vec<u8> = StripBytes::new().strip_next(&whole).collect::<Vec<_>>().concat();
    let mut sb = StripBytes::new();
    let mut got = vec![];
    for c in &chunks {
        for p in sb.strip_next(c) {
            got.extend_from_slice(p);
        }
    }
    let differs = |what: &str, a: &[u8], b: &[u8]| {
        let at = a.iter().zip(b.iter()).position(|(x, y)| x != y).unwrap_or(a.len().min(b.len()));
        format!("{what}: chunks of {size} bytes give {} bytes, one call gives {} bytes; first difference at output offset {at}", a.len(), b.len())
    };
    if got != one {
        return Err(differs("StripBytes::strip_next", &got, &one));
    }
    let mut s1 = anstream::StripStream::new(Vec::new());
    s1.write_all(&whole).map_err(|e| e.to_string())?;
    let mut s2 = anstream::StripStream::new(Vec::new());
    for c in &chunks {
        s2.write_all(c).map_err(|e| e.to_string())?;
    }
    let (o1, o2) = (s1.into_inner(), s2.into_inner());
    if o1 != o2 {
        return Err(differs("StripStream::write_all per chunk", &o2, &o1));
    }
    if o1 != one {
        return Err(differs("StripStream::write_all vs StripBytes (one call each)", &o1, &one));
    }
    let mut s3 = anstream::StripStream::new(Vec::new());
    let mut rest = &whole[..];
    while !rest.is_empty() {
        let k = s3.write(&rest[..rest.len().min(size)]).map_err(|e| e.to_string())?;
        if k == 0 {
            return Err("StripStream::write returned Ok(0) for a non-empty buffer".into());
        }
        rest = &rest[k..];
    }
    let o3 = s3.into_inner();
    if o3 != o1 {
        return Err(differs("StripStream::write loop", &o3, &o1));
    }
    if let Ok(text) = std::str::from_utf8(&whole) {
        let one_s: String = StripStr::new().strip_next(text).collect();
        let mut st = StripStr::new();
        let mut got_s = String::new();
        let mut i = 0;
        while i < text.len() {
            let mut j = (i + size).min(text.len());
            while !text.is_char_boundary(j) {
                j += 1;
            }
            got_s.extend(st.strip_next(&text[i..j]));
            i = j;
        }
        if got_s != one_s {
            return Err(differs("StripStr::strip_next", got_s.as_bytes(), one_s.as_bytes()));
        }
        if one_s.as_bytes() != &one[..] {
            return Err(differs("StripStr vs StripBytes (one call each)", one_s.as_bytes(), &one));
        }
    }
    let one_runs = merge_real(WinconBytes::new().extract_next(&whole).collect());
    let mut wb = WinconBytes::new();
    let mut runs = vec![];
    for c in &chunks {
        runs.extend(wb.extract_next(c));
    }
    let runs = merge_real(runs);
    if runs != one_runs {
        let at = runs.iter().zip(one_runs.iter()).position(|(x, y)| x != y).unwrap_or(runs.len().min(one_runs.len()));
        return Err(format!("WinconBytes::extract_next: chunks of {size} bytes give {} merged runs, one call gives {}; first difference at run {at}", runs.len(), one_runs.len()));
    }
    Ok(())
}

const MANY_UNITS: [&[u8]; 5] = [b"\x1b[1ma", b"\x1b[31m\xc3\xa9\x1b[0m ", b"a\x07", b"\x1b]0;t\x07b\x1b[m", b"x\x1bc"];
const MANY_COUNTS: [usize; 16] = [15, 16, 17, 255, 256, 257, 1023, 1024, 1025, 1026, 2047, 2048, 2049, 2050, 4097, 10001];
const MANY_SIZES: [usize; 5] = [1, 7, 1000, 4096, 8192];

fn main_check(ctx: &Ctx) -> Outcome {
    let mut out = Outcome::default();
    let quick = ctx.quick();
    let (alpha, _) = class_alphabet();
    let reps = class_reps();
    let mut all_fix = true;

    // (0) the lock()ed variants of the strip stream over the real stdio (single-threaded, first)
    {
        let (n, bad) = vchecks::stdio_sys::lock_chunking_violations();
        for (case, message) in bad.into_iter().take(20) {
            out.findings.push(Finding {
                system: "StripStream/AutoStream::never over real stdio: write_all; lock(); write_all".into(),
                clause: "chunking-differs".into(),
                case: vec![case],
                message,
                replay: json!({"kind":"lock"}),
            });
        }
        out.push_part(json!({"system":"write_all; lock(); write_all over the real stdout/stderr redirected to files, every cut position","cases":n}));
    }

    // (a) chunk-token BFS to fixpoint
    let n = if quick { 2 } else { 3 };
    let sys = StripBytesSys { tokens: chunks_upto(&alpha, n), label: format!("StripBytes::strip_next/chunks<={n}") };
    let rep = bfs::explore(&sys, &Limits::depth(32));
    all_fix &= rep.fixpoint();
    out.add_bfs(&rep);
    out.findings.extend(bfs_findings(&rep, clause_of));

    let chars = {
        let mut v: Vec<String> = alpha.iter().filter(|&&b| b < 0x80).map(|&b| (b as char).to_string()).collect();
        for c in ['é', '世', '😀', '\u{9c}', '\u{80}'] {
            v.push(c.to_string());
        }
        v
    };
    let nchar = if quick { 2 } else { 3 };
    let str_tokens: Vec<String> =
        strings_upto(chars.len(), nchar).filter(|c| !c.is_empty()).map(|c| c.iter().map(|&i| chars[i].as_str()).collect()).collect();
    // ... and every string of <= 2 characters over the full ASCII range (a character the code singles out
    // that the class alphabet does not know of still gets exercised at chunk start, middle and end)
    let str_tokens: Vec<String> = {
        let full: Vec<String> = (0u8..0x80).map(|b| (b as char).to_string()).chain(['é', '\u{9c}', '世'].iter().map(|c| c.to_string())).collect();
        let mut v = str_tokens;
        v.extend(strings_upto(full.len(), 2).filter(|c| !c.is_empty()).map(|c| c.iter().map(|&i| full[i].as_str()).collect::<String>()));
        v.sort();
        v.dedup();
        v
    };
    let sys_str = StripStrSys { tokens: str_tokens };
    let rep = bfs::explore(&sys_str, &Limits::depth(32));
    all_fix &= rep.fixpoint();
    out.add_bfs(&rep);
    out.findings.extend(bfs_findings(&rep, clause_of));

    let sys_stream = StripStreamSys { tokens: chunks_upto(if quick { &reps } else { &alpha }, 2) };
    let rep = bfs::explore(&sys_stream, &Limits::depth(32));
    all_fix &= rep.fixpoint();
    out.add_bfs(&rep);
    out.findings.extend(bfs_findings(&rep, clause_of));

    // (b) WinconBytes over fragments
    let frags: Vec<&[u8]> = vec![
        b"\x1b", b"[", b"0", b"1", b"3", b"8", b";", b":", b"5", b"2", b"m", b"a", b"\n", b"\xc3", b"\xa9", b"H", b"]", b"\x07", b"c",
        b"\x1b[1", b";31m", b"\x1b[38;5;", b"38:2:1:2:3m",
    ];
    let mut wsys = WinconSys { label: "WinconBytes::extract_next/fragments".into(), tokens: vec![], guards: vec![] };
    for f in &frags {
        wsys.push(f.to_vec(), &[]);
    }
    let mut lim = Limits::depth(if quick { 4 } else { 6 });
    lim.max_wall_s = if quick { 20.0 } else { 900.0 };
    let rep = bfs::explore(&wsys, &lim);
    out.add_bfs(&rep);
    out.findings.extend(bfs_findings(&rep, clause_of));

    // (c) all partitions of short inputs, differential against the one-shot result
    // two alphabets: single bytes (sequences are assembled byte by byte) and whole sequences / characters as tokens
    // (longer inputs: styled text, then a non-SGR sequence, then text, all inside one chunk or cut anywhere between)
    let focus_bytes: Vec<&[u8]> = vec![b"a", b"\x1b", b"[", b"1", b"m", b"\n", b"\xc3", b"\xa9", b";", b"]", b"\x07", b"c"];
    let focus_macro: Vec<&[u8]> = vec![b"a", "\u{e9}".as_bytes(), b"\n", b"\x1b[1m", b"\x1b[31m", b"\x1b[0m", b"\x1b[4:3m", b"\x1bc", b"\x1b[H", b"\x1b]0;t\x07", b"\x1b[38;5;", b"9m"];
    let evals = AtomicU64::new(0);
    let viol = std::sync::Mutex::new(Vec::<Finding>::new());
    let distinct = std::sync::Mutex::new(std::collections::HashSet::<u64>::new());
    // bytes at the edges of UTF-8: the first / last lead bytes, the second bytes where well-formedness ends (E0 9F|A0,
    // ED 9F|A0, F0 8F|90, F4 8F|90), plain continuations - a look-ahead decoder and a resumable one must agree wherever
    // the cut falls
    let focus_utf8: Vec<&[u8]> = vec![b"a", b"\x1b[1m", b"\xc2", b"\xe0", b"\xed", b"\xf0", b"\xf4", b"\x80", b"\x8f", b"\x90", b"\x9f", b"\xa0", b"\xbf"];
    for (alphabet_name, focus, l) in [("single bytes", focus_bytes, if quick { 6 } else { 7 }), ("whole sequences", focus_macro, if quick { 5 } else { 6 }), ("UTF-8 edge bytes", focus_utf8, if quick { 5 } else { 6 })] {
        // (index-decoded: the list of 12^7 inputs would take gigabytes)
        let n_inputs = count_upto(focus.len(), l);
        (1..n_inputs).into_par_iter().for_each(|ii| {
            let inp = &string_upto_at(focus.len(), l, ii);
            let toks: Vec<&[u8]> = inp.iter().map(|&i| focus[i]).collect();
            let whole: Vec<u8> = toks.concat();
            let r = guard(|| {
                // one-shot references
                let one_bytes: Vec<u8> = StripBytes::new().strip_next(&whole).collect::<Vec<_>>().concat();
                let mut s = anstream::StripStream::new(Vec::new());
                s.write_all(&whole).unwrap();
                let one_stream = s.into_inner();
                let one_runs = merge_real(WinconBytes::new().extract_next(&whole).collect());
                let whole_str = std::str::from_utf8(&whole).ok();
                let one_str: Option<String> = whole_str.map(|w| StripStr::new().strip_next(w).collect::<Vec<_>>().concat());
                let mut h = vec![hash_of(&one_bytes)];
                for part in partitions(toks.len()) {
                    evals.fetch_add(1, Ordering::Relaxed);
                    let chunks: Vec<Vec<u8>> = part.iter().map(|&(a, b)| toks[a..b].concat()).collect();
                    let mut sb = StripBytes::new();
                    let mut got = vec![];
                    for c in &chunks {
                        for p in sb.strip_next(c) {
                            got.extend_from_slice(p);
                        }
                    }
                    if got != one_bytes {
                        return Err(("StripBytes::strip_next", format!("partition {:?} of {} gives {} but one-shot gives {}", chunks.iter().map(|c| show(c)).collect::<Vec<_>>(), show(&whole), show(&got), show(&one_bytes))));
                    }
                    // the one-shot iterator fed slice after slice (StrippedBytes::extend)
                    let mut it = anstream::adapter::strip_bytes(&chunks[0]);
                    let mut got: Vec<u8> = vec![];
                    for (ci, c) in chunks.iter().enumerate() {
                        if ci > 0 {
                            if !it.is_empty() {
                                return Err(("StrippedBytes::extend", format!("iterator over chunk {} of {:?} reports bytes left after being drained", ci - 1, chunks.iter().map(|c| show(c)).collect::<Vec<_>>())));
                            }
                            it.extend(c);
                        }
                        for p in it.by_ref() {
                            got.extend_from_slice(p);
                        }
                    }
                    if got != one_bytes {
                        return Err(("StrippedBytes::extend", format!("partition {:?} of {} gives {} but one-shot gives {}", chunks.iter().map(|c| show(c)).collect::<Vec<_>>(), show(&whole), show(&got), show(&one_bytes))));
                    }
                    let mut ss = anstream::StripStream::new(Vec::new());
                    for c in &chunks {
                        ss.write_all(c).unwrap();
                    }
                    let got = ss.into_inner();
                    if got != one_stream {
                        return Err(("StripStream::write_all", format!("partition {:?} of {} gives {} but one-shot gives {}", chunks.iter().map(|c| show(c)).collect::<Vec<_>>(), show(&whole), show(&got), show(&one_stream))));
                    }
                    let mut wb = WinconBytes::new();
                    let mut runs = vec![];
                    for c in &chunks {
                        runs.extend(wb.extract_next(c));
                    }
                    let runs = merge_real(runs);
                    if runs != one_runs {
                        return Err(("WinconBytes::extract_next", format!("partition {:?} of {} gives runs {:?} but one-shot gives {:?}", chunks.iter().map(|c| show(c)).collect::<Vec<_>>(), show(&whole), runs, one_runs)));
                    }
                    if let Some(one_str) = &one_str {
                        // text API: only partitions whose chunks are all valid UTF-8
                        if chunks.iter().all(|c| std::str::from_utf8(c).is_ok()) {
                            let mut st = StripStr::new();
                            let mut got = String::new();
                            for c in &chunks {
                                for p in st.strip_next(std::str::from_utf8(c).unwrap()) {
                                    got.push_str(p);
                                }
                            }
                            if &got != one_str {
                                return Err(("StripStr::strip_next", format!("partition {:?} of {} gives {:?} but one-shot gives {:?}", chunks.iter().map(|c| show(c)).collect::<Vec<_>>(), show(&whole), got, one_str)));
                            }
                        }
                    }
                    h.push(hash_of(&chunks));
                }
                Ok(h)
            });
            let r = match r {
                Ok(r) => r,
                Err(p) => Err(("panic", p)),
            };
            match r {
                Ok(h) => {
                    distinct.lock().unwrap().insert(h[0]);
                }
                Err((sys, m)) => {
                    let mut v = viol.lock().unwrap();
                    if v.len() < 100 {
                        v.push(Finding {
                            system: format!("{sys}/partitions"),
                            clause: "chunking-differs".into(),
                            case: vec![hex(&whole)],
                            message: m,
                            replay: json!({"kind":"partitions","tokens": toks.iter().map(|t| hex(t)).collect::<Vec<_>>()}),
                        });
                    }
                }
            }
        });
        out.push_part(json!({"system":"all partitions vs one-shot (StripBytes, StrippedBytes::extend, StripStream, WinconBytes, StripStr)","alphabet":alphabet_name,"inputs":n_inputs - 1,"max_tokens":l,"focus_alphabet":focus.len()}));

    }
    let mut v = viol.into_inner().unwrap();
    v.sort_by_key(|f| (f.case[0].len(), f.key()));
    out.findings.extend(v);

    // (d) every 2-byte chunk over all 256 byte values, from every class-reachable adapter state: as one chunk and as
    //     two chunks (output and end state must agree) - for StripBytes and WinconBytes
    {
        let starts = strip_starts(&alpha);
        let wstarts = wincon_starts(&alpha);
        let pairs: Vec<[u8; 2]> = (0..=255u8).flat_map(|a| (0..=255u8).map(move |b| [a, b])).collect();
        let bad = std::sync::Mutex::new(Vec::<Finding>::new());
        pairs.par_iter().for_each(|p| {
            for (si, st) in starts.iter().enumerate() {
                evals.fetch_add(1, Ordering::Relaxed);
                let r = guard(|| pair_strip(&st.0, &p[..]))
                .and_then(|r| r);
                if let Err(m) = r {
                    let mut v = bad.lock().unwrap();
                    if v.len() < 40 {
                        v.push(Finding { system: "StripBytes::strip_next/all 2-byte chunks".into(), clause: "chunking-differs".into(), case: vec![format!("cls{si}"), hex(&p[..])], message: m, replay: json!({"kind":"pair","api":"strip","start":si,"chunk":hex(&p[..])}) });
                    }
                }
            }
            for (si, st) in wstarts.iter().enumerate() {
                evals.fetch_add(1, Ordering::Relaxed);
                let r = guard(|| pair_wincon(st, &p[..]))
                .and_then(|r| r);
                if let Err(m) = r {
                    let mut v = bad.lock().unwrap();
                    if v.len() < 40 {
                        v.push(Finding { system: "WinconBytes::extract_next/all 2-byte chunks".into(), clause: "chunking-differs".into(), case: vec![format!("w{si}"), hex(&p[..])], message: m, replay: json!({"kind":"pair","api":"wincon","start":si,"chunk":hex(&p[..])}) });
                    }
                }
            }
        });
        let mut v = bad.into_inner().unwrap();
        v.sort_by_key(|f| f.key());
        v.truncate(10);
        out.findings.extend(v);
        out.push_part(json!({"system":"every 2-byte chunk over 256 byte values: one chunk vs two (StripBytes from every class-reachable state, WinconBytes from every state after <= 2 class bytes)","pairs":pairs.len(),"strip_start_states":starts.len(),"wincon_start_states":wstarts.len()}));
    }
    // (e) very many small items in one call vs the same input in chunks (batching by count: 16 / 256 / 1024 / 2048 /
    //     4096 items per call)
    {
        let cases: Vec<(usize, usize, usize)> = (0..MANY_UNITS.len()).flat_map(|u| MANY_COUNTS.iter().flat_map(move |&n| MANY_SIZES.iter().map(move |&sz| (u, n, sz)))).collect();
        let bad: Vec<Finding> = cases
            .par_iter()
            .filter_map(|&(u, n, sz)| {
                if sz == 1 && n > 2050 {
                    return None;
                }
                evals.fetch_add(1, Ordering::Relaxed);
                let r = guard(|| many_items_case(MANY_UNITS[u], n, sz)).and_then(|r| r);
                r.err().map(|m| Finding { system: "many small items: one call vs chunks".into(), clause: "chunking-differs".into(), case: vec![show(MANY_UNITS[u]), format!("x{n}"), format!("chunks of {sz}")], message: m, replay: json!({"kind":"many","unit":u,"n":n,"size":sz}) })
            })
            .collect();
        let mut bad = bad;
        bad.sort_by_key(|f| f.key());
        bad.truncate(10);
        out.findings.extend(bad);
        out.push_part(json!({"system":"very many small items in one call vs chunks (StripBytes, StripStream write_all and write loop, StripStr, WinconBytes)","units":MANY_UNITS.iter().map(|u| show(u)).collect::<Vec<_>>(),"counts":MANY_COUNTS,"chunk_sizes":MANY_SIZES}));
    }
    out.set("evaluations", json!(evals.load(Ordering::Relaxed)));
    out.set("distinct_nontrivial", json!(distinct.lock().unwrap().len()));
    out.set("rule", json!("evaluations = (input, partition) pairs of part (c); distinct_nontrivial = distinct one-shot outputs among the inputs"));
    out.set("exhaustive", json!(all_fix));
    out.set("explanation", json!("chunk-token BFS of the three strip systems closed (frontier empty): any input, any partition into chunks of <= n symbols; WinconBytes is depth-bounded; partitions part is exhaustive up to the stated input length"));
    out.assume("the reference models are chunk-agnostic (they consume bytes one at a time)");
    out
}

fn replay(v: &serde_json::Value) -> Result<(), String> {
    match v["kind"].as_str().unwrap_or("") {
        "bfs" => {
            let sysname = v["system"].as_str().unwrap_or("");
            let labels: Vec<Vec<u8>> = v["labels"].as_array().unwrap().iter().map(|x| x.as_str().unwrap().to_string()).map(|l| if sysname.starts_with("WinconBytes") { unshow(&l) } else { unhex(&l) }).collect();
            if sysname.starts_with("StripBytes") {
                let (mut imp, mut model) = (StripBytes::new(), StripModel::default());
                for l in labels {
                    run_strip_bytes(&mut imp, &mut model, &l)?;
                }
            } else if sysname.starts_with("StripStr:") {
                let (mut imp, mut model) = (StripStr::new(), StripModel::default());
                for l in labels {
                    run_strip_str(&mut imp, &mut model, std::str::from_utf8(&l).unwrap())?;
                }
            } else if sysname.starts_with("StripStream") {
                let mut model = StripModel::default();
                let mut done = 0;
                for i in 0..labels.len() {
                    let mut stream = anstream::StripStream::new(Vec::new());
                    for l in &labels[..=i] {
                        stream.write_all(l).map_err(|e| e.to_string())?;
                    }
                    let all = stream.into_inner();
                    model.check_output(&labels[i], &all[done.min(all.len())..])?;
                    done = all.len();
                }
            } else {
                let (mut imp, mut model) = (WinconBytes::new(), vmodel::runs::RunModel::default());
                for l in labels {
                    wincon_step(&mut imp, &mut model, &l)?;
                }
            }
            Ok(())
        }
        "many" => many_items_case(MANY_UNITS[v["unit"].as_u64().unwrap_or(0) as usize % MANY_UNITS.len()], v["n"].as_u64().unwrap_or(0) as usize, v["size"].as_u64().unwrap_or(1).max(1) as usize),
        "partitions" => {
            let toks: Vec<Vec<u8>> = v["tokens"].as_array().unwrap().iter().map(|x| unhex(x.as_str().unwrap())).collect();
            let whole: Vec<u8> = toks.concat();
            let one: Vec<u8> = StripBytes::new().strip_next(&whole).collect::<Vec<_>>().concat();
            let one_runs = merge_real(WinconBytes::new().extract_next(&whole).collect());
            for part in partitions(toks.len()) {
                let chunks: Vec<Vec<u8>> = part.iter().map(|&(a, b)| toks[a..b].concat()).collect();
                let mut sb = StripBytes::new();
                let mut got = vec![];
                let mut wb = WinconBytes::new();
                let mut runs = vec![];
                for c in &chunks {
                    for p in sb.strip_next(c) {
                        got.extend_from_slice(p);
                    }
                    runs.extend(wb.extract_next(c));
                }
                if got != one {
                    return Err(format!("StripBytes: partition {:?} gives {} but one-shot gives {}", chunks, show(&got), show(&one)));
                }
                if merge_real(runs.clone()) != one_runs {
                    return Err(format!("WinconBytes: partition {:?} gives {:?} but one-shot gives {:?}", chunks, merge_real(runs), one_runs));
                }
            }
            Ok(())
        }
        "pair" => {
            let (alpha, _) = class_alphabet();
            let p = unhex(v["chunk"].as_str().unwrap_or(""));
            let i = v["start"].as_u64().unwrap_or(0) as usize;
            if v["api"] == "wincon" {
                pair_wincon(wincon_starts(&alpha).get(i).ok_or("start state no longer exists")?, &p)
            } else {
                pair_strip(&strip_starts(&alpha).get(i).ok_or("start state no longer exists")?.0, &p)
            }
        }
        "lock" => match vchecks::stdio_sys::lock_chunking_violations().1.first() {
            Some((c, m)) => Err(format!("{c}: {m}")),
            None => Ok(()),
        },
        k => Err(format!("unknown replay kind {k}")),
    }
}

fn unshow(s: &str) -> Vec<u8> {
    // inverse of util::show
    let mut out = vec![];
    let b = s.as_bytes();
    let mut i = 0;
    while i < b.len() {
        if b[i..].starts_with(b"ESC") {
            out.push(0x1b);
            i += 3;
        } else if b[i] == b'\\' && i + 3 < b.len() && b[i + 1] == b'x' {
            out.push(u8::from_str_radix(&s[i + 2..i + 4], 16).unwrap());
            i += 4;
        } else {
            out.push(b[i]);
            i += 1;
        }
    }
    out
}

fn main() {
    run_check("C03", "model_checking", main_check, replay);
}
