//! C14 - SVG rendering is well-formed, text-preserving and style-faithful.
//!
//! E3: every token string of <= n tokens (text tokens incl. XML-special, wide and
//! zero-width characters, CRLF; complete SGR sequences; one non-SGR sequence)
//! x {VGA, WIN10} palettes x default colours x background on/off through
//! `anstyle_svg::Term::render_svg`.  Oracle (all independent of the crate):
//!   * the strict XML 1.0 reader `vmodel::xml` accepts the document (thorough:
//!     python3's expat as a second parser over every distinct output);
//!   * text of the foreground row of every line == visible text of the M-VT/M-SGR
//!     model split at LF (CR before LF dropped);
//!   * one row position per line, increasing, last baseline inside the canvas height;
//!   * every class used on a span has a rule in the <style> sheet, and what the rules
//!     declare (fill / stroke+fill / text-decoration-color / font-weight / ...) is,
//!     character by character, the model style after the invert swap against the
//!     configured default colours, colours resolved through the configured palette
//!     (M-COLOR).

use rayon::prelude::*;
use serde_json::json;
use std::collections::{HashMap, HashSet};
use std::io::{Read as _, Write as _};
use std::sync::atomic::{AtomicU64, Ordering};
use std::sync::Mutex;
use vexplore::evidence::*;
use vexplore::util::*;
use vmodel::color::{self, Rgb};
use vmodel::sgr::{fx, Col, Sgr};
use vmodel::vt::{Ev, Vt};
use vmodel::xml;

const SYSTEM: &str = "anstyle_svg::Term::render_svg";

// ---------------------------------------------------------------- tokens

#[derive(Clone, Debug)]
#[allow(dead_code)]
struct Tok {
    label: String,
    bytes: Vec<u8>,
    text: bool,
}

fn text_tokens() -> Vec<Tok> {
    ["a", "<", "&", ">", "\"", "'", " ", "\t", "\n", "\r\n", "\u{4e16}", "\u{200b}", "\u{301}"]
        .iter()
        .map(|s| Tok { label: format!("{:?}", s), bytes: s.as_bytes().to_vec(), text: true })
        .collect()
}

fn sgr(params: &str) -> Tok {
    let mut b = b"\x1b[".to_vec();
    b.extend(params.as_bytes());
    b.push(b'm');
    Tok { label: format!("CSI{params}m"), bytes: b, text: false }
}

/// single-attribute sequences: unaffected by parameter-to-parameter state inside one sequence
const SGR_BASE: &[&str] = &[
    "0", "", "1", "3", "4", "7", "2", "9", "31", "37", "92", "44", "103", "38;5;9", "38;5;100", "48;5;100",
    "38;2;1;2;3", "48;2;255;0;10", "58;5;9", "58;2;1;2;3", "39", "49", "38:5:100", "4:3",
    // truecolor values that differ from the ones above in exactly one component (class names / sheet keys)
    "38;2;1;2;200", "38;2;1;77;3", "38;2;99;2;3", "48;2;255;0;99", "58;2;1;2;77",
];
/// several attributes in one sequence, extended/underline forms only in last position
const SGR_MULTI_TAIL: &[&str] = &["1;31", "0;7", "7;44", "3;38;5;100"];
/// several attributes in one sequence, with attributes following `4`, `38;5;n`, `38;2;r;g;b`, `4:3`
const SGR_MULTI_ANY: &[&str] = &["4;1", "38;5;10;1", "48;2;1;2;3;3", "4:3;31", "58;5;9;4", "4;31;44"];
/// additional single-attribute sequences of the thorough tier
const SGR_RICH: &[&str] = &[
    "8", "21", "4:1", "4:2", "4:4", "4:5", "30", "32", "33", "34", "35", "36", "90", "91", "93", "94", "95", "96", "97",
    "40", "41", "42", "43", "45", "46", "47", "100", "101", "102", "104", "105", "106", "107", "38;5;0", "38;5;15",
    "38;5;16", "38;5;231", "38;5;232", "38;5;255", "48;5;7", "48;5;8", "48;5;255", "58;5;100", "38:2:1:2:3",
    "48:5:100", "58:2:9:8:7", "38;2;0;0;0", "48;2;255;255;255", "4:0", "1;3;4;9", "38;5;9;48;5;12;58;5;10", "7;38;2;9;9;9;2", "01", "031", "50", "255",
];

fn non_sgr() -> Tok {
    Tok { label: "CSI-H".into(), bytes: b"\x1b[H".to_vec(), text: false }
}

fn alphabet(multi_any: bool, rich: bool) -> Vec<Tok> {
    let mut v = text_tokens();
    v.extend(SGR_BASE.iter().map(|p| sgr(p)));
    // a colour change immediately followed by a character, as one token: two differently coloured
    // pieces of text fit in two tokens (colours that differ in one component share nothing in the sheet)
    for (params, ch) in [("38;2;1;2;3", "p"), ("38;2;1;2;200", "q"), ("48;2;255;0;10", "r"), ("48;2;255;0;99", "s"), ("58;2;1;2;3;4", "t"), ("58;2;1;2;77;4", "u")] {
        let mut t = sgr(params);
        t.bytes.extend(ch.as_bytes());
        t.label = format!("CSI{params}m{ch}");
        t.text = true;
        v.push(t);
    }
    v.extend(SGR_MULTI_TAIL.iter().map(|p| sgr(p)));
    if multi_any {
        v.extend(SGR_MULTI_ANY.iter().map(|p| sgr(p)));
    }
    if rich {
        v.extend(SGR_RICH.iter().map(|p| sgr(p)));
    }
    v.push(non_sgr());
    // C0 controls that are not text (a conforming extractor drops them; VT and BS are not XML 1.0 characters)
    v.push(Tok { label: "VT".into(), bytes: vec![0x0b], text: false });
    v.push(Tok { label: "BS".into(), bytes: vec![0x08], text: false });
    // an over-long non-SGR sequence (33 parameters): whatever the parser notes about it must not reach later sequences
    v.push(Tok { label: "CSI(1;)*33H".into(), bytes: [b"\x1b[".to_vec(), b"1;".repeat(33), b"H".to_vec()].concat(), text: false });
    if rich {
        v.push(Tok { label: "ESC-SP-!-\"-x".into(), bytes: b"\x1b !\"x".to_vec(), text: false });
        v.push(Tok { label: "CSI(1;)*33-CAN".into(), bytes: [b"\x1b[".to_vec(), b"1;".repeat(33), vec![0x18]].concat(), text: false });
        v.push(Tok { label: "NUL".into(), bytes: vec![0], text: false });
        v.push(Tok { label: "BEL".into(), bytes: vec![7], text: false });
    }
    if rich {
        // not SGR: private marker / intermediate before the final byte, OSC title
        v.push(Tok { label: "CSI>4;2m".into(), bytes: b"\x1b[>4;2m".to_vec(), text: false });
        v.push(Tok { label: "OSC-title".into(), bytes: b"\x1b]0;t<&\x07".to_vec(), text: false });
        v.push(Tok { label: "CSI?25h".into(), bytes: b"\x1b[?25h".to_vec(), text: false });
        v.push(Tok { label: "ESC-c".into(), bytes: b"\x1bc".to_vec(), text: false });
        v.push(Tok { label: "DCS".into(), bytes: b"\x1bPqx\x1b\\".to_vec(), text: false });
        v.push(Tok { label: "\"\u{e9}\"".into(), bytes: "\u{e9}".as_bytes().to_vec(), text: true });
        v.push(Tok { label: "\"\u{1f600}\"".into(), bytes: "\u{1f600}".as_bytes().to_vec(), text: true });
        v.push(Tok { label: "DEL".into(), bytes: vec![0x7f], text: true });
    }
    v
}

// ---------------------------------------------------------------- model

#[derive(Clone, Copy, Debug, PartialEq, Eq, Hash)]
struct MStyle {
    fg: Col,
    bg: Col,
    ul: Col,
    fx: u16,
}

/// visible characters with the style in effect (M-VT events interpreted by M-SGR)
fn model_chars(input: &[u8]) -> Vec<(char, MStyle)> {
    model(input).0
}

/// (styled visible characters, every SGR sequence was inside the well-formed SGR grammar)
fn model(input: &[u8]) -> (Vec<(char, MStyle)>, bool) {
    let mut well_formed = true;
    let mut vt = Vt::default();
    let mut s = Sgr::default();
    let mut out = vec![];
    for &b in input {
        for ev in vt.advance(b) {
            let st = MStyle { fg: s.fg, bg: s.bg, ul: s.ul_color, fx: s.seen };
            match ev {
                Ev::Print(c) => out.push((c, st)),
                Ev::Execute(b) if matches!(b, 0x09 | 0x0a | 0x0c | 0x0d) => out.push((b as char, st)),
                Ev::Csi { params, inter, ignore, byte: b'm' } if inter.is_empty() && !ignore => {
                    well_formed &= s.apply(&params);
                }
                _ => {}
            }
        }
    }
    (out, well_formed)
}

/// visible text split at LF, a CR before the LF dropped
fn model_lines(chars: &[(char, MStyle)]) -> Vec<Vec<(char, MStyle)>> {
    let mut lines: Vec<Vec<(char, MStyle)>> = vec![vec![]];
    for &(c, st) in chars {
        if c == '\n' {
            let cur = lines.last_mut().unwrap();
            if cur.last().map(|x| x.0) == Some('\r') {
                cur.pop();
            }
            lines.push(vec![]);
        } else {
            lines.last_mut().unwrap().push((c, st));
        }
    }
    lines
}

// ---------------------------------------------------------------- configurations

#[derive(Clone, Copy, Debug, PartialEq, Eq, Hash)]
struct Cfg {
    pal: usize,
    defs: usize,
    background: bool,
}

impl Cfg {
    fn label(&self) -> String {
        format!(
            "{}/{}/{}",
            ["VGA", "WIN10"][self.pal],
            ["defaults", "custom-defaults", "swapped-defaults"][self.defs],
            if self.background { "background" } else { "no-background" }
        )
    }
    fn palette(&self) -> &'static [Rgb; 16] {
        [&color::VGA, &color::WIN10][self.pal]
    }
    /// (default foreground, default background) as model colours
    fn defaults(&self) -> (Col, Col) {
        match self.defs {
            0 => (Col::Ansi(7), Col::Ansi(0)),
            1 => (Col::Rgb(250, 240, 230), Col::Idx(236)),
            _ => (Col::Ansi(0), Col::Ansi(15)),
        }
    }
    fn term(&self) -> anstyle_svg::Term {
        let mut t = anstyle_svg::Term::new();
        if self.pal == 1 {
            t = t.palette(anstyle_svg::WIN10_CONSOLE);
        } else {
            t = t.palette(anstyle_svg::VGA);
        }
        match self.defs {
            0 => {}
            1 => {
                t = t
                    .fg_color(anstyle::RgbColor(250, 240, 230).into())
                    .bg_color(anstyle::Ansi256Color(236).into());
            }
            _ => {
                t = t.fg_color(anstyle::AnsiColor::Black.into()).bg_color(anstyle::AnsiColor::BrightWhite.into());
            }
        }
        t.background(self.background)
    }
    fn to_json(&self) -> serde_json::Value {
        json!({"pal": self.pal, "defs": self.defs, "background": self.background})
    }
    fn from_json(v: &serde_json::Value) -> Cfg {
        Cfg {
            pal: v["pal"].as_u64().unwrap_or(0) as usize,
            defs: v["defs"].as_u64().unwrap_or(0) as usize,
            background: v["background"].as_bool().unwrap_or(true),
        }
    }
}

fn configs(ndefs: usize) -> Vec<Cfg> {
    let mut v = vec![];
    for pal in 0..2 {
        for defs in 0..ndefs {
            for background in [true, false] {
                v.push(Cfg { pal, defs, background });
            }
        }
    }
    v
}

fn rgb_of(c: Col, pal: &[Rgb; 16]) -> Option<Rgb> {
    match c {
        Col::Default => None,
        Col::Ansi(i) => Some(pal[i as usize]),
        Col::Idx(i) => Some(color::xterm_to_rgb(i, pal)),
        Col::Rgb(r, g, b) => Some((r, g, b)),
    }
}

// ---------------------------------------------------------------- reading the SVG

type Rule = Vec<(String, String)>;

/// a minimal CSS reader: `selector { prop: value; ... }` blocks, class selectors only
fn parse_css(text: &str) -> Result<HashMap<String, Rule>, String> {
    let mut rules: HashMap<String, Rule> = HashMap::new();
    let mut rest = text;
    loop {
        rest = rest.trim_start();
        if rest.is_empty() {
            return Ok(rules);
        }
        let Some(open) = rest.find('{') else { return Err(format!("style sheet: selector without block: {rest:?}")) };
        let selector = rest[..open].trim();
        let after = &rest[open + 1..];
        let Some(close) = after.find('}') else { return Err("style sheet: unterminated block".into()) };
        let body = &after[..close];
        if body.contains('{') {
            return Err("style sheet: nested block".into());
        }
        let mut decls = vec![];
        for d in body.split(';') {
            let d = d.trim();
            if d.is_empty() {
                continue;
            }
            let Some((p, v)) = d.split_once(':') else { return Err(format!("style sheet: bad declaration {d:?}")) };
            decls.push((p.trim().to_ascii_lowercase(), v.trim().to_string()));
        }
        for sel in selector.split(',') {
            let sel = sel.trim();
            if let Some(class) = sel.strip_prefix('.') {
                if class.is_empty() || !class.chars().all(|c| c.is_ascii_alphanumeric() || c == '-' || c == '_') {
                    return Err(format!("style sheet: unsupported selector {sel:?}"));
                }
                rules.entry(class.to_string()).or_default().extend(decls.iter().cloned());
            }
        }
        rest = &after[close + 1..];
    }
}

fn parse_colour(v: &str) -> Option<Rgb> {
    let v = v.trim();
    if let Some(h) = v.strip_prefix('#') {
        if !h.chars().all(|c| c.is_ascii_hexdigit()) {
            return None;
        }
        let n = |s: &str| u8::from_str_radix(s, 16).ok();
        return match h.len() {
            6 => Some((n(&h[0..2])?, n(&h[2..4])?, n(&h[4..6])?)),
            3 => Some((n(&h[0..1])? * 17, n(&h[1..2])? * 17, n(&h[2..3])? * 17)),
            _ => None,
        };
    }
    if let Some(inner) = v.strip_prefix("rgb(").and_then(|r| r.strip_suffix(')')) {
        let p: Vec<Option<u8>> = inner.split(',').map(|x| x.trim().parse::<u8>().ok()).collect();
        if p.len() == 3 {
            return Some((p[0]?, p[1]?, p[2]?));
        }
    }
    None
}

/// what a class rule declares
#[derive(Clone, Debug, Default, PartialEq, Eq)]
struct Deno {
    fg: Vec<Rgb>,
    bg: Vec<Rgb>,
    ul: Vec<Rgb>,
    /// `background:` declaration (used on the canvas rectangle)
    canvas: Vec<Rgb>,
    fx: u16,
}

fn denote(rule: &Rule) -> Result<Deno, String> {
    let get = |k: &str| rule.iter().rev().find(|(p, _)| p == k).map(|(_, v)| v.as_str());
    let mut d = Deno::default();
    let col = |v: &str| parse_colour(v).ok_or_else(|| format!("unreadable colour value {v:?}"));
    if let Some(c) = get("text-decoration-color") {
        d.ul.push(col(c)?);
    } else if get("text-decoration-line") == Some("underline") {
        d.fx |= match get("text-decoration-style") {
            None | Some("solid") => fx::UNDERLINE,
            Some("double") => fx::DOUBLE_UNDERLINE,
            Some("wavy") => fx::CURLY_UNDERLINE,
            Some("dotted") => fx::DOTTED_UNDERLINE,
            Some("dashed") => fx::DASHED_UNDERLINE,
            Some(o) => return Err(format!("unknown text-decoration-style {o:?}")),
        };
    }
    if get("text-decoration-line") == Some("line-through") {
        d.fx |= fx::STRIKETHROUGH;
    }
    if let Some(f) = get("fill") {
        if get("stroke").is_some() {
            d.bg.push(col(f)?);
        } else {
            d.fg.push(col(f)?);
        }
    }
    if let Some(b) = get("background").or(get("background-color")) {
        d.canvas.push(col(b)?);
    }
    if let Some(w) = get("font-weight") {
        if matches!(w, "bold" | "bolder") || w.parse::<u32>().map_or(false, |n| n >= 600) {
            d.fx |= fx::BOLD;
        }
    }
    if matches!(get("font-style"), Some("italic") | Some("oblique")) {
        d.fx |= fx::ITALIC;
    }
    if let Some(o) = get("opacity") {
        match o.parse::<f64>() {
            Ok(x) if x == 0.0 => d.fx |= fx::HIDDEN,
            Ok(x) if x > 0.0 && x < 1.0 => d.fx |= fx::DIMMED,
            _ => {}
        }
    }
    Ok(d)
}

#[derive(Clone, Debug)]
#[allow(dead_code)]
struct Span {
    classes: Vec<String>,
    text: String,
}

#[derive(Clone, Debug)]
struct Row {
    y: f64,
    /// character data and spans in document order (a `None` class list = text outside any span)
    parts: Vec<(Option<Vec<String>>, String)>,
}

impl Row {
    fn spans(&self) -> Vec<Span> {
        self.parts
            .iter()
            .filter_map(|(c, t)| c.as_ref().map(|c| Span { classes: c.clone(), text: t.clone() }))
            .collect()
    }
}

struct Svg {
    height: Option<f64>,
    css: HashMap<String, Rule>,
    container_classes: Vec<String>,
    /// class lists of <rect> children of the root (the canvas background)
    rect_classes: Vec<Vec<String>>,
    rows: Vec<Row>,
}

fn px(v: &str) -> Option<f64> {
    v.trim().strip_suffix("px").unwrap_or(v.trim()).parse::<f64>().ok()
}

fn classes_of(e: &xml::Element) -> Vec<String> {
    e.attr("class").map(|c| c.split_whitespace().map(|s| s.to_string()).collect()).unwrap_or_default()
}

fn read_svg(doc: &xml::Document) -> Result<Svg, String> {
    let root = &doc.root;
    if root.name != "svg" {
        return Err(format!("root element is <{}>, not <svg>", root.name));
    }
    let height = root.attr("height").and_then(px);
    let css = match root.find("style") {
        Some(s) => parse_css(&s.text_content())?,
        None => HashMap::new(),
    };
    let mut rows = vec![];
    let mut container_classes = vec![];
    let mut seen_text = false;
    for text in root.elements().filter(|e| e.name == "text") {
        if !seen_text {
            container_classes = classes_of(text);
            seen_text = true;
        }
        for n in &text.children {
            match n {
                xml::Node::Text(t) => {
                    if !t.chars().all(|c| matches!(c, ' ' | '\n' | '\t' | '\r')) {
                        return Err(format!("character data {t:?} directly inside <text>, outside any line"));
                    }
                }
                xml::Node::Element(row) => {
                    if row.name != "tspan" {
                        return Err(format!("unexpected <{}> inside <text>", row.name));
                    }
                    let Some(y) = row.attr("y").and_then(px) else {
                        return Err("line <tspan> without a readable y position".into());
                    };
                    let mut parts = vec![];
                    for c in &row.children {
                        match c {
                            xml::Node::Text(t) => parts.push((None, t.clone())),
                            xml::Node::Element(sp) => {
                                if sp.name != "tspan" {
                                    return Err(format!("unexpected <{}> inside a line", sp.name));
                                }
                                // classes of nested spans are not interpreted; the text counts
                                parts.push((Some(classes_of(sp)), sp.text_content()));
                            }
                        }
                    }
                    // the newline written before the closing tag of a line belongs to the markup
                    if let Some((None, t)) = parts.last_mut() {
                        if t.ends_with('\n') {
                            t.pop();
                        }
                        if t.is_empty() {
                            parts.pop();
                        }
                    }
                    rows.push(Row { y, parts });
                }
            }
        }
    }
    let rect_classes = root.elements().filter(|e| e.name == "rect").map(classes_of).collect();
    Ok(Svg { height, css, container_classes, rect_classes, rows })
}

// ---------------------------------------------------------------- the oracle

type Viol = (&'static str, String);

fn span_deno(svg: &Svg, classes: &[String]) -> Result<Deno, Viol> {
    let mut d = Deno::default();
    for c in classes {
        let Some(rule) = svg.css.get(c) else {
            return Err(("class-undefined", format!("class {c:?} is used on a span but has no rule in the style sheet")));
        };
        let r = denote(rule).map_err(|m| ("class-rule-unreadable", format!("class {c:?}: {m}")))?;
        for x in r.fg {
            if !d.fg.contains(&x) {
                d.fg.push(x);
            }
        }
        for x in r.bg {
            if !d.bg.contains(&x) {
                d.bg.push(x);
            }
        }
        for x in r.ul {
            if !d.ul.contains(&x) {
                d.ul.push(x);
            }
        }
        for x in r.canvas {
            if !d.canvas.contains(&x) {
                d.canvas.push(x);
            }
        }
        d.fx |= r.fx;
    }
    Ok(d)
}

fn one(v: &[Rgb], what: &str, classes: &[String]) -> Result<Option<Rgb>, Viol> {
    match v.len() {
        0 => Ok(None),
        1 => Ok(Some(v[0])),
        _ => Err(("ambiguous-classes", format!("classes {classes:?} declare several different {what} colours {v:?}"))),
    }
}

fn hexrgb(c: Option<Rgb>) -> String {
    match c {
        None => "none".into(),
        Some((r, g, b)) => format!("#{r:02X}{g:02X}{b:02X}"),
    }
}

fn fx_names(bits: u16) -> String {
    let v: Vec<&str> = (0..12).filter(|i| bits & (1 << i) != 0).map(|i| fx::NAMES[i]).collect();
    format!("{{{}}}", v.join(","))
}

#[derive(Default)]
struct CaseStats {
    nontrivial: bool,
    out_hash: u64,
}

/// Check one rendered document against the model.  `Err` = first violated clause.
fn check_svg(input: &[u8], cfg: Cfg, svg_text: &str) -> Result<(), Viol> {
    let chars = model_chars(input);
    let doc = xml::parse(svg_text).map_err(|e| ("xml-not-well-formed", e.to_string()))?;
    xml::check_namespaces(&doc.root).map_err(|m| ("xml-namespace", m))?;
    let svg = read_svg(&doc).map_err(|m| ("svg-structure", m))?;

    // rows grouped by position: the last row at a position is the foreground row
    let mut groups: Vec<(f64, Vec<&Row>)> = vec![];
    for r in &svg.rows {
        match groups.last_mut() {
            Some((y, g)) if *y == r.y => g.push(r),
            _ => groups.push((r.y, vec![r])),
        }
    }
    let lines = model_lines(&chars);
    let empty_text = chars.is_empty();
    if !(groups.len() == lines.len() || (empty_text && groups.is_empty())) {
        let got: Vec<String> = groups.iter().map(|(_, g)| g.last().unwrap().parts.iter().map(|p| p.1.as_str()).collect()).collect();
        return Err((
            "line-count",
            format!("the visible text has {} line(s) {:?}, the document has {} line position(s) {:?}", lines.len(), lines_text(&lines), groups.len(), got),
        ));
    }
    for w in groups.windows(2) {
        if !(w[1].0 > w[0].0) {
            return Err(("line-position", format!("line positions do not increase: y={} then y={}", w[0].0, w[1].0)));
        }
    }
    if let Some((ylast, _)) = groups.last() {
        match svg.height {
            None => return Err(("canvas-height", "the <svg> element has no readable height".into())),
            Some(h) if h < *ylast => {
                return Err(("canvas-height", format!("height {h} does not reach the baseline y={ylast} of the last of {} line(s)", groups.len())))
            }
            _ => {}
        }
    }

    let pal = cfg.palette();
    let (dfg, dbg) = cfg.defaults();
    let default_fg = rgb_of(dfg, pal);
    let default_bg = rgb_of(dbg, pal);
    // what the container declares for unstyled text
    let container = span_deno(&svg, &svg.container_classes)?;
    let inherited_fg = one(&container.fg, "foreground", &svg.container_classes)?;
    if let Some(c) = inherited_fg {
        if Some(c) != default_fg {
            return Err((
                "default-foreground",
                format!("the text container declares fill {} but the configured default foreground is {}", hexrgb(Some(c)), hexrgb(default_fg)),
            ));
        }
    }

    for rc in &svg.rect_classes {
        let d = span_deno(&svg, rc)?;
        for c in d.canvas.iter().chain(d.fg.iter()) {
            if Some(*c) != default_bg {
                return Err((
                    "default-background",
                    format!("the canvas rectangle (classes {rc:?}) declares {} but the configured default background is {}", hexrgb(Some(*c)), hexrgb(default_bg)),
                ));
            }
        }
    }

    for (li, (line, (_, rows))) in lines.iter().zip(groups.iter()).enumerate() {
        let fg_row = rows.last().unwrap();
        // --- text ---
        let got: String = fg_row.parts.iter().map(|p| p.1.as_str()).collect();
        let want: String = line.iter().map(|x| x.0).collect();
        if got != want {
            return Err(("text-mismatch", format!("line {li}: foreground spans carry {got:?}, the visible text is {want:?}")));
        }
        // --- per character foreground / effects / underline colour ---
        let mut k = 0usize;
        let mut fg_spans = vec![];
        for (classes, text) in &fg_row.parts {
            let cl: &[String] = classes.as_deref().unwrap_or(&[]);
            let d = span_deno(&svg, cl)?;
            let fg = one(&d.fg, "foreground", cl)?;
            let ul = one(&d.ul, "underline", cl)?;
            if classes.is_some() {
                fg_spans.push((k, k + text.chars().count()));
            }
            for ch in text.chars() {
                let (mc, st) = line[k];
                debug_assert_eq!(mc, ch);
                let inv = st.fx & fx::INVERT != 0;
                let want_fg = if inv { rgb_of(st.bg, pal).or(default_bg) } else { rgb_of(st.fg, pal) };
                let eff_got = fg.or(inherited_fg);
                let eff_want = want_fg.or(default_fg);
                let ok = if want_fg.is_some() { eff_got == eff_want } else { fg.is_none() || eff_got == eff_want };
                if !ok {
                    return Err((
                        "foreground-colour",
                        format!(
                            "line {li} char {k} {ch:?}: classes {cl:?} give fill {} (inherited {}), the model style {st:?} needs {}",
                            hexrgb(fg), hexrgb(inherited_fg), hexrgb(eff_want)
                        ),
                    ));
                }
                let want_fx = st.fx & !(fx::INVERT | fx::BLINK);
                if d.fx != want_fx {
                    return Err((
                        "effects",
                        format!("line {li} char {k} {ch:?}: classes {cl:?} denote {}, the model style has {}", fx_names(d.fx), fx_names(want_fx)),
                    ));
                }
                let want_ul = rgb_of(st.ul, pal);
                if ul != want_ul {
                    return Err((
                        "underline-colour",
                        format!("line {li} char {k} {ch:?}: classes {cl:?} give underline colour {}, the model needs {}", hexrgb(ul), hexrgb(want_ul)),
                    ));
                }
                k += 1;
            }
        }
        // --- background ---
        let want_bg: Vec<Option<Rgb>> = line
            .iter()
            .map(|(_, st)| if st.fx & fx::INVERT != 0 { rgb_of(st.fg, pal).or(default_fg) } else { rgb_of(st.bg, pal) })
            .collect();
        let bg_spans: Vec<Span> = rows[..rows.len() - 1].iter().flat_map(|r| r.spans()).collect();
        let mut bg_cols = vec![];
        for s in &bg_spans {
            let d = span_deno(&svg, &s.classes)?;
            bg_cols.push(one(&d.bg, "background", &s.classes)?);
        }
        let bg_ok = |got: Option<Rgb>, want: Option<Rgb>| got == want || (want.is_none() && got == default_bg);
        if rows.len() == 2 && bg_spans.len() == fg_spans.len() {
            // one background span per foreground span: compare character by character
            for (j, (a, b)) in fg_spans.iter().enumerate() {
                for k in *a..*b {
                    if !bg_ok(bg_cols[j], want_bg[k]) {
                        return Err((
                            "background-colour",
                            format!(
                                "line {li} char {k} {:?}: background span {j} (classes {:?}) gives {}, the model style {:?} needs {}",
                                line[k].0, bg_spans[j].classes, hexrgb(bg_cols[j]), line[k].1, hexrgb(want_bg[k])
                            ),
                        ));
                    }
                }
            }
        } else {
            // structure-independent comparison: the sequence of background colours along the line
            let norm = |c: Option<Rgb>| if c == default_bg { None } else { c };
            let mut a: Vec<Option<Rgb>> = bg_cols.iter().map(|&c| norm(c)).collect();
            let mut b: Vec<Option<Rgb>> = want_bg.iter().map(|&c| norm(c)).collect();
            a.dedup();
            b.dedup();
            let trim = |v: &mut Vec<Option<Rgb>>| {
                while v.first() == Some(&None) {
                    v.remove(0);
                }
                while v.last() == Some(&None) {
                    v.pop();
                }
            };
            trim(&mut a);
            trim(&mut b);
            if a != b {
                return Err((
                    "background-colour",
                    format!("line {li}: background spans give the colour sequence {:?}, the model needs {:?}", a.iter().map(|c| hexrgb(*c)).collect::<Vec<_>>(), b.iter().map(|c| hexrgb(*c)).collect::<Vec<_>>()),
                ));
            }
        }
    }
    Ok(())
}

fn lines_text(lines: &[Vec<(char, MStyle)>]) -> Vec<String> {
    lines.iter().map(|l| l.iter().map(|x| x.0).collect()).collect()
}

fn render(input: &[u8], cfg: Cfg) -> Result<String, Viol> {
    let s = std::str::from_utf8(input).expect("token strings are UTF-8").to_string();
    let term = cfg.term();
    std::panic::catch_unwind(move || term.render_svg(&s)).map_err(|p| {
        let m = p.downcast_ref::<String>().cloned().or_else(|| p.downcast_ref::<&str>().map(|s| s.to_string())).unwrap_or_default();
        ("panic", format!("render_svg panicked: {m}"))
    })
}

fn in_domain(input: &[u8]) -> bool {
    // the statement: visible text representable in XML 1.0, no U+000C / U+FFFE / U+FFFF; bare CR excluded
    let (chars, well_formed) = model(input);
    if !well_formed {
        return false; // an SGR sequence outside the grammar the statement refers to
    }
    for (i, (c, st)) in chars.iter().enumerate() {
        // a terminal has one underline style, the style type five independent bits: text styled by two
        // underline styles without a reset in between is left open by the statement (same guard as C07)
        if (st.fx & fx::ALL_UNDERLINES).count_ones() > 1 {
            return false;
        }
        if !xml::is_char(*c) || *c == '\u{c}' {
            return false;
        }
        if *c == '\r' && chars.get(i + 1).map(|x| x.0) != Some('\n') {
            return false;
        }
    }
    true
}

fn run_case(input: &[u8], cfg: Cfg) -> (Result<(), Viol>, CaseStats, Option<String>) {
    match render(input, cfg) {
        Err(v) => (Err(v), CaseStats::default(), None),
        Ok(svg) => {
            let st = CaseStats { nontrivial: svg.contains("</tspan></tspan>") || svg.contains("</tspan>\n</tspan>"), out_hash: hash_of(&svg) };
            (check_svg(input, cfg, &svg), st, Some(svg))
        }
    }
}

// ---------------------------------------------------------------- expat (second parser, thorough tier)

const EXPAT_PY: &str = r#"
import sys, struct, json
from xml.parsers import expat
cap = int(sys.argv[1]) if len(sys.argv) > 1 else 500
inp = sys.stdin.buffer
n = 0
bad = []
while True:
    h = inp.read(8)
    if len(h) < 8:
        break
    ml, dl = struct.unpack('>II', h)
    meta = inp.read(ml)
    doc = inp.read(dl)
    n += 1
    try:
        p = expat.ParserCreate()
        p.Parse(doc, True)
    except expat.ExpatError as e:
        if len(bad) < cap:
            bad.append([meta.decode('utf-8', 'replace'), str(e)])
        else:
            bad.append(None)
sys.stdout.write(json.dumps({'n': n, 'bad_total': len(bad), 'bad': [b for b in bad if b]}))
"#;

struct Expat {
    workers: Vec<Mutex<(std::process::Child, std::io::BufWriter<std::process::ChildStdin>)>>,
}

impl Expat {
    fn start(n: usize) -> Option<Expat> {
        Self::start_with_cap(n, 500)
    }
    fn start_with_cap(n: usize, cap: usize) -> Option<Expat> {
        let mut workers = vec![];
        for _ in 0..n {
            let mut child = std::process::Command::new("python3")
                .arg("-c")
                .arg(EXPAT_PY)
                .arg(cap.to_string())
                .stdin(std::process::Stdio::piped())
                .stdout(std::process::Stdio::piped())
                .stderr(std::process::Stdio::null())
                .spawn()
                .ok()?;
            let stdin = child.stdin.take()?;
            workers.push(Mutex::new((child, std::io::BufWriter::with_capacity(1 << 20, stdin))));
        }
        Some(Expat { workers })
    }
    fn send(&self, key: u64, meta: &str, doc: &str) -> bool {
        let w = &self.workers[(key % self.workers.len() as u64) as usize];
        let mut g = w.lock().unwrap();
        let mut hdr = vec![];
        hdr.extend((meta.len() as u32).to_be_bytes());
        hdr.extend((doc.len() as u32).to_be_bytes());
        g.1.write_all(&hdr).and_then(|_| g.1.write_all(meta.as_bytes())).and_then(|_| g.1.write_all(doc.as_bytes())).is_ok()
    }
    /// (documents parsed, rejected documents as (meta, message), total rejected)
    fn finish(self) -> Result<(u64, Vec<(String, String)>, u64), String> {
        let mut n = 0;
        let mut bad = vec![];
        let mut bad_total = 0;
        for w in self.workers {
            let (mut child, stdin) = w.into_inner().unwrap();
            let stdin = stdin.into_inner().map_err(|e| format!("flush to python3 failed: {e}"))?;
            drop(stdin);
            let mut s = String::new();
            child.stdout.take().unwrap().read_to_string(&mut s).map_err(|e| e.to_string())?;
            let st = child.wait().map_err(|e| e.to_string())?;
            if !st.success() {
                return Err(format!("python3 expat helper exited with {st}"));
            }
            let v: serde_json::Value = serde_json::from_str(&s).map_err(|e| format!("bad reply from python3: {e}"))?;
            n += v["n"].as_u64().unwrap_or(0);
            bad_total += v["bad_total"].as_u64().unwrap_or(0);
            for b in v["bad"].as_array().cloned().unwrap_or_default() {
                bad.push((b[0].as_str().unwrap_or("").to_string(), b[1].as_str().unwrap_or("").to_string()));
            }
        }
        Ok((n, bad, bad_total))
    }
}

/// Cross-check of the harness XML reader itself against expat: every string of <= n fragments.
fn xml_reader_selfcheck(n: usize) -> Result<serde_json::Value, String> {
    let frags = [
        "<a>", "</a>", "<a/>", "<b c=\"d\">", "</b>", "x", "&", "&amp;", "&#65;", "&#1;", "<", ">", "\"", " ", "\n", "]]>",
        "<!--c-->", "<?p?>", "<![CDATA[<]]>", "\u{c}", "\u{fffe}", "\u{4e16}", "<a b='<'>", "<a b='1' b='2'/>", "&lt", "<a b=c>",
    ];
    let docs: Vec<String> = strings_upto(frags.len(), n).map(|ix| ix.iter().map(|&i| frags[i]).collect::<String>()).collect();
    let ex = Expat::start_with_cap(4, usize::MAX >> 8).ok_or("python3 not available")?;
    let mine: Vec<bool> = docs.par_iter().map(|d| xml::parse(d).is_ok()).collect();
    for (i, d) in docs.iter().enumerate() {
        if !ex.send(i as u64, &i.to_string(), d) {
            return Err("cannot write to python3".into());
        }
    }
    let (cnt, bad, bad_total) = ex.finish()?;
    let rejected: HashSet<usize> = bad.iter().filter_map(|(m, _)| m.parse().ok()).collect();
    let mut disagreements = vec![];
    let complete = bad_total as usize == bad.len();
    if complete {
        for (i, d) in docs.iter().enumerate() {
            if mine[i] == rejected.contains(&i) {
                disagreements.push(json!({"doc": d, "harness_reader_accepts": mine[i]}));
            }
        }
    }
    let mine_rejects = mine.iter().filter(|x| !**x).count();
    Ok(json!({"documents": cnt, "harness_rejects": mine_rejects, "expat_rejects": bad_total, "compared_individually": complete,
              "disagreements": disagreements.len(), "examples": disagreements.into_iter().take(5).collect::<Vec<_>>()}))
}

// ---------------------------------------------------------------- driver

fn order_key(f: &Finding) -> (usize, usize, String) {
    (f.replay["ntokens"].as_u64().unwrap_or(0) as usize, f.replay["input"].as_str().map_or(0, |s| s.len()), f.key())
}

fn main_check(ctx: &Ctx) -> Outcome {
    let mut out = Outcome::default();
    // the functions under test must not consult the environment: a few representative inputs under a cleared and two
    // hostile settings of the colour-related variables (before any worker thread exists)
    fn env_digest() -> Vec<String> {
        ["plain", "\x1b[1;31;44mtest\x1b[0m\nline", "\x1b[38;5;208;48;2;1;2;3ma<&>\x1b[7mb", "\x1b[4:3;58;5;9mu\x1b[m"].iter().map(|t| anstyle_svg::Term::new().render_svg(t)).collect::<Vec<String>>()
    }
    if let Err(m) = vexplore::util::env_independence(env_digest) {
        out.findings.push(Finding {
            system: "anstyle_svg::Term::render_svg".into(),
            clause: "environment-dependence".into(),
            case: vec!["representative inputs".into()],
            message: m.chars().take(900).collect(),
            replay: serde_json::json!({"kind":"env"}),
        });
    }
    let quick = ctx.quick();
    // multi-attribute sequences with attributes after `4` / `38;5;n` / `38;2;r;g;b`: on by default,
    // `--opt multi=off` leaves them out
    let multi_any = ctx.opt("multi").map_or(MULTI_ANY_DEFAULT, |v| v == "on");
    let ndefs = 3;
    let cfgs = configs(ndefs);

    let evals = AtomicU64::new(0);
    let skipped = AtomicU64::new(0);
    let nontrivial = Mutex::new(HashSet::<u64>::new());
    let clause_counts = Mutex::new(HashMap::<&'static str, u64>::new());
    let viol = Mutex::new(Vec::<Finding>::new());
    let expat = if quick { None } else { Expat::start(8) };
    let expat_sent: Vec<Mutex<HashSet<u64>>> = (0..64).map(|_| Mutex::new(HashSet::new())).collect();
    let expat_count = AtomicU64::new(0);
    let expat_cap: u64 = 12_000_000;

    let sweep = |alpha: &[Tok], n: usize, label: &str, with_expat: bool| -> u64 {
        let total: u64 = (0..=n).map(|l| (alpha.len() as u64).pow(l as u32)).sum();
        (0..total).into_par_iter().for_each(|mut idx| {
            // decode idx -> token string, shortest first
            let mut len = 0usize;
            loop {
                let c = (alpha.len() as u64).pow(len as u32);
                if idx < c {
                    break;
                }
                idx -= c;
                len += 1;
            }
            let mut toks = vec![0usize; len];
            for k in (0..len).rev() {
                toks[k] = (idx % alpha.len() as u64) as usize;
                idx /= alpha.len() as u64;
            }
            let input: Vec<u8> = toks.iter().flat_map(|&t| alpha[t].bytes.iter().copied()).collect();
            if !in_domain(&input) {
                skipped.fetch_add(1, Ordering::Relaxed);
                return;
            }
            let mut local_nt = vec![];
            for &cfg in &cfgs {
                evals.fetch_add(1, Ordering::Relaxed);
                let (res, st, svg) = run_case(&input, cfg);
                if st.nontrivial {
                    local_nt.push(st.out_hash);
                }
                if with_expat {
                    if let (Some(ex), Some(svg)) = (&expat, &svg) {
                        let fresh = expat_count.load(Ordering::Relaxed) < expat_cap
                            && expat_sent[(st.out_hash >> 58) as usize].lock().unwrap().insert(st.out_hash);
                        if fresh {
                            expat_count.fetch_add(1, Ordering::Relaxed);
                            let meta = json!({"input": hex(&input), "cfg": cfg.to_json(), "ntokens": len}).to_string();
                            ex.send(st.out_hash, &meta, svg);
                        }
                    }
                }
                if let Err((clause, msg)) = res {
                    *clause_counts.lock().unwrap().entry(clause).or_insert(0) += 1;
                    let mut v = viol.lock().unwrap();
                    v.push(Finding {
                        system: SYSTEM.into(),
                        clause: clause.into(),
                        case: vec![toks.iter().map(|&t| alpha[t].label.clone()).collect::<Vec<_>>().join(" "), cfg.label()],
                        message: msg,
                        replay: json!({"kind":"render","input":hex(&input),"cfg":cfg.to_json(),"ntokens":len,
                                       "tokens": toks.iter().map(|&t| alpha[t].label.clone()).collect::<Vec<_>>() , "sweep": label}),
                    });
                    if v.len() > 20_000 {
                        v.sort_by_key(order_key);
                        v.truncate(5_000);
                    }
                    break; // one configuration per input and clause is enough
                }
            }
            if !local_nt.is_empty() {
                nontrivial.lock().unwrap().extend(local_nt);
            }
        });
        total
    };

    let base = alphabet(multi_any, false);
    let n = if quick { 3 } else { 4 };
    let total = sweep(&base, n, "base", true);
    out.push_part(json!({"sweep":"base alphabet","tokens":base.len(),"max_tokens":n,"token_strings":total,"configurations":cfgs.len(),
                         "token_labels": base.iter().map(|t| t.label.clone()).collect::<Vec<_>>()}));
    // value sweep: every 256-colour index in the three roles (the palette applies to 0..=15, the
    // fixed table from 16), every RGB component value, every plain code, each as "CSI..m" + one character
    {
        let values: Vec<Tok> = vchecks::wincon_sys::value_sweep_groups()
            .iter()
            .map(|g| {
                let mut t = sgr(g);
                t.bytes.push(b'v');
                t.label = format!("CSI{g}mv");
                t.text = true;
                t
            })
            .collect();
        let total = sweep(&values, 1, "values", false);
        out.push_part(json!({"sweep":"value sweep (all 256 indices x 3 roles x 2 spellings, RGB components, plain codes)","tokens":values.len(),"max_tokens":1,"token_strings":total,"configurations":cfgs.len()}));
    }
    // every ASCII character (controls included) between two letters, unstyled and inside styled text: a byte the
    // converter or the adapter singles out does not depend on being in the token alphabets
    {
        let mut toks: Vec<Tok> = vec![];
        for c in 0u8..0x80 {
            for (pl, prefix) in [("", &b""[..]), ("CSI1;31;44m", b"\x1b[1;31;44m")] {
                let mut bytes = prefix.to_vec();
                bytes.extend([b'a', c, b'b', b'\n', c, b'c']);
                toks.push(Tok { label: format!("{pl}a<0x{c:02x}>b LF <0x{c:02x}>c"), bytes, text: true });
            }
        }
        // ... and characters at the edges of Unicode: the last code point of each UTF-8 length, noncharacters of the
        // supplementary planes (valid XML), private use, line / paragraph separators, zero-width and bidi controls, BOM
        for c in [
            '\u{7f}', '\u{80}', '\u{a0}', '\u{ad}', '\u{7ff}', '\u{800}', '\u{2028}', '\u{2029}', '\u{200b}', '\u{200d}', '\u{200e}', '\u{202e}', '\u{2060}', '\u{feff}',
            '\u{d7ff}', '\u{e000}', '\u{f8ff}', '\u{fdd0}', '\u{fffd}', '\u{10000}', '\u{1fffe}', '\u{1ffff}', '\u{2fffe}', '\u{e0001}', '\u{f0000}', '\u{10fffe}', '\u{10ffff}',
        ] {
            for (pl, prefix) in [("", &b""[..]), ("CSI1;31;44m", b"\x1b[1;31;44m")] {
                let mut bytes = prefix.to_vec();
                bytes.extend(format!("a{c}b\n{c}c{c}").as_bytes());
                toks.push(Tok { label: format!("{pl}a<U+{:04X}>b LF <U+{:04X}>c<U+{:04X}>", c as u32, c as u32, c as u32), bytes, text: true });
            }
        }
        let total = sweep(&toks, 1, "ascii", false);
        out.push_part(json!({"sweep":"every ASCII character and 27 characters at the edges of Unicode, mid-line and at line start, unstyled and styled","tokens":toks.len(),"max_tokens":1,"token_strings":total,"configurations":cfgs.len()}));
    }
    // every sequence made of two attribute groups (e.g. two truecolor groups in one sequence), followed by a character
    if multi_any {
        let groups = vchecks::wincon_sys::sgr_groups();
        let pairs: Vec<Tok> = groups
            .iter()
            .flat_map(|a| groups.iter().map(move |b| format!("{a};{b}")))
            .map(|g| {
                let mut t = sgr(&g);
                t.bytes.push(b'v');
                t.label = format!("CSI{g}mv");
                t.text = true;
                t
            })
            .collect();
        let total = sweep(&pairs, 1, "two-groups", false);
        out.push_part(json!({"sweep":"every sequence of two attribute groups + one character","tokens":pairs.len(),"max_tokens":1,"token_strings":total,"configurations":cfgs.len()}));
    }
    if !quick {
        let rich = alphabet(multi_any, true);
        let total = sweep(&rich, 3, "rich", true);
        out.push_part(json!({"sweep":"rich alphabet","tokens":rich.len(),"max_tokens":3,"token_strings":total,"configurations":cfgs.len()}));
    }

    // second parser
    let mut exhaustive = true;
    if !quick {
        match expat {
            None => {
                out.set("expat", json!("python3 not available: second XML parser skipped"));
                out.assume("python3/expat was not available in this run; well-formedness rests on the harness XML reader alone");
            }
            Some(ex) => match ex.finish() {
                Err(m) => {
                    eprintln!("MACHINERY ERROR: expat helper failed: {m}");
                    std::process::exit(2);
                }
                Ok((n_docs, bad, bad_total)) => {
                    let capped = expat_count.load(Ordering::Relaxed) >= expat_cap;
                    out.set("expat", json!({"distinct_documents_parsed": n_docs, "rejected": bad_total, "capped": capped,
                        "scope": "every distinct output of both sweeps, all configurations (up to the cap)", "cap": expat_cap}));
                    if capped {
                        exhaustive = false;
                    }
                    let mut v = viol.lock().unwrap();
                    for (meta, msg) in bad {
                        let m: serde_json::Value = serde_json::from_str(&meta).unwrap_or(json!({}));
                        let cfg = Cfg::from_json(&m["cfg"]);
                        v.push(Finding {
                            system: SYSTEM.into(),
                            clause: "xml-not-well-formed(expat)".into(),
                            case: vec![m["input"].as_str().unwrap_or("").to_string(), cfg.label()],
                            message: format!("expat rejects the document: {msg}"),
                            replay: json!({"kind":"render-expat","input":m["input"],"cfg":m["cfg"],"ntokens":m["ntokens"]}),
                        });
                    }
                }
            },
        }
        match xml_reader_selfcheck(3) {
            Ok(v) => {
                let dis = v["disagreements"].as_u64().unwrap_or(0);
                out.set("xml_reader_selfcheck_vs_expat", v.clone());
                if dis > 0 {
                    eprintln!("MACHINERY ERROR: the harness XML reader and expat disagree on well-formedness: {v}");
                    std::process::exit(2);
                }
            }
            Err(m) => out.set("xml_reader_selfcheck_vs_expat", json!(format!("skipped: {m}"))),
        }
    }

    // minimal findings: drop a finding if a recorded one with the same clause has a token list that
    // is a contiguous part of it
    let mut v = viol.into_inner().unwrap();
    v.sort_by_key(order_key);
    let mut kept: Vec<Finding> = vec![];
    let mut suppressed = 0u64;
    for f in v {
        let toks: Vec<&str> = f.replay["tokens"].as_array().map(|a| a.iter().filter_map(|x| x.as_str()).collect()).unwrap_or_default();
        let dominated = !toks.is_empty()
            && kept.iter().any(|k| {
                if k.clause != f.clause {
                    return false;
                }
                let kt: Vec<&str> = k.replay["tokens"].as_array().map(|a| a.iter().filter_map(|x| x.as_str()).collect()).unwrap_or_default();
                !kt.is_empty() && kt.len() < toks.len() && toks.windows(kt.len()).any(|w| w == kt.as_slice())
            });
        if dominated {
            suppressed += 1;
        } else if kept.len() < 200 && kept.iter().filter(|k| k.clause == f.clause).count() < PER_CLAUSE_CAP {
            kept.push(f);
        } else {
            suppressed += 1;
        }
    }
    out.findings.extend(kept);
    out.set("violating_cases_not_listed_individually", json!(suppressed));
    let cc = clause_counts.into_inner().unwrap();
    out.set("violations_by_clause", json!(cc.iter().map(|(k, v)| (k.to_string(), *v)).collect::<HashMap<String, u64>>()));

    out.set("evaluations", json!(evals.load(Ordering::Relaxed)));
    out.set("skipped_outside_domain", json!(skipped.load(Ordering::Relaxed)));
    out.set("distinct_nontrivial", json!(nontrivial.lock().unwrap().len()));
    out.set("multi_attribute_sequences_with_trailing_attributes", json!(multi_any));
    out.set(
        "rule",
        json!("evaluations = (token string, configuration) pairs rendered, parsed and compared; distinct_nontrivial = distinct rendered documents that contain at least one text span"),
    );
    out.set("exhaustive", json!(exhaustive));
    out.set("explanation", json!("every token string up to the stated length over the listed alphabet, in every configuration; bounded, not sampled"));
    for (inp, cfg) in [(&b"\x1b[31ma<\x1b[7m&\r\nb"[..], cfgs[0]), (&b"\x1b[48;5;100m\xe4\xb8\x96\x1b[0m\t'"[..], cfgs[cfgs.len() - 1])] {
        let chars = model_chars(inp);
        out.push_sample(json!({"input": show(inp), "configuration": cfg.label(), "model_lines": lines_text(&model_lines(&chars)),
                               "holds": run_case(inp, cfg).0.is_ok()}));
    }
    out.assume("M-VT/M-SGR (vmodel) define the visible text and the style in effect; SGR codes and spellings outside the listed alphabet are not generated");
    out.assume("a trailing LF starts a (possibly empty) last line (split semantics); an input without visible text may have zero lines or one empty line");
    out.assume("bare CR, and CR separated from its LF by a style change, are outside the input class (CRLF is one token)");
    out.assume("the meaning of a class is what its style-sheet rule declares (fill = foreground, stroke+fill = background block, text-decoration-color = underline colour, font-weight/font-style/text-decoration-line/-style/opacity = effects); class names are not interpreted");
    out.assume("a rule that carries an underline colour is read as denoting the colour only (it also switches the underline on in CSS; the statement does not say whether an underline colour without underline should be visible)");
    out.assume("unstyled foreground may be expressed by no class (inheriting the container's fill, which must then be the configured default) or by a class with the same RGB; an unset background may be no class or the configured default background colour");
    out.assume("background blocks are related to text by position in the line (one background span per foreground span) or, if the counts differ, by the sequence of colours along the line; their width is not checked");
    out.assume("blink has no SVG rendering and is not generated; the canvas height must reach the baseline of the last line, no exact formula is demanded");
    out.assume("a canvas <rect> is not required; if one is present and its class declares a background/fill colour, that colour must be the configured default background");
    out.assume("Term::new() without colour setters means white (palette index 7) on black (index 0)");
    out
}

/// see DESIGN.md section 7 item 7: flipped to `true` once the adapter no longer leaks its
/// sub-state from one SGR parameter to the next
const MULTI_ANY_DEFAULT: bool = true;

/// at most this many minimal cases are listed per violated clause (the rest is counted)
const PER_CLAUSE_CAP: usize = 25;

fn replay(v: &serde_json::Value) -> Result<(), String> {
    let input = unhex(v["input"].as_str().ok_or("replay without input")?);
    let cfg = Cfg::from_json(&v["cfg"]);
    match v["kind"].as_str().unwrap_or("") {
        "render" => run_case(&input, cfg).0.map_err(|(c, m)| format!("{c}: {m}")),
        "render-expat" => {
            let svg = render(&input, cfg).map_err(|(c, m)| format!("{c}: {m}"))?;
            let ex = Expat::start(1).ok_or("python3 not available")?;
            ex.send(0, "x", &svg);
            let (_, bad, _) = ex.finish()?;
            match bad.first() {
                Some((_, m)) => Err(format!("xml-not-well-formed(expat): {m}")),
                None => Ok(()),
            }
        }
        "env" => Err("environment-dependence findings are replayed by re-running the check".into()),
        k => Err(format!("unknown replay kind {k}")),
    }
}

fn main() {
    run_check("C14", "exploration", main_check, replay);
}
