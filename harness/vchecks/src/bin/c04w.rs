//! C04 worker: bounded-exhaustive sweeps of every untrusted-input entry point, each case under
//! catch_unwind, with validity oracles (UTF-8, pointer ranges).  Built in two profiles by the
//! driver (c04) and, in the thorough tier, run under Miri on a reduced space.
//!
//! usage: c04w <space: quick|thorough|miri>

use anstream::adapter::{strip_bytes, strip_str, StripBytes, StripStr, WinconBytes};
use rayon::prelude::*;
use serde_json::json;
use std::io::Write as _;
use std::sync::atomic::{AtomicU64, Ordering};
use std::sync::Mutex;
use vchecks::common::*;
use vexplore::util::*;

struct Sink {
    findings: Mutex<Vec<serde_json::Value>>,
    evals: AtomicU64,
    per_entry: Mutex<std::collections::BTreeMap<String, u64>>,
}

impl Sink {
    fn report(&self, entry: &str, clause: &str, case: &[u8], msg: String) {
        let mut f = self.findings.lock().unwrap();
        if f.iter().filter(|v| v["entry"] == entry && v["clause"] == clause).count() < 5 {
            f.push(json!({"entry": entry, "clause": clause, "case": hex(case), "message": msg}));
        }
    }
    fn count(&self, entry: &str, n: u64) {
        self.evals.fetch_add(n, Ordering::Relaxed);
        *self.per_entry.lock().unwrap().entry(entry.to_string()).or_insert(0) += n;
    }
}

fn inside(input: &[u8], piece: &[u8]) -> bool {
    let (a, b) = (input.as_ptr() as usize, piece.as_ptr() as usize);
    b >= a && b + piece.len() <= a + input.len()
}

fn check_bytes_input(sink: &Sink, input: &[u8]) {
    // parser
    if let Err(p) = guard(|| {
        let mut parser = anstyle_parse::Parser::<anstyle_parse::DefaultCharAccumulator>::new();
        let mut rec = Recorder::default();
        for &b in input {
            parser.advance(&mut rec, b);
        }
        rec.0.len()
    }) {
        sink.report("anstyle_parse::Parser::advance", "panic", input, p);
    }
    // strip adapters over bytes
    match guard(|| {
        let mut bad: Option<String> = None;
        for piece in strip_bytes(input) {
            if piece.is_empty() || !inside(input, piece) {
                bad = Some(format!("piece {:02x?} is empty or outside the input", piece));
            }
        }
        let _ = strip_bytes(input).into_vec();
        // incremental, byte at a time and split in the middle
        let mut st = StripBytes::new();
        for b in input {
            let one = [*b];
            for piece in st.strip_next(&one) {
                if !inside(&one, piece) {
                    bad = Some("piece outside the one-byte chunk".into());
                }
            }
        }
        let mut st = StripBytes::new();
        let (l, r) = input.split_at(input.len() / 2);
        for chunk in [l, r] {
            for piece in st.strip_next(chunk) {
                if !inside(chunk, piece) {
                    bad = Some("piece outside the chunk".into());
                }
            }
        }
        bad
    }) {
        Ok(None) => {}
        Ok(Some(m)) => sink.report("anstream::adapter::strip_bytes/StripBytes", "piece-outside-input", input, m),
        Err(p) => sink.report("anstream::adapter::strip_bytes/StripBytes", "panic", input, p),
    }
    // styled-run extractor
    match guard(|| {
        let mut w = WinconBytes::new();
        let mut bad = None;
        let (l, r) = input.split_at(input.len() / 2);
        for chunk in [l, r] {
            for (_, text) in w.extract_next(chunk) {
                if std::str::from_utf8(text.as_bytes()).is_err() {
                    bad = Some("run text is not valid UTF-8".to_string());
                }
            }
        }
        bad
    }) {
        Ok(None) => {}
        Ok(Some(m)) => sink.report("anstream::adapter::WinconBytes", "invalid-string", input, m),
        Err(p) => sink.report("anstream::adapter::WinconBytes", "panic", input, p),
    }
    // strip stream
    if let Err(p) = guard(|| {
        let mut s = anstream::StripStream::new(Vec::new());
        let (l, r) = input.split_at(input.len() / 2);
        s.write_all(l).unwrap();
        let _ = s.write(r).unwrap();
        let _ = s.write_vectored(&[]).unwrap();
        let _ = s.write_vectored(&[std::io::IoSlice::new(&[]), std::io::IoSlice::new(r)]).unwrap();
        s.flush().unwrap();
        let mut a = anstream::AutoStream::never(Vec::new());
        a.write_all(input).unwrap();
        a.into_inner().len() + s.into_inner().len()
    }) {
        sink.report("anstream::StripStream", "panic", input, p);
    }
}

fn check_str_input(sink: &Sink, input: &str, heavy: bool) {
    let bytes = input.as_bytes();
    // text strip adapters: pieces must be valid UTF-8 lying inside the input
    match guard(|| {
        let mut bad = None;
        for piece in strip_str(input) {
            if std::str::from_utf8(piece.as_bytes()).is_err() {
                bad = Some(format!("piece {:02x?} is not valid UTF-8", piece.as_bytes()));
            } else if piece.is_empty() || !inside(bytes, piece.as_bytes()) {
                bad = Some("piece empty or outside the input".to_string());
            }
        }
        let _ = strip_str(input).to_string();
        // incremental at every char boundary pair
        let mut st = StripStr::new();
        for (i, c) in input.char_indices() {
            let chunk = &input[i..i + c.len_utf8()];
            for piece in st.strip_next(chunk) {
                if std::str::from_utf8(piece.as_bytes()).is_err() || !inside(chunk.as_bytes(), piece.as_bytes()) {
                    bad = Some("incremental piece invalid or outside the chunk".to_string());
                }
            }
        }
        bad
    }) {
        Ok(None) => {}
        Ok(Some(m)) => sink.report("anstream::adapter::strip_str/StripStr", "invalid-piece", bytes, m),
        Err(p) => sink.report("anstream::adapter::strip_str/StripStr", "panic", bytes, p),
    }
    if let Err(p) = guard(|| anstyle_git::parse(input).is_ok()) {
        sink.report("anstyle_git::parse", "panic", bytes, p);
    }
    if let Err(p) = guard(|| anstyle_ls::parse(input).is_some()) {
        sink.report("anstyle_ls::parse", "panic", bytes, p);
    }
    if heavy {
        match guard(|| {
            let svg = anstyle_svg::Term::new().render_svg(input);
            std::str::from_utf8(svg.as_bytes()).is_ok()
        }) {
            Ok(true) => {}
            Ok(false) => sink.report("anstyle_svg::Term::render_svg", "invalid-string", bytes, "output is not valid UTF-8".into()),
            Err(p) => sink.report("anstyle_svg::Term::render_svg", "panic", bytes, p),
        }
        match guard(|| {
            let r = anstyle_roff::to_roff(input).to_roff();
            std::str::from_utf8(r.as_bytes()).is_ok()
        }) {
            Ok(true) => {}
            Ok(false) => sink.report("anstyle_roff::to_roff", "invalid-string", bytes, "output is not valid UTF-8".into()),
            Err(p) => sink.report("anstyle_roff::to_roff", "panic", bytes, p),
        }
    }
}

fn colour_sweeps(sink: &Sink, full: bool) {
    use anstyle_lossy::palette::Palette;
    let rgb = |r: u8, g: u8, b: u8| anstyle::RgbColor(r, g, b);
    let palettes: Vec<Palette> = vec![
        anstyle_lossy::palette::VGA,
        Palette([rgb(0, 0, 0); 16]),
        Palette([rgb(255, 255, 255); 16]),
        Palette({
            let mut p = [rgb(255, 0, 255); 16];
            p[15] = rgb(0, 255, 0);
            p
        }),
    ];
    let step = if full { 1usize } else { 5 };
    for (pi, pal) in palettes.iter().enumerate() {
        let n = AtomicU64::new(0);
        (0..=255u32).step_by(step).collect::<Vec<u32>>().into_par_iter().for_each(|r| {
            for g in (0..=255u32).step_by(step) {
                for b in (0..=255u32).step_by(step) {
                    let c = rgb(r as u8, g as u8, b as u8);
                    n.fetch_add(1, Ordering::Relaxed);
                    if let Err(p) = guard(|| {
                        let a = anstyle_lossy::rgb_to_ansi(c, *pal);
                        let x = anstyle_lossy::rgb_to_xterm(c);
                        let _ = anstyle_lossy::xterm_to_rgb(x, *pal);
                        let _ = anstyle_lossy::color_to_ansi(anstyle::Color::Rgb(c), *pal);
                        let _ = pal.get(a);
                    }) {
                        sink.report("anstyle_lossy (palette conversions)", "panic", &[pi as u8, r as u8, g as u8, b as u8], p);
                    }
                }
            }
        });
        for i in 0..=255u8 {
            if let Err(p) = guard(|| {
                let _ = anstyle_lossy::xterm_to_ansi(anstyle::Ansi256Color(i), *pal);
                let _ = anstyle_lossy::xterm_to_rgb(anstyle::Ansi256Color(i), *pal);
            }) {
                sink.report("anstyle_lossy (palette conversions)", "panic", &[pi as u8, i], p);
            }
        }
        sink.count("anstyle_lossy (palette conversions)", n.load(Ordering::Relaxed) + 256);
    }
    // colour Display buffers: every colour value must render without overflowing its buffer
    let n = AtomicU64::new(0);
    (0..=255u32).into_par_iter().for_each(|r| {
        for g in [0u8, 9, 10, 99, 100, 199, 200, 255] {
            for b in [0u8, 9, 10, 99, 100, 255] {
                let c = rgb(r as u8, g, b);
                let perms = [rgb(c.0, c.1, c.2), rgb(c.1, c.0, c.2), rgb(c.1, c.2, c.0)];
                for c in perms {
                    n.fetch_add(1, Ordering::Relaxed);
                    if let Err(p) = guard(|| {
                        let s = anstyle::Style::new()
                            .fg_color(Some(c.into()))
                            .bg_color(Some(c.into()))
                            .underline_color(Some(c.into()));
                        format!("{}{}{}{}", c.render_fg(), c.render_bg(), s, s.render_reset()).len()
                    }) {
                        sink.report("anstyle colour Display", "panic", &[c.0, c.1, c.2], p);
                    }
                }
            }
        }
    });
    for i in 0..=255u8 {
        if let Err(p) = guard(|| {
            let c = anstyle::Ansi256Color(i);
            let s = anstyle::Style::new().fg_color(Some(c.into())).bg_color(Some(c.into())).underline_color(Some(c.into()));
            format!("{}{}{}", c.render_fg(), c.render_bg(), s).len()
        }) {
            sink.report("anstyle colour Display", "panic", &[i], p);
        }
    }
    sink.count("anstyle colour Display", n.load(Ordering::Relaxed) + 256);
}

fn main() {
    let space = std::env::args().nth(1).unwrap_or_else(|| "quick".into());
    install_quiet_panic_hook();
    let sink = Sink { findings: Mutex::new(vec![]), evals: AtomicU64::new(0), per_entry: Mutex::new(Default::default()) };
    let (alpha, _) = class_alphabet();
    let text_alpha: Vec<&str> = vec![
        "a", "f", "0", "9", "#", "-", "+", " ", ";", ":", "\n", "\r", "\t", "\x1b", "[", "]", "m", "1", "3", "8", "5", "2", "<", "&", "\"", "'", ".", "\\",
        "é", "世", "😀", "\u{9c}", "\u{80}", "\u{7f}", "\u{0}", "\u{7}", "\u{301}", "\u{200b}", "\u{fffe}", "\u{c}", "bold", "no", "red",
    ];
    match space.as_str() {
        "miri" => {
            // tiny but exhaustive: all byte strings <= 2 over 24 interesting bytes, all text strings <= 2 over 16 symbols
            let bytes: Vec<u8> = vec![0x00, 0x07, 0x0a, 0x18, 0x1b, b' ', b'1', b';', b':', b'[', b']', b'P', b'X', b'\\', b'm', b'a', 0x7f, 0x80, 0x9c, 0xa9, 0xc3, 0xe2, 0xf0, 0xff];
            for s in strings_upto(bytes.len(), 2) {
                let inp: Vec<u8> = s.iter().map(|&i| bytes[i]).collect();
                check_bytes_input(&sink, &inp);
                sink.count("byte entry points", 1);
            }
            // a few longer, limit-reaching inputs (MaybeUninit slice array in osc_dispatch, params is_full)
            for inp in [
                b"\x1b]a;b;c;d;e;f;g;h;i;j;k;l;m;n;o;p;q;r\x07".to_vec(),
                b"\x1b]\x07".to_vec(),
                [b"\x1b[".to_vec(), b"1;".repeat(40), b"m".to_vec()].concat(),
                [b"\x1b[".to_vec(), b"1:".repeat(40), b"m".to_vec()].concat(),
                b"\x1bP1;2   q..\x1b\\".to_vec(),
                "a\u{1b}[38;2;1;2;3mé世😀\u{1b}[0m".as_bytes().to_vec(),
            ] {
                check_bytes_input(&sink, &inp);
                sink.count("byte entry points", 1);
            }
            let ta = ["a", "#", "f", "+", "é", "😀", "\x1b", "[", "1", ";", "m", "\n", "<", "\u{9c}", " ", "0"];
            for s in strings_upto(ta.len(), 2) {
                let inp: String = s.iter().map(|&i| ta[i]).collect();
                check_str_input(&sink, &inp, s.len() <= 1);
                sink.count("text entry points", 1);
            }
        }
        _ => {
            let thorough = space == "thorough";
            // all byte strings <= 2 over ALL 256 bytes
            let all2: Vec<Vec<u8>> = (0..=255u16).flat_map(|a| (0..=255u16).map(move |b| vec![a as u8, b as u8])).collect();
            all2.par_iter().for_each(|i| check_bytes_input(&sink, i));
            (0..=255u8).for_each(|b| check_bytes_input(&sink, &[b]));
            check_bytes_input(&sink, &[]);
            sink.count("byte entry points: all strings <= 2 over 256 bytes", all2.len() as u64 + 257);
            // class alphabet strings
            let n = if thorough { 5 } else { 4 };
            // (index-decoded: the list of 50^5 strings would not fit in memory)
            let ncls = (alpha.len() as u64).pow(n as u32);
            (0..ncls).into_par_iter().for_each(|i| {
                let inp: Vec<u8> = string_at(alpha.len(), n, i).iter().map(|&i| alpha[i]).collect();
                check_bytes_input(&sink, &inp);
            });
            sink.count(&format!("byte entry points: class alphabet, length {n}"), ncls);
            // focused alphabets, longer strings: sequences aborted and restarted (stale bookkeeping),
            // sub-parameters, OSC fields, string terminators inside characters
            for (name, syms, len) in [
                ("csi/dcs focus", &[0x1bu8, b'[', b'P', b'1', b':', b';', b'm', b'q', 0x18, b' '][..], if thorough { 8 } else { 7 }),
                ("osc focus", &[0x1bu8, b']', b'a', b';', 0x07, 0x18, b'\\', 0x9c][..], if thorough { 8 } else { 7 }),
                ("utf8/st focus", &[0x1bu8, b'_', b'P', b'\\', b'a', 0x0a, 0xe2, 0x9c, 0x85, 0xc3, 0xa9, 0xf0, 0x9f, 0x80][..], if thorough { 6 } else { 5 }),
            ] {
                let nstrs = count_upto(syms.len(), len);
                (0..nstrs).into_par_iter().for_each(|i| {
                    let inp: Vec<u8> = string_upto_at(syms.len(), len, i).iter().map(|&i| syms[i]).collect();
                    check_bytes_input(&sink, &inp);
                    if let Ok(t) = std::str::from_utf8(&inp) {
                        check_str_input(&sink, t, false);
                    }
                });
                sink.count(&format!("byte entry points: {name}, length <= {len}"), nstrs);
            }
            // every BMP character inside and after each kind of sequence, through the text entry points
            {
                let prefixes: [&str; 9] = ["", "\x1b", "\x1b[", "\x1b[1", "\x1b]", "\x1bP", "\x1bP1q", "\x1b_", "\x1b "];
                let cps: Vec<char> = (0x80u32..=0xFFFF).filter_map(char::from_u32).chain([0x10000u32, 0x1F600, 0x1F705, 0x10FFFF].into_iter().filter_map(char::from_u32)).collect();
                cps.par_iter().for_each(|&ch| {
                    for pre in prefixes {
                        let input = format!("{pre}{ch}m\u{7}x\x1b\\y");
                        check_str_input(&sink, &input, false);
                        check_bytes_input(&sink, input.as_bytes());
                    }
                });
                sink.count("text entry points: every BMP character after each of 9 sequence prefixes", cps.len() as u64 * 9);
            }
            // medium-length inputs in every kind of parser state (block-wise fast paths of 4/8/16/32 bytes): a sequence
            // prefix, optionally a whitespace control, k = 0..=40 plain bytes, a multi-byte character, a tail; one-shot
            // and cut after the prefix
            {
                let prefixes: [&str; 10] = ["", "\x1b", "\x1b[", "\x1b[1", "\x1b[1;", "\x1b]", "\x1b]0;t", "\x1bP", "\x1bP1q", "\x1b_"];
                let cases: Vec<(usize, usize)> = (0..prefixes.len()).flat_map(|p| (0..=40usize).map(move |k| (p, k))).collect();
                let n_medium = AtomicU64::new(0);
                cases.par_iter().for_each(|&(pi, k)| {
                    let pre = prefixes[pi];
                    for ws in ["", "\n", "\t", "\r", "\x0c"] {
                        for ch in ['\u{e9}', '\u{4e16}', '\u{1f600}', 'z'] {
                            for (mid, tail) in [("", ""), ("", "b"), ("", "bbbbbbbbbbbbbbbbbbbbm\x07x"), ("\x18", "b"), ("\x1a", "bbbbbbbbbbbbbbbbbbbbm\x07x"), ("\x07", "bb")] {
                                let input = format!("{pre}{ws}{}{mid}{ch}{tail}", "a".repeat(k));
                                n_medium.fetch_add(1, Ordering::Relaxed);
                                check_str_input(&sink, &input, false);
                                check_bytes_input(&sink, input.as_bytes());
                                match guard(|| {
                                    let mut bad = None;
                                    let mut st = StripStr::new();
                                    for chunk in [pre, &input[pre.len()..]] {
                                        for piece in st.strip_next(chunk) {
                                            if std::str::from_utf8(piece.as_bytes()).is_err() || !inside(chunk.as_bytes(), piece.as_bytes()) {
                                                bad = Some(format!("incremental piece {:02x?} invalid or outside the chunk", piece.as_bytes()));
                                            }
                                        }
                                    }
                                    let mut st = StripBytes::new();
                                    for chunk in [pre.as_bytes(), &input.as_bytes()[pre.len()..]] {
                                        for piece in st.strip_next(chunk) {
                                            if !inside(chunk, piece) {
                                                bad = Some("incremental byte piece outside the chunk".to_string());
                                            }
                                        }
                                    }
                                    bad
                                }) {
                                    Ok(None) => {}
                                    Ok(Some(m)) => sink.report("anstream::adapter::StripStr/StripBytes (two chunks)", "invalid-piece", input.as_bytes(), m),
                                    Err(p) => sink.report("anstream::adapter::StripStr/StripBytes (two chunks)", "panic", input.as_bytes(), p),
                                }
                            }
                        }
                    }
                });
                sink.count("text and byte entry points: medium-length inputs (10 prefixes x 5 whitespace controls x 0..=40 plain bytes x 4 characters x 6 tails)", n_medium.load(Ordering::Relaxed));
            }
            // macro inputs reaching the limits
            let mut macros: Vec<Vec<u8>> = vec![];
            for k in [15usize, 16, 17, 40] {
                macros.push([b"\x1b]".to_vec(), b"a;".repeat(k), b"\x07".to_vec()].concat());
            }
            for k in [31usize, 32, 33, 64] {
                macros.push([b"\x1b[".to_vec(), b"1;".repeat(k), b"m".to_vec()].concat());
                macros.push([b"\x1b[".to_vec(), b"1:".repeat(k), b"m".to_vec()].concat());
                macros.push([b"\x1bP".to_vec(), b"1;".repeat(k), b"q\x1b\\".to_vec()].concat());
            }
            macros.push([b"\x1b[".to_vec(), b"9".repeat(30), b"m".to_vec()].concat());
            macros.push([b"\x1b".to_vec(), b" ".repeat(5), b"m".to_vec()].concat());
            macros.push([b"\x1b]".to_vec(), vec![b'a'; 5000], b"\x07".to_vec()].concat());
            // strings beyond 2^16 bytes (offsets kept in narrow integers would wrap)
            macros.push([b"\x1b]52;c;".to_vec(), vec![b'a'; 65536], b"\x07".to_vec()].concat());
            macros.push([b"\x1b]0;".to_vec(), vec![b'a'; 35000], b";".to_vec(), vec![b'b'; 35000], b"\x1b\\".to_vec()].concat());
            macros.push([b"\x1bP1q".to_vec(), vec![b'a'; 70000], b"\x1b\\".to_vec()].concat());
            for m in &macros {
                for b in 0..=255u8 {
                    let mut inp = m.clone();
                    inp.push(b);
                    check_bytes_input(&sink, &inp);
                    let mut inp2 = vec![b];
                    inp2.extend(m);
                    check_bytes_input(&sink, &inp2);
                    // the byte right before the final byte of the sequence (the list is full at that point)
                    let mut inp3 = m[..m.len() - 1].to_vec();
                    inp3.push(b);
                    inp3.push(m[m.len() - 1]);
                    check_bytes_input(&sink, &inp3);
                }
            }
            sink.count("byte entry points: limit-reaching macro inputs x 256 bytes x 3 positions", macros.len() as u64 * 768);
            // text entry points
            let n = if thorough { 4 } else { 3 };
            let ntexts = count_upto(text_alpha.len(), n);
            (0..ntexts).into_par_iter().for_each(|i| {
                let s = string_upto_at(text_alpha.len(), n, i);
                let inp: String = s.iter().map(|&i| text_alpha[i]).collect();
                check_str_input(&sink, &inp, s.len() <= 3);
            });
            sink.count(&format!("text entry points: strings <= {n} over {} symbols", text_alpha.len()), ntexts);
            // long lists of small items through the text entry points (git words, LS_COLORS fields, SGR parameters in
            // styled text): lengths around 16, 32, 64, 256, 1024 and 5000
            {
                let mut n_inputs = 0u64;
                for n in [15usize, 16, 17, 31, 32, 33, 34, 63, 64, 65, 255, 256, 257, 1023, 1024, 1025, 5000] {
                    for item in ["1", "31", "bold", "#abc", "38;5;9", "x", "\u{e9}"] {
                        for sep in [";", " ", ":"] {
                            let mut t = vec![item; n].join(sep);
                            for tail in ["", "0", "x", "256", ";", "red"] {
                                let l = t.len();
                                t.push_str(sep);
                                t.push_str(tail);
                                check_str_input(&sink, &t, false);
                                let styled = format!("\x1b[{t}mz");
                                check_str_input(&sink, &styled, false);
                                check_bytes_input(&sink, styled.as_bytes());
                                t.truncate(l);
                                n_inputs += 3;
                            }
                        }
                    }
                }
                sink.count("text and byte entry points: long lists of small items (15..5000 items x 7 items x 3 separators x 6 tails)", n_inputs);
            }
            colour_sweeps(&sink, thorough);
            // SGR sequences with malformed / truncated extended-colour forms: every sequence of a head code and up to
            // 5 (4 in the quick tier) more fields over {2, 5, 0, 1, 255, empty} joined by ';' or ':' (other checks prune
            // such sequences as outside their statements; here only "no panic" matters)
            {
                let heads = ["38", "48", "58", "4", "1", "0"];
                let fields = ["2", "5", "0", "1", "255", ""];
                let kmax = if thorough { 5 } else { 4 };
                let mut total = 0u64;
                for k in 0..=kmax {
                    let per = (fields.len() as u64 * 2).pow(k as u32);
                    let n = heads.len() as u64 * per;
                    total += n;
                    (0..n).into_par_iter().for_each(|i| {
                        let mut inp = b"\x1b[".to_vec();
                        inp.extend(heads[(i / per) as usize].as_bytes());
                        let mut r = i % per;
                        for _ in 0..k {
                            let d = (r % (fields.len() as u64 * 2)) as usize;
                            r /= fields.len() as u64 * 2;
                            inp.push(if d % 2 == 0 { b';' } else { b':' });
                            inp.extend(fields[d / 2].as_bytes());
                        }
                        inp.extend(b"mx");
                        check_bytes_input(&sink, &inp);
                        if k <= 3 {
                            if let Ok(t) = std::str::from_utf8(&inp) {
                                check_str_input(&sink, t, false);
                            }
                        }
                    });
                }
                sink.count(&format!("byte entry points: SGR sequences with malformed extended-colour forms, <= {kmax} fields after the head"), total);
            }
            // the strip stream (and the pass-through modes) over an inner writer that short-writes and fails:
            // the fault branches do offset arithmetic on the caller's buffer; only panics are this property's business
            for mode in [vchecks::fault_sys::Mode::Strip, vchecks::fault_sys::Mode::PassAnsi] {
                let k = if thorough { 3 } else { 2 };
                let (fs, runs, _, _) = vchecks::fault_sys::sweep(mode, if thorough { 5 } else { 4 }, &move |_| k);
                for f in fs.iter().filter(|f| f.clause == "panic") {
                    sink.report(&f.system, "panic", &unhex(&f.case[0]), format!("{} ({} {})", f.message, f.case[1], f.case[2]));
                }
                sink.count(&format!("{mode:?} stream over a scripted inner writer: inputs <= {} tokens x drivers x scripts with <= {k} deviations", if thorough { 5 } else { 4 }), runs);
            }
            // large inputs (around the 4/8/16/64 KiB marks), the unit shifted over every offset
            {
                let sizes: &[usize] = if thorough { &[4095, 4096, 4097, 8191, 8192, 8193, 16385, 20000, 65537, 131073] } else { &[8191, 8192, 8193, 20000] };
                let cases: Vec<(usize, usize)> = sizes.iter().flat_map(|&n| (0..vchecks::fault_sys::LARGE_UNIT.len()).map(move |s| (n, s))).collect();
                cases.par_iter().for_each(|&(n, shift)| {
                    let inp = vchecks::fault_sys::large_input(n, shift);
                    check_bytes_input(&sink, &inp);
                    if let Ok(t) = std::str::from_utf8(&inp) {
                        check_str_input(&sink, t, false);
                    }
                });
                sink.count("byte and text entry points: large inputs, unit shifted over every offset", cases.len() as u64);
            }
        }
    }
    let findings = sink.findings.into_inner().unwrap();
    println!(
        "RESULT {}",
        json!({
            "space": space,
            "debug_assertions": cfg!(debug_assertions),
            "evaluations": sink.evals.load(Ordering::Relaxed),
            "per_entry": *sink.per_entry.lock().unwrap(),
            "findings": findings,
        })
    );
}
