//! C09 - colour auto-detection follows the documented precedence for every environment.
//!
//! E5 configuration-graph walk inside ONE single-threaded child process (the
//! binary re-executes itself with `--c09-child <result file> <tier>`; the
//! environment, the global choice and fds 1/2 are process-global).
//!
//! Live variables: global choice (4, `ColorChoice::write_global`), NO_COLOR,
//! CLICOLOR_FORCE, CLICOLOR in {unset,"","0","1"}, TERM in {unset,"","dumb",
//! "xterm-256color"}, CI in {unset,"","true"}, and what fds 1/2 point at
//! (fd 1 = pty slave & fd 2 = pipe, or the other way round).  A reflected
//! mixed-radix Gray path visits every node changing ONE variable per step on
//! the live process; then from every node every single-variable change is made
//! and undone (every edge of the configuration graph, both directions).  At
//! each visit, for every stream kind: `AutoStream::choice`, `AutoStream::auto(..)
//! .current_choice()`, `is_terminal` and all `anstyle_query` probes are compared
//! with M-ENV (vmodel::env).  COLORTERM, wider per-variable value sets and the
//! clap flag are enumerated separately.

use anstream::{AutoStream, ColorChoice};
use serde_json::{json, Value};
use std::collections::{BTreeMap, BTreeSet};
use std::fs::File;
use std::io::Write;
use std::os::fd::{AsRawFd, FromRawFd, RawFd};
use vexplore::evidence::*;
use vmodel::env::{self as menv, Choice, Decision, Env};

// ---------------------------------------------------------------- configuration

const VAR_NAMES: [&str; 6] = ["NO_COLOR", "CLICOLOR_FORCE", "CLICOLOR", "TERM", "CI", "COLORTERM"];
const V_ONOFF: [Option<&str>; 4] = [None, Some(""), Some("0"), Some("1")];
const V_TERM: [Option<&str>; 4] = [None, Some(""), Some("dumb"), Some("xterm-256color")];
const V_CI: [Option<&str>; 3] = [None, Some(""), Some("true")];
const V_COLORTERM: [Option<&str>; 6] = [None, Some(""), Some("truecolor"), Some("24bit"), Some("TrueColor"), Some("1")];
const CHOICES: [ColorChoice; 4] = [ColorChoice::Auto, ColorChoice::AlwaysAnsi, ColorChoice::Always, ColorChoice::Never];

/// walk coordinates: [global, NO_COLOR, CLICOLOR_FORCE, CLICOLOR, TERM, CI, stdio]
type Coord = [usize; 7];
const COORD_NAMES: [&str; 7] = ["global", "NO_COLOR", "CLICOLOR_FORCE", "CLICOLOR", "TERM", "CI", "stdio"];

fn coord_value(i: usize, v: usize) -> Option<&'static str> {
    match i {
        1..=3 => V_ONOFF[v],
        4 => V_TERM[v],
        5 => V_CI[v],
        _ => None,
    }
}

fn to_model(c: ColorChoice) -> Choice {
    match c {
        ColorChoice::Auto => Choice::Auto,
        ColorChoice::AlwaysAnsi => Choice::AlwaysAnsi,
        ColorChoice::Always => Choice::Always,
        ColorChoice::Never => Choice::Never,
    }
}

/// The configuration the harness believes the live process is in.
#[derive(Clone, Debug, PartialEq, Eq)]
struct Live {
    global: ColorChoice,
    /// NO_COLOR, CLICOLOR_FORCE, CLICOLOR, TERM, CI, COLORTERM
    vars: [Option<String>; 6],
    /// 0: fd 1 = pty slave, fd 2 = pipe; 1: fd 1 = pipe, fd 2 = pty slave (2: untouched)
    stdio: usize,
}

impl Live {
    fn env(&self) -> Env {
        Env {
            no_color: self.vars[0].clone(),
            clicolor_force: self.vars[1].clone(),
            clicolor: self.vars[2].clone(),
            term: self.vars[3].clone(),
            ci: self.vars[4].clone(),
            colorterm: self.vars[5].clone(),
        }
    }
    fn describe(&self) -> String {
        let mut s = format!("global={:?}", self.global);
        for (n, v) in VAR_NAMES.iter().zip(&self.vars) {
            match v {
                None => {}
                Some(v) => s.push_str(&format!(" {n}={v:?}")),
            }
        }
        s.push_str(match self.stdio {
            0 => " fd1=pty,fd2=pipe",
            1 => " fd1=pipe,fd2=pty",
            _ => " stdio=untouched",
        });
        s
    }
    fn to_json(&self) -> Value {
        json!({"global": format!("{:?}", self.global), "vars": self.vars, "stdio": self.stdio})
    }
    fn from_json(v: &Value) -> Option<Live> {
        let gname = v["global"].as_str()?;
        let global = CHOICES.iter().copied().find(|c| format!("{c:?}") == gname)?;
        let a = v["vars"].as_array()?;
        let mut vars: [Option<String>; 6] = Default::default();
        for (i, x) in a.iter().enumerate().take(6) {
            vars[i] = x.as_str().map(|s| s.to_string());
        }
        Some(Live { global, vars, stdio: v["stdio"].as_u64()? as usize })
    }
    fn non_default(&self) -> usize {
        (self.global != ColorChoice::Auto) as usize + self.vars.iter().filter(|v| v.is_some()).count()
    }
}

// ---------------------------------------------------------------- the live process

struct Rig {
    live: Live,
    saved1: RawFd,
    saved2: RawFd,
    pty_slave: Option<File>,
    _pty_master: Option<File>,
    pipe_w: File,
    _pipe_r: File,
    regular: File,
    regular_path: std::path::PathBuf,
    devnull: File,
    boxed_pty: Option<Box<File>>,
    steps: u64,
}

fn build_dir() -> std::path::PathBuf {
    std::path::PathBuf::from(std::env::var("VERIF_BUILD_DIR").unwrap_or_else(|_| "/verif/.build".to_string())).join("tmp")
}

fn open_pty() -> Option<(File, File)> {
    let (mut m, mut s): (libc::c_int, libc::c_int) = (-1, -1);
    let r = unsafe { libc::openpty(&mut m, &mut s, std::ptr::null_mut(), std::ptr::null_mut(), std::ptr::null_mut()) };
    if r != 0 || m < 0 || s < 0 {
        return None;
    }
    let (m, s) = unsafe { (File::from_raw_fd(m), File::from_raw_fd(s)) };
    if unsafe { libc::isatty(s.as_raw_fd()) } != 1 {
        return None;
    }
    Some((m, s))
}

impl Rig {
    fn new(no_pty: bool) -> Result<Rig, String> {
        let dir = build_dir();
        std::fs::create_dir_all(&dir).map_err(|e| format!("cannot create {}: {e}", dir.display()))?;
        let regular_path = dir.join(format!("c09-{}.regular", std::process::id()));
        let regular = std::fs::OpenOptions::new()
            .write(true)
            .create(true)
            .truncate(true)
            .open(&regular_path)
            .map_err(|e| format!("cannot create {}: {e}", regular_path.display()))?;
        let devnull = std::fs::OpenOptions::new().write(true).open("/dev/null").map_err(|e| format!("/dev/null: {e}"))?;
        let mut fds = [0 as libc::c_int; 2];
        if unsafe { libc::pipe(fds.as_mut_ptr()) } != 0 {
            return Err("pipe() failed".into());
        }
        let (pipe_r, pipe_w) = unsafe { (File::from_raw_fd(fds[0]), File::from_raw_fd(fds[1])) };
        let pty = if no_pty { None } else { open_pty() };
        let (master, slave) = match pty {
            Some((m, s)) => (Some(m), Some(s)),
            None => (None, None),
        };
        let boxed_pty = slave.as_ref().and_then(|s| s.try_clone().ok()).map(Box::new);
        std::io::stdout().flush().ok();
        std::io::stderr().flush().ok();
        let saved1 = unsafe { libc::dup(1) };
        let saved2 = unsafe { libc::dup(2) };
        if saved1 < 0 || saved2 < 0 {
            return Err("dup of fd 1/2 failed".into());
        }
        // a definite starting point: everything unset, global Auto
        for n in VAR_NAMES {
            std::env::remove_var(n);
        }
        ColorChoice::Auto.write_global();
        let live = Live { global: ColorChoice::Auto, vars: Default::default(), stdio: 2 };
        Ok(Rig { live, saved1, saved2, pty_slave: slave, _pty_master: master, pipe_w, _pipe_r: pipe_r, regular, regular_path, devnull, boxed_pty, steps: 0 })
    }

    fn has_pty(&self) -> bool {
        self.pty_slave.is_some()
    }

    fn set_global(&mut self, c: ColorChoice) {
        if self.live.global != c {
            c.write_global();
            self.live.global = c;
            self.steps += 1;
        }
    }

    fn set_var(&mut self, i: usize, v: Option<&str>) {
        if self.live.vars[i].as_deref() == v {
            return;
        }
        match v {
            // a value that is not valid Unicode: for every convention it is "set, non-empty, not 0, not dumb"
            // exactly like the marker text the model sees
            Some(v) if v == NON_UTF8_MARKER => {
                use std::os::unix::ffi::OsStrExt as _;
                std::env::set_var(VAR_NAMES[i], std::ffi::OsStr::from_bytes(b"x\xe9\xff"))
            }
            Some(v) => std::env::set_var(VAR_NAMES[i], v),
            None => std::env::remove_var(VAR_NAMES[i]),
        }
        self.live.vars[i] = v.map(|s| s.to_string());
        self.steps += 1;
    }

    fn set_stdio(&mut self, v: usize) -> Result<(), String> {
        if self.live.stdio == v {
            return Ok(());
        }
        let pipe = self.pipe_w.as_raw_fd();
        let (t1, t2) = match (v, &self.pty_slave) {
            (0, Some(p)) => (p.as_raw_fd(), pipe),
            (1, Some(p)) => (pipe, p.as_raw_fd()),
            (1, None) => (pipe, pipe),
            (2, _) => (self.saved1, self.saved2),
            _ => return Err("stdio setting needs a pty".into()),
        };
        if unsafe { libc::dup2(t1, 1) } < 0 || unsafe { libc::dup2(t2, 2) } < 0 {
            return Err("dup2 failed".into());
        }
        self.live.stdio = v;
        self.steps += 1;
        Ok(())
    }

    fn set_coord(&mut self, i: usize, v: usize) -> Result<(), String> {
        match i {
            0 => self.set_global(CHOICES[v]),
            1..=5 => self.set_var(i - 1, coord_value(i, v)),
            _ => self.set_stdio(v)?,
        }
        Ok(())
    }

    fn goto(&mut self, target: &Live) -> Result<(), String> {
        self.set_global(target.global);
        for i in 0..6 {
            self.set_var(i, target.vars[i].as_deref());
        }
        self.set_stdio(target.stdio)
    }

    /// put fds 1/2, the environment and the global choice back
    fn restore(&mut self) {
        let _ = self.set_stdio(2);
        for i in 0..6 {
            self.set_var(i, None);
        }
        self.set_global(ColorChoice::Auto);
    }
}

impl Drop for Rig {
    fn drop(&mut self) {
        self.restore();
        unsafe {
            libc::close(self.saved1);
            libc::close(self.saved2);
        }
        let _ = std::fs::remove_file(&self.regular_path);
    }
}

// ---------------------------------------------------------------- evaluation of one node

#[derive(Clone, Debug)]
struct Mismatch {
    system: String,
    clause: &'static str,
    stream: String,
    message: String,
}

fn isatty(fd: RawFd) -> bool {
    unsafe { libc::isatty(fd) == 1 }
}

struct NodeStats {
    comparisons: u64,
    /// (rule that decided, is_terminal) per stream, for coverage reporting
    rules: Vec<(menv::Rule, bool, Decision)>,
}

/// one stream: decision, resulting stream mode, terminal detection
fn check_stream<S: anstream::stream::RawStream>(
    name: &str,
    truth_tty: bool,
    live: &Live,
    s: S,
    out: &mut Vec<Mismatch>,
    stats: &mut NodeStats,
) {
    let (decision, rule) = live.env().decide(to_model(live.global), truth_tty, cfg!(windows));
    stats.rules.push((rule, truth_tty, decision));
    let tty = s.is_terminal();
    stats.comparisons += 1;
    if tty != truth_tty {
        out.push(Mismatch {
            system: "stream::IsTerminal::is_terminal".into(),
            clause: "terminal-detection-wrong",
            stream: name.into(),
            message: format!("is_terminal() = {tty}, isatty says {truth_tty}"),
        });
    }
    let got = AutoStream::choice(&s);
    stats.comparisons += 1;
    if !decision.admits_choice(to_model(got)) {
        out.push(Mismatch {
            system: "AutoStream::choice".into(),
            clause: "decision-differs-from-precedence-chain",
            stream: name.into(),
            message: format!("choice() = {got:?}, the precedence chain gives {decision:?} (rule {rule:?}, terminal={truth_tty})"),
        });
    }
    // the print macros' string adaptation takes its decision from the target stream
    let styled = "\u{1b}[1mX\u{1b}[0m";
    let adapted = anstream::_macros::to_adapted_string(&styled, &s);
    stats.comparisons += 1;
    let want = if decision.colour_on() { styled } else { "X" };
    if adapted != want {
        out.push(Mismatch {
            system: "_macros::to_adapted_string".into(),
            clause: "adaptation-differs-from-decision",
            stream: name.into(),
            message: format!("to_adapted_string gave {adapted:?}, the precedence chain gives {decision:?} (rule {rule:?}, terminal={truth_tty}) so {want:?}"),
        });
    }
    let a = AutoStream::auto(s);
    let cur = a.current_choice();
    stats.comparisons += 1;
    let ok = match decision {
        Decision::Explicit(Choice::AlwaysAnsi) => cur == ColorChoice::AlwaysAnsi,
        d if d.colour_on() => matches!(cur, ColorChoice::AlwaysAnsi | ColorChoice::Always),
        _ => cur == ColorChoice::Never,
    };
    if !ok {
        out.push(Mismatch {
            system: "AutoStream::auto.current_choice".into(),
            clause: "stream-mode-differs-from-decision",
            stream: name.into(),
            message: format!("auto(..).current_choice() = {cur:?}, the precedence chain gives {decision:?} (rule {rule:?}, terminal={truth_tty})"),
        });
    }
    let at = a.is_terminal();
    stats.comparisons += 1;
    if at != truth_tty {
        out.push(Mismatch {
            system: "AutoStream::is_terminal".into(),
            clause: "terminal-detection-wrong",
            stream: name.into(),
            message: format!("auto(..).is_terminal() = {at}, isatty says {truth_tty}"),
        });
    }
}

fn evaluate(rig: &mut Rig) -> (Vec<Mismatch>, NodeStats) {
    let mut out = vec![];
    let mut stats = NodeStats { comparisons: 0, rules: vec![] };
    let live = rig.live.clone();
    let env = live.env();

    // probes
    macro_rules! probe {
        ($name:literal, $got:expr, $want:expr) => {{
            let (got, want) = ($got, $want);
            stats.comparisons += 1;
            if got != want {
                out.push(Mismatch {
                    system: concat!("anstyle_query::", $name).into(),
                    clause: "probe-differs-from-convention",
                    stream: "-".into(),
                    message: format!("{}() = {:?}, the convention gives {:?}", $name, got, want),
                });
            }
        }};
    }
    probe!("no_color", anstyle_query::no_color(), menv::no_color(env.no_color.as_deref()));
    probe!("clicolor_force", anstyle_query::clicolor_force(), menv::clicolor_force(env.clicolor_force.as_deref()));
    probe!("clicolor", anstyle_query::clicolor(), menv::clicolor(env.clicolor.as_deref()));
    probe!("term_supports_color", anstyle_query::term_supports_color(), menv::term_supports_color(env.term.as_deref(), cfg!(windows)));
    probe!(
        "term_supports_ansi_color",
        anstyle_query::term_supports_ansi_color(),
        menv::term_supports_ansi_color(env.term.as_deref(), cfg!(windows))
    );
    probe!("truecolor", anstyle_query::truecolor(), menv::truecolor(env.colorterm.as_deref()));
    probe!("is_ci", anstyle_query::is_ci(), menv::is_ci(env.ci.as_deref()));
    let g = ColorChoice::global();
    stats.comparisons += 1;
    if g != live.global {
        out.push(Mismatch {
            system: "ColorChoice::global".into(),
            clause: "global-choice-not-a-register",
            stream: "-".into(),
            message: format!("global() = {g:?} after write_global({:?})", live.global),
        });
    }

    // streams
    check_stream("Vec<u8>", false, &live, Vec::<u8>::new(), &mut out, &mut stats);
    check_stream("Box<dyn Write>", false, &live, Box::new(Vec::<u8>::new()) as Box<dyn Write>, &mut out, &mut stats);
    check_stream("Box<dyn Write + Send>", false, &live, Box::new(Vec::<u8>::new()) as Box<dyn Write + Send>, &mut out, &mut stats);
    {
        let t = isatty(rig.regular.as_raw_fd());
        let f = &mut rig.regular;
        check_stream("File(regular)", t, &live, &mut *f, &mut out, &mut stats);
    }
    {
        let t = isatty(rig.devnull.as_raw_fd());
        let f = &mut rig.devnull;
        check_stream("File(/dev/null)", t, &live, &mut *f, &mut out, &mut stats);
    }
    {
        let t = isatty(rig.pipe_w.as_raw_fd());
        let f = &mut rig.pipe_w;
        check_stream("File(pipe)", t, &live, &mut *f, &mut out, &mut stats);
    }
    if let Some(f) = rig.pty_slave.as_mut() {
        let t = isatty(f.as_raw_fd());
        check_stream("File(pty slave)", t, &live, &mut *f, &mut out, &mut stats);
    }
    if let Some(f) = rig.boxed_pty.as_mut() {
        let t = isatty(f.as_raw_fd());
        check_stream("Box<File>(pty slave)", t, &live, &mut *f, &mut out, &mut stats);
    }
    if live.stdio != 2 {
        let t1 = isatty(1);
        let t2 = isatty(2);
        check_stream("Stdout", t1, &live, std::io::stdout(), &mut out, &mut stats);
        check_stream("StdoutLock", t1, &live, std::io::stdout().lock(), &mut out, &mut stats);
        check_stream("Stderr", t2, &live, std::io::stderr(), &mut out, &mut stats);
        check_stream("StderrLock", t2, &live, std::io::stderr().lock(), &mut out, &mut stats);
    }
    (out, stats)
}

// ---------------------------------------------------------------- Gray path

/// reflected mixed-radix Gray sequence: consecutive tuples differ in exactly one coordinate
fn gray_path(radices: &[usize]) -> Vec<Vec<usize>> {
    if radices.is_empty() {
        return vec![vec![]];
    }
    let rest = gray_path(&radices[1..]);
    let mut out = Vec::with_capacity(rest.len() * radices[0]);
    for v in 0..radices[0] {
        let it: Box<dyn Iterator<Item = &Vec<usize>>> = if v % 2 == 0 { Box::new(rest.iter()) } else { Box::new(rest.iter().rev()) };
        for r in it {
            let mut t = Vec::with_capacity(radices.len());
            t.push(v);
            t.extend_from_slice(r);
            out.push(t);
        }
    }
    out
}

// ---------------------------------------------------------------- the child: walks

#[derive(Default)]
struct Collected {
    /// key -> (simplicity, order, finding)
    findings: BTreeMap<String, (usize, u64, Value)>,
    total_mismatches: u64,
    comparisons: u64,
    visits: u64,
    distinct_nodes: BTreeSet<String>,
    outcomes: BTreeSet<String>,
    rules: BTreeMap<String, u64>,
    samples: Vec<Value>,
    tier: String,
    /// replay support: keep the mismatches of visit number `capture_at`
    capture_at: Option<u64>,
    captured: Option<Vec<Mismatch>>,
}

fn visit(rig: &mut Rig, prev: &Live, col: &mut Collected, phase: &str) {
    let r = std::panic::catch_unwind(std::panic::AssertUnwindSafe(|| evaluate(rig)));
    col.visits += 1;
    let live = rig.live.clone();
    let desc = live.describe();
    col.distinct_nodes.insert(desc.clone());
    let (mism, stats) = match r {
        Ok(x) => x,
        Err(p) => {
            let m = p.downcast_ref::<String>().cloned().or_else(|| p.downcast_ref::<&str>().map(|s| s.to_string())).unwrap_or_default();
            (
                vec![Mismatch { system: "auto-detection".into(), clause: "panic", stream: "-".into(), message: format!("panic: {m}") }],
                NodeStats { comparisons: 0, rules: vec![] },
            )
        }
    };
    col.comparisons += stats.comparisons;
    if col.capture_at == Some(col.visits) {
        col.captured = Some(mism.clone());
    }
    for (rule, tty, d) in &stats.rules {
        *col.rules.entry(format!("{rule:?}")).or_default() += 1;
        col.outcomes.insert(format!("{rule:?}/{tty}/{d:?}"));
    }
    if col.samples.len() < 6 && col.visits % 1499 == 1 {
        col.samples.push(json!({"phase": phase, "node": desc, "decisions": stats.rules.iter().map(|(r, t, d)| format!("terminal={t}: {d:?} by {r:?}")).collect::<BTreeSet<_>>()}));
    }
    for m in mism {
        col.total_mismatches += 1;
        let case = vec![desc.clone(), format!("stream={}", m.stream)];
        let key = format!("{}|{}|{}", m.system, m.clause, case.join(" "));
        let order = col.total_mismatches;
        col.findings.entry(key).or_insert_with(|| {
            (
                live.non_default(),
                order,
                json!({
                    "system": m.system, "clause": m.clause, "case": case,
                    "message": format!("{} [reached from: {}]", m.message, prev.describe()),
                    "replay": {"kind": "node", "prev": prev.to_json(), "cfg": live.to_json(), "visit": col.visits, "tier": col.tier},
                }),
            )
        });
    }
}

/// stands for an environment value that is not valid UTF-8 (see `Rig::set_var`)
const NON_UTF8_MARKER: &str = "\u{1}not-utf8";

fn extended_values(var: usize) -> Vec<Option<&'static str>> {
    let mut v = extended_values_text(var);
    v.push(Some(NON_UTF8_MARKER));
    v
}

fn extended_values_text(var: usize) -> Vec<Option<&'static str>> {
    match var {
        0 | 1 => vec![None, Some(""), Some("0"), Some("1"), Some("false"), Some(" "), Some("true")],
        2 => vec![None, Some(""), Some("0"), Some("1"), Some("00"), Some("0 "), Some("false"), Some("no")],
        3 => vec![None, Some(""), Some("dumb"), Some("DUMB"), Some("Dumb"), Some("dumb "), Some("dumber"), Some("xterm"), Some("xterm-256color"), Some("cygwin"), Some("vt100")],
        4 => vec![None, Some(""), Some("true"), Some("false"), Some("0"), Some("woodpecker")],
        _ => V_COLORTERM.iter().copied().chain([Some("24BIT"), Some("truecolor "), Some("yes")]).collect(),
    }
}

fn clap_part(rig: &mut Rig, col: &mut Collected) -> Value {
    use clap::{Args as _, FromArgMatches as _};
    let mut problems: Vec<(String, String)> = vec![];
    let mut n = 0u64;
    let table = [
        ("auto", colorchoice_clap::ColorChoice::Auto, ColorChoice::Auto),
        ("always", colorchoice_clap::ColorChoice::Always, ColorChoice::Always),
        ("never", colorchoice_clap::ColorChoice::Never, ColorChoice::Never),
    ];
    let parse = |args: &[&str]| -> Result<colorchoice_clap::Color, String> {
        let cmd = colorchoice_clap::Color::augment_args(clap::Command::new("prog").color(clap::ColorChoice::Never));
        let m = cmd.try_get_matches_from(args).map_err(|e| e.kind().to_string())?;
        colorchoice_clap::Color::from_arg_matches(&m).map_err(|e| e.kind().to_string())
    };
    #[derive(clap::Parser, Debug)]
    struct Cli {
        #[command(flatten)]
        color: colorchoice_clap::Color,
    }
    for (word, flag, want) in table {
        // value -> choice
        let c = colorchoice_clap::Color { color: flag };
        n += 1;
        if c.as_choice() != want {
            problems.push((format!("as_choice {word}"), format!("Color{{{flag:?}}}.as_choice() = {:?}, expected {want:?}", c.as_choice())));
        }
        // real argument parsing, three spellings
        let spellings: [Vec<String>; 3] = [
            vec!["prog".into(), "--color".into(), word.into()],
            vec!["prog".into(), format!("--color={word}")],
            vec!["prog".into(), "--color".into(), "never".into(), "--color".into(), word.into()],
        ];
        for (si, sp) in spellings.iter().enumerate() {
            let refs: Vec<&str> = sp.iter().map(|s| s.as_str()).collect();
            n += 1;
            match parse(&refs) {
                Ok(c) if c.as_choice() == want => {}
                Ok(c) => problems.push((format!("parse {word} spelling{si}"), format!("{sp:?} parsed to {:?} -> {:?}, expected {want:?}", c.color, c.as_choice()))),
                // repeating the flag may legitimately be rejected; the single-flag spellings must parse
                Err(_) if si == 2 => {}
                Err(e) => problems.push((format!("parse {word} spelling{si}"), format!("{sp:?} was rejected: {e}"))),
            }
        }
        n += 1;
        match <Cli as clap::Parser>::try_parse_from(["prog", "--color", word]) {
            Ok(cli) if cli.color.as_choice() == want => {}
            Ok(cli) => problems.push((format!("derive-parse {word}"), format!("--color {word} parsed to {:?}", cli.color.as_choice()))),
            Err(e) => problems.push((format!("derive-parse {word}"), format!("--color {word} rejected: {}", e.kind()))),
        }
        // write_global from every earlier global value, then the decision follows it
        for before in CHOICES {
            rig.set_global(before);
            c.write_global();
            rig.live.global = want; // what the harness now believes
            n += 1;
            if ColorChoice::global() != want {
                problems.push((format!("write_global {word} after {before:?}"), format!("global() = {:?} after Color{{{flag:?}}}.write_global()", ColorChoice::global())));
                rig.live.global = ColorChoice::global();
                rig.set_global(want);
            }
            let prev = rig.live.clone();
            visit(rig, &prev, col, "clap");
        }
    }
    // no flag -> Auto
    n += 1;
    match parse(&["prog"]) {
        Ok(c) if c.as_choice() == ColorChoice::Auto => {}
        Ok(c) => problems.push(("parse default".into(), format!("no flag parsed to {:?}", c.as_choice()))),
        Err(e) => problems.push(("parse default".into(), format!("no flag rejected: {e}"))),
    }
    // one-to-one
    let images: BTreeSet<String> = table.iter().map(|(_, f, _)| format!("{:?}", colorchoice_clap::Color { color: *f }.as_choice())).collect();
    n += 1;
    if images.len() != table.len() {
        problems.push(("one-to-one".into(), format!("the three flag values map onto only {} choices: {images:?}", images.len())));
    }
    // informational: what an unknown value does (nothing is demanded)
    let unknown = parse(&["prog", "--color", "sometimes"]).map(|c| format!("{:?}", c.as_choice()));
    for (case, msg) in &problems {
        let key = format!("colorchoice_clap::Color|flag-mapping-wrong|{case}");
        col.total_mismatches += 1;
        let order = col.total_mismatches;
        col.findings.entry(key).or_insert_with(|| {
            (0, order, json!({"system":"colorchoice_clap::Color","clause":"flag-mapping-wrong","case":[case],"message":msg,"replay":{"kind":"clap"}}))
        });
    }
    col.comparisons += n;
    rig.set_global(ColorChoice::Auto);
    json!({"system":"colorchoice_clap::Color","checks":n,"flag_values":3,"unknown_value_result":format!("{unknown:?}")})
}

fn child_walk(quick: bool, no_pty: bool) -> Result<Value, String> {
    walk(quick, no_pty, None).map(|(v, _)| v)
}

fn walk(quick: bool, no_pty: bool, capture_at: Option<u64>) -> Result<(Value, Option<Vec<Mismatch>>), String> {
    let mut rig = Rig::new(no_pty)?;
    let mut col = Collected { tier: if quick { "quick".into() } else { "thorough".into() }, capture_at, ..Default::default() };
    let mut parts = vec![];
    let has_pty = rig.has_pty();
    let stdio_values: Vec<usize> = if has_pty { vec![0, 1] } else { vec![1] };
    let radices = [4, 4, 4, 4, 4, 3, stdio_values.len()];
    let path = gray_path(&radices);
    // self-check of the path: all nodes, once, one coordinate per step
    let expected_nodes: usize = radices.iter().product();
    let uniq: BTreeSet<&Vec<usize>> = path.iter().collect();
    if path.len() != expected_nodes || uniq.len() != expected_nodes || path.windows(2).any(|w| w[0].iter().zip(&w[1]).filter(|(a, b)| a != b).count() != 1) {
        return Err("Gray path self-check failed".into());
    }
    let coord_of = |t: &Vec<usize>| -> Coord { [t[0], t[1], t[2], t[3], t[4], t[5], stdio_values[t[6]]] };

    // phase A: Gray walk, one live change per step
    let first = coord_of(&path[0]);
    for i in 0..7 {
        rig.set_coord(i, first[i])?;
    }
    let mut prev = rig.live.clone();
    let steps0 = rig.steps;
    for t in &path {
        let c = coord_of(t);
        for i in 0..7 {
            rig.set_coord(i, c[i])?;
        }
        visit(&mut rig, &prev, &mut col, "gray-walk");
        prev = rig.live.clone();
    }
    let walk_steps = rig.steps - steps0;
    parts.push(json!({"phase":"gray-walk","nodes":path.len(),"live_changes":walk_steps,"radices":radices,"variables":COORD_NAMES}));
    if walk_steps != path.len() as u64 - 1 {
        return Err(format!("Gray walk made {walk_steps} live changes for {} nodes", path.len()));
    }

    // phase B: every edge of the configuration graph, both directions
    let mut edge_visits = 0u64;
    for t in path.iter().rev() {
        let c = coord_of(t);
        for i in 0..7 {
            rig.set_coord(i, c[i])?;
        }
        for i in 0..7 {
            let values: Vec<usize> = if i == 6 { stdio_values.clone() } else { (0..radices[i]).collect() };
            for v in values {
                if v == c[i] {
                    continue;
                }
                let here = rig.live.clone();
                rig.set_coord(i, v)?;
                visit(&mut rig, &here, &mut col, "edge-out");
                let there = rig.live.clone();
                rig.set_coord(i, c[i])?;
                visit(&mut rig, &there, &mut col, "edge-back");
                edge_visits += 2;
            }
        }
    }
    parts.push(json!({"phase":"all-edges","directed_edge_traversals":edge_visits,"complete": edge_visits as usize == expected_nodes * 2 * radices.iter().map(|r| r - 1).sum::<usize>()}));

    // thorough: further Gray walks with the variable order rotated (each variable in turn is the slowest / fastest one)
    if !quick {
        let mut rot_visits = 0u64;
        for rot in 1..7 {
            let order: Vec<usize> = (0..7).map(|k| (k + rot) % 7).collect();
            let rad: Vec<usize> = order.iter().map(|&i| radices[i]).collect();
            let p = gray_path(&rad);
            let mut first = true;
            for t in &p {
                let mut c = [0usize; 7];
                for (k, &i) in order.iter().enumerate() {
                    c[i] = if i == 6 { stdio_values[t[k]] } else { t[k] };
                }
                let here = rig.live.clone();
                let before = rig.steps;
                for i in 0..7 {
                    rig.set_coord(i, c[i])?;
                }
                if !first && rig.steps - before != 1 {
                    return Err("rotated Gray walk changed more than one variable in a step".into());
                }
                first = false;
                visit(&mut rig, &here, &mut col, "rotated-gray-walk");
                rot_visits += 1;
            }
        }
        parts.push(json!({"phase":"rotated-gray-walks","rotations":6,"visits":rot_visits}));
    }

    // phase C: wider value sets per variable (incl. COLORTERM), from two base configurations and both stdio settings
    let mut ext_visits = 0u64;
    for base_term in [None, Some("dumb"), Some("xterm-256color")] {
        for &sv in &stdio_values {
            let base = Live { global: ColorChoice::Auto, vars: [None, None, None, base_term.map(|s| s.to_string()), None, None], stdio: sv };
            rig.goto(&base)?;
            for var in 0..6 {
                for val in extended_values(var) {
                    let here = rig.live.clone();
                    rig.set_var(var, val);
                    visit(&mut rig, &here, &mut col, "extended-values");
                    ext_visits += 1;
                }
                let here = rig.live.clone();
                rig.set_var(var, base.vars[var].as_deref());
                visit(&mut rig, &here, &mut col, "extended-values");
                ext_visits += 1;
            }
            // COLORTERM x global choice
            for g in CHOICES {
                for val in V_COLORTERM {
                    let here = rig.live.clone();
                    rig.set_global(g);
                    rig.set_var(5, val);
                    visit(&mut rig, &here, &mut col, "colorterm");
                    ext_visits += 1;
                }
            }
            rig.set_var(5, None);
            rig.set_global(ColorChoice::Auto);
        }
    }
    parts.push(json!({"phase":"extended-values+COLORTERM","visits":ext_visits,
        "values": (0..6).map(|v| json!({VAR_NAMES[v]: extended_values(v)})).collect::<Vec<_>>() }));

    // phase C2: variables the statement does not mention (vendor CI markers, other colour conventions, near-miss
    // spellings) must not move the decision: each one set on top of eight base configurations, both stdio settings
    let mut foreign_visits = 0u64;
    const FOREIGN: [(&str, &str); 12] = [
        ("TF_BUILD", "True"), ("TEAMCITY_VERSION", "2024.1"), ("JENKINS_URL", "http://x/"), ("GITHUB_ACTIONS", "true"), ("BUILD_NUMBER", "7"), ("FORCE_COLOR", "1"),
        ("COLORFGBG", "15;0"), ("TERM_PROGRAM", "vscode"), ("NOCOLOR", "1"), ("CLICOLORFORCE", "1"), ("WT_SESSION", "1"), ("ANSICON", "1"),
    ];
    for &sv in &stdio_values {
        for (term, clicolor, ci) in [(None, None, None), (Some("dumb"), None, None), (Some("xterm-256color"), None, None), (None, Some("1"), None), (Some("dumb"), Some("0"), None), (None, None, Some("")), (Some("dumb"), None, Some("1")), (Some("xterm"), Some("0"), Some("1"))] {
            let base = Live { global: ColorChoice::Auto, vars: [None, None, clicolor.map(|s: &str| s.to_string()), term.map(|s: &str| s.to_string()), ci.map(|s: &str| s.to_string()), None], stdio: sv };
            rig.goto(&base)?;
            for (k, v) in FOREIGN {
                std::env::set_var(k, v);
                let here = rig.live.clone();
                visit(&mut rig, &here, &mut col, "foreign-variables");
                std::env::remove_var(k);
                foreign_visits += 1;
            }
        }
    }
    parts.push(json!({"phase":"foreign-variables","visits":foreign_visits,"variables":FOREIGN.iter().map(|(k, v)| format!("{k}={v}")).collect::<Vec<_>>()}));

    // phase D: the clap flag
    let base = Live { global: ColorChoice::Auto, vars: [None, None, None, Some("xterm-256color".into()), None, None], stdio: stdio_values[0] };
    rig.goto(&base)?;
    parts.push(clap_part(&mut rig, &mut col));

    rig.restore();
    let restored_ok = VAR_NAMES.iter().all(|n| std::env::var_os(n).is_none()) && ColorChoice::global() == ColorChoice::Auto;
    drop(rig);

    // findings: simplest configurations first, capped
    let mut fs: Vec<(usize, u64, Value)> = col.findings.into_values().collect();
    fs.sort_by_key(|(s, o, _)| (*s, *o));
    let distinct_findings = fs.len();
    let kept: Vec<Value> = fs.into_iter().take(40).map(|(_, _, v)| v).collect();
    let captured = col.captured.take();
    Ok((json!({
        "findings": kept,
        "distinct_findings": distinct_findings,
        "total_mismatches": col.total_mismatches,
        "comparisons": col.comparisons,
        "visits": col.visits,
        "distinct_nodes": col.distinct_nodes.len(),
        "distinct_outcomes": col.outcomes.len(),
        "rules": col.rules,
        "samples": col.samples,
        "parts": parts,
        "pty": has_pty,
        "graph_nodes": expected_nodes,
        "restored": restored_ok,
    }), captured))
}

fn child_main(outfile: &str, tier: &str, no_pty: bool) -> ! {
    // keep panics of the code under test from writing to a redirected stderr
    std::panic::set_hook(Box::new(|_| {}));
    let r = std::panic::catch_unwind(|| child_walk(tier == "quick", no_pty));
    let doc = match r {
        Ok(Ok(v)) => v,
        Ok(Err(e)) => json!({"machinery_error": e}),
        Err(p) => {
            let m = p.downcast_ref::<String>().cloned().or_else(|| p.downcast_ref::<&str>().map(|s| s.to_string())).unwrap_or_default();
            json!({"machinery_error": format!("panic in the walker: {m}")})
        }
    };
    if std::fs::write(outfile, serde_json::to_string(&doc).unwrap()).is_err() {
        std::process::exit(3);
    }
    std::process::exit(0);
}

// ---------------------------------------------------------------- parent

fn main_check(ctx: &Ctx) -> Outcome {
    let mut out = Outcome::default();
    let dir = build_dir();
    let _ = std::fs::create_dir_all(&dir);
    let result_path = dir.join(format!("c09-result-{}.json", std::process::id()));
    let exe = std::env::current_exe().unwrap_or_else(|e| {
        eprintln!("MACHINERY ERROR: current_exe: {e}");
        std::process::exit(2);
    });
    let mut cmd = std::process::Command::new(exe);
    cmd.arg("--c09-child").arg(&result_path).arg(if ctx.quick() { "quick" } else { "thorough" });
    if ctx.opt("nopty") == Some("1") {
        cmd.arg("nopty");
    }
    cmd.env_clear();
    for k in ["VERIF_BUILD_DIR", "VERIF_OUT_DIR", "PATH"] {
        if let Ok(v) = std::env::var(k) {
            cmd.env(k, v);
        }
    }
    cmd.stdin(std::process::Stdio::null());
    let res = cmd.output();
    let doc: Value = match res {
        Ok(o) if o.status.success() => {
            let text = std::fs::read_to_string(&result_path).unwrap_or_default();
            let _ = std::fs::remove_file(&result_path);
            serde_json::from_str(&text).unwrap_or_else(|e| {
                eprintln!("MACHINERY ERROR: child result unreadable: {e}");
                std::process::exit(2);
            })
        }
        Ok(o) => {
            eprintln!(
                "MACHINERY ERROR: walker child ended with {} (stdout {:?}, stderr {:?})",
                o.status,
                String::from_utf8_lossy(&o.stdout),
                String::from_utf8_lossy(&o.stderr)
            );
            std::process::exit(2);
        }
        Err(e) => {
            eprintln!("MACHINERY ERROR: cannot start the walker child: {e}");
            std::process::exit(2);
        }
    };
    if let Some(e) = doc["machinery_error"].as_str() {
        eprintln!("MACHINERY ERROR: {e}");
        std::process::exit(2);
    }
    for f in doc["findings"].as_array().cloned().unwrap_or_default() {
        out.findings.push(Finding {
            system: f["system"].as_str().unwrap_or("").to_string(),
            clause: f["clause"].as_str().unwrap_or("").to_string(),
            case: f["case"].as_array().map(|a| a.iter().map(|x| x.as_str().unwrap_or("").to_string()).collect()).unwrap_or_default(),
            message: f["message"].as_str().unwrap_or("").to_string(),
            replay: f["replay"].clone(),
        });
    }
    let distinct = doc["distinct_findings"].as_u64().unwrap_or(0);
    out.extra_violation_count = distinct.saturating_sub(out.findings.len() as u64);
    let pty = doc["pty"].as_bool().unwrap_or(false);
    out.set("evaluations", doc["comparisons"].clone());
    out.set("distinct_nontrivial", doc["distinct_outcomes"].clone());
    out.set("rule", json!("evaluations = single comparisons of a live observation (choice(), auto().current_choice(), is_terminal(), one anstyle_query probe, global(), one clap mapping) with M-ENV; distinct_nontrivial = distinct (deciding rule, terminal?, decision) triples met"));
    out.set("graph_nodes", doc["graph_nodes"].clone());
    out.set("node_visits", doc["visits"].clone());
    out.set("distinct_configurations_visited", doc["distinct_nodes"].clone());
    out.set("deciding_rule_histogram", doc["rules"].clone());
    out.set("mismatches_total", doc["total_mismatches"].clone());
    out.set("distinct_findings", json!(distinct));
    out.set("terminal_kinds_covered", json!(pty));
    out.set("environment_restored_at_end", doc["restored"].clone());
    for p in doc["parts"].as_array().cloned().unwrap_or_default() {
        out.push_part(p);
    }
    for s in doc["samples"].as_array().cloned().unwrap_or_default() {
        out.push_sample(s);
    }
    let edges_complete = doc["parts"][1]["complete"].as_bool().unwrap_or(false);
    out.set("exhaustive", json!(pty && edges_complete));
    out.set(
        "explanation",
        json!(format!(
            "every node of the configuration graph visited along a one-change-per-step Gray path; all-edges phase complete: {edges_complete}; {}",
            if pty { "terminal streams = pty slave as File, Box<File>, Stdout(Lock), Stderr(Lock) via dup2" } else { "REDUCED COVERAGE: no pty available, terminal stream kinds were skipped" }
        )),
    );
    if !pty {
        println!("note: C09 reduced coverage: openpty failed, terminal stream kinds skipped");
    }
    out.assume("isatty() on a pty slave stands for 'the stream is a terminal'; the harness's ground truth for every stream is libc::isatty on its fd (false for in-memory and boxed dyn writers)");
    out.assume("'enabled' may be reported by choice() as Always or AlwaysAnsi; an explicit global choice must be returned as is; auto(..).current_choice() must be Never when colour is off, AlwaysAnsi for an explicit AlwaysAnsi, AlwaysAnsi or Always otherwise (non-Windows)");
    out.assume("one value that is not valid Unicode (bytes 78 e9 ff) is enumerated per variable; the model sees it as a non-empty text that is none of the special values");
    out.assume("clap: the single-flag spellings '--color v' and '--color=v' must parse for v in auto/always/never; what unknown or repeated flags do is not demanded");
    out.assume("TERM convention on this (non-Windows) platform: supports colour <=> set and != 'dumb' (exact, case-sensitive), as the statement words it");
    out
}

fn replay(v: &Value) -> Result<(), String> {
    match v["kind"].as_str().unwrap_or("") {
        "node" => {
            let prev = Live::from_json(&v["prev"]).ok_or("bad prev")?;
            let cfg = Live::from_json(&v["cfg"]).ok_or("bad cfg")?;
            std::io::stdout().flush().ok();
            let fmt = |m: &[Mismatch]| m.iter().map(|x| format!("{} [{}]: {}", x.system, x.stream, x.message)).collect::<Vec<_>>().join("; ");
            // The verdict at a node may depend on the whole history of the process (e.g. a cached
            // decision), so the case is the deterministic walk up to that visit, redone from a fresh
            // process state (this replay process has not called into the crates yet).
            if let Some(k) = v["visit"].as_u64() {
                let (_, captured) = walk(v["tier"].as_str() != Some("thorough"), false, Some(k))?;
                return match captured {
                    Some(m) if !m.is_empty() => Err(format!("{} (visit {k} of the walk): {}", cfg.describe(), fmt(&m))),
                    Some(_) => Ok(()),
                    None => Err(format!("MACHINERY: the walk has no visit {k}")),
                };
            }
            // payload without a visit number: predecessor, then the node itself
            let mut rig = Rig::new(false)?;
            let r = (|| {
                if !rig.has_pty() && (prev.stdio == 0 || cfg.stdio == 0) {
                    return Err("MACHINERY: no pty available for this replay".to_string());
                }
                rig.goto(&prev)?;
                let _ = std::panic::catch_unwind(std::panic::AssertUnwindSafe(|| evaluate(&mut rig)));
                rig.goto(&cfg)?;
                let r = std::panic::catch_unwind(std::panic::AssertUnwindSafe(|| evaluate(&mut rig)));
                match r {
                    Ok((m, _)) if m.is_empty() => Ok(()),
                    Ok((m, _)) => Err(fmt(&m)),
                    Err(_) => Err("panic during evaluation".into()),
                }
            })();
            rig.restore();
            drop(rig);
            r.map_err(|e| format!("{}: {e}", cfg.describe()))
        }
        "clap" => {
            let mut rig = Rig::new(true)?;
            let mut col = Collected::default();
            rig.set_stdio(1)?;
            clap_part(&mut rig, &mut col);
            rig.restore();
            drop(rig);
            let msgs: Vec<String> = col.findings.values().map(|(_, _, f)| f["message"].as_str().unwrap_or("").to_string()).collect();
            if msgs.is_empty() {
                Ok(())
            } else {
                Err(msgs.join("; "))
            }
        }
        k => Err(format!("unknown replay kind {k}")),
    }
}

fn main() {
    let args: Vec<String> = std::env::args().collect();
    if let Some(i) = args.iter().position(|a| a == "--c09-child") {
        let out = args.get(i + 1).cloned().unwrap_or_default();
        let tier = args.get(i + 2).cloned().unwrap_or_else(|| "quick".into());
        let no_pty = args.get(i + 3).map(|s| s == "nopty").unwrap_or(false);
        child_main(&out, &tier, no_pty);
    }
    run_check("C09", "exploration", main_check, replay);
}
