//! C12 - the LS_COLORS parser applies SGR codes left to right.
//!
//! Finite-domain enumeration (E3) of `anstyle_ls::parse` against M-LS
//! (`vmodel::ls`, a left-to-right fold written from the property statement):
//!  (a) every list of <= 3 (thorough 4) codes over 0..=110, canonical spelling
//!      (thorough: + every list of 5 over a 36-code subset);
//!  (b) every list of <= 2 codes over 0..=255 (all unknown codes);
//!  (c) leading-zero spellings (widths 1,2,3,6) of every list <= 2 over 0..=110
//!      and of every list of 3 over a 16-code subset;
//!  (d) the extended forms 38/48/58 ;5;n and ;2;r;g;b with every component from
//!      {0,1,2,5,38,255} between every pre/post code from 0..=110 (or none),
//!      every component value 0..=255 alone, and two extended forms in a row;
//!  (e) every list of <= 4 (thorough 5) fields over a malformed-field alphabet.
//! Every call runs under catch_unwind.

#[path = "../topk.rs"]
mod topk;

use rayon::prelude::*;
use serde_json::json;
use std::collections::HashSet;
use std::fmt::Write as _;
use topk::*;
use vchecks::common::*;
use vexplore::evidence::*;
use vexplore::util::*;
use vmodel::ls::{self, Expect, LsStyle};
use vmodel::sgr::Col;

#[derive(Default)]
struct Acc {
    evals: u64,
    unspecified: u64,
    none_expected: u64,
    styles: HashSet<LsStyle>,
}

impl Acc {
    fn merge(mut self, o: Acc) -> Acc {
        self.evals += o.evals;
        self.unspecified += o.unspecified;
        self.none_expected += o.none_expected;
        if self.styles.len() < o.styles.len() {
            let mut o = o;
            o.styles.extend(self.styles);
            self.styles = o.styles;
        } else {
            self.styles.extend(o.styles);
        }
        self
    }
}

fn show_col(c: Col) -> String {
    format!("{c:?}")
}

fn show_style(s: &LsStyle) -> String {
    let names: Vec<&str> = (0..12).filter(|i| s.effects & (1 << i) != 0).map(|i| vmodel::sgr::fx::NAMES[i]).collect();
    format!("fg={} bg={} ul={} effects={{{}}}", show_col(s.fg), show_col(s.bg), show_col(s.ul), names.join(","))
}

fn actual_tuple(st: &anstyle::Style) -> LsStyle {
    let (fg, bg, ul, effects) = style_tuple(st);
    LsStyle { fg, bg, ul, effects }
}

/// Compare one input.  Ok(expectation) or Err((clause, message)).
fn check_one(input: &str) -> Result<Expect, (&'static str, String)> {
    let expect = ls::parse(input);
    let actual = match guarded(|| anstyle_ls::parse(input)) {
        Ok(a) => a,
        Err(p) => return Err(("panic", format!("anstyle_ls::parse({input:?}) panicked: {p}"))),
    };
    match &expect {
        Expect::Unspecified(_) => {}
        Expect::NoStyle => {
            if let Some(st) = actual {
                return Err(("no-style-expected", format!("parse({input:?}) must give no style, got Some({})", show_style(&actual_tuple(&st)))));
            }
        }
        Expect::Reject => {
            if let Some(st) = actual {
                return Err((
                    "malformed-accepted",
                    format!("parse({input:?}) has a field that is not a number in 0-255 but was accepted as {}", show_style(&actual_tuple(&st))),
                ));
            }
        }
        Expect::Style(m) => match actual {
            None => return Err(("well-formed-rejected", format!("parse({input:?}) returned None, expected {}", show_style(m)))),
            Some(st) => {
                let a = actual_tuple(&st);
                let same = a.fg.same_modulo_16(m.fg) && a.bg.same_modulo_16(m.bg) && a.ul.same_modulo_16(m.ul) && a.effects == m.effects;
                if !same {
                    return Err(("wrong-style", format!("parse({input:?}) = {} but the codes denote {}", show_style(&a), show_style(m))));
                }
            }
        },
    }
    Ok(expect)
}

fn run_case(system: &str, input: &str, acc: &mut Acc, col: &Collector) {
    acc.evals += 1;
    match check_one(input) {
        Ok(Expect::Style(s)) => {
            acc.styles.insert(s);
        }
        Ok(Expect::Unspecified(_)) => acc.unspecified += 1,
        Ok(_) => acc.none_expected += 1,
        Err((clause, msg)) => col.push(Finding {
            system: system.to_string(),
            clause: clause.to_string(),
            case: vec![format!("{input:?}")],
            message: msg,
            replay: json!({"kind": "parse", "input": hex(input.as_bytes())}),
        }),
    }
}

fn join_codes(buf: &mut String, codes: &[u32], widths: &[usize]) {
    buf.clear();
    for (i, c) in codes.iter().enumerate() {
        if i > 0 {
            buf.push(';');
        }
        let w = widths.get(i).copied().unwrap_or(1);
        let _ = write!(buf, "{c:0w$}");
    }
}

/// every list of exactly `len` codes over 0..=max, canonical spelling
fn sweep_lists(system: &str, alpha: &[u32], len: usize, col: &Collector) -> Acc {
    if len == 0 {
        let mut acc = Acc::default();
        run_case(system, "", &mut acc, col);
        return acc;
    }
    let n = alpha.len() as u64;
    alpha
        .par_iter()
        .map(|&first| {
            let mut acc = Acc::default();
            let mut buf = String::new();
            let mut codes = vec![0u32; len];
            codes[0] = first;
            let total = n.pow(len as u32 - 1);
            for mut i in 0..total {
                for k in (1..len).rev() {
                    codes[k] = alpha[(i % n) as usize];
                    i /= n;
                }
                join_codes(&mut buf, &codes, &[]);
                run_case(system, &buf, &mut acc, col);
            }
            acc
        })
        .reduce(Acc::default, Acc::merge)
}

/// every recognised code family with its boundaries, plus unknown codes: the alphabet of the length-5 sweep
const SUBSET36: [u32; 36] = [
    0, 1, 2, 3, 4, 5, 6, 7, 8, 9, 10, 21, 22, 23, 24, 25, 26, 27, 28, 29, 30, 37, 38, 39, 40, 47, 48, 49, 58, 59, 90, 97, 100, 107, 108, 255,
];

const WIDTHS: [usize; 4] = [1, 2, 3, 6];
const SUBSET16: [u32; 16] = [0, 1, 2, 4, 5, 22, 24, 31, 38, 39, 48, 58, 90, 97, 107, 110];
const COMPONENTS: [u32; 6] = [0, 1, 2, 5, 38, 255];

fn malformed_alphabet() -> Vec<&'static str> {
    vec![
        "1", "0", "31", "22", "", "+1", "-1", "-0", " 1", "1 ", "\t1", "256", "300", "1a", "a", "\u{e9}", "1.0", "0x1", "1e1",
        "\u{ff11}", "\u{663}", "999999999999999999999", "0000000000000000000001", "1\u{0}", ":", "1:2", "1,2", "+", "-", "++1", "38", "5",
    ]
}

fn main_check(ctx: &Ctx) -> Outcome {
    quiet_panics();
    let mut out = Outcome::default();
    // the functions under test must not consult the environment: a few representative inputs under a cleared and two
    // hostile settings of the colour-related variables (before any worker thread exists)
    fn env_digest() -> Vec<String> {
        ["", "0", "01;31", "38;5;9;48;2;1;2;3;4", "58;5;9;24", "x", "1;;2", "90;107;3"].iter().map(|t| format!("{:?}", anstyle_ls::parse(t))).collect::<Vec<String>>()
    }
    if let Err(m) = vexplore::util::env_independence(env_digest) {
        out.findings.push(Finding {
            system: "anstyle_ls::parse".into(),
            clause: "environment-dependence".into(),
            case: vec!["representative inputs".into()],
            message: m.chars().take(900).collect(),
            replay: serde_json::json!({"kind":"env"}),
        });
    }
    let quick = ctx.quick();
    let col = Collector::new(5);
    let mut acc = Acc::default();

    // (a) all lists over 0..=110
    let max_len = if quick { 3 } else { 4 };
    for len in 0..=max_len {
        let t = std::time::Instant::now();
        let a = sweep_lists("lists over 0..=110", &(0..=110).collect::<Vec<u32>>(), len, &col);
        out.push_part(json!({"part":"a","system":"all lists of codes over 0..=110","length":len,"cases":a.evals,"unspecified_tail":a.unspecified,"wall_s":t.elapsed().as_secs_f64()}));
        acc = acc.merge(a);
    }
    if !quick {
        let t = std::time::Instant::now();
        let a = sweep_lists("lists of 5 over the 36-code subset", &SUBSET36, 5, &col);
        out.push_part(json!({"part":"a5","system":"all lists of 5 codes over a 36-code subset (every code family with its boundaries)","alphabet":SUBSET36.to_vec(),"cases":a.evals,"unspecified_tail":a.unspecified,"wall_s":t.elapsed().as_secs_f64()}));
        acc = acc.merge(a);
    }
    // (b) all lists <= 2 over 0..=255
    for len in 1..=2 {
        let a = sweep_lists("lists over 0..=255", &(0..=255).collect::<Vec<u32>>(), len, &col);
        out.push_part(json!({"part":"b","system":"all lists of codes over 0..=255","length":len,"cases":a.evals}));
        acc = acc.merge(a);
    }
    // (c) leading zeros
    {
        let mut cases: Vec<(Vec<u32>, Vec<usize>)> = vec![];
        for a in 0..=110u32 {
            for wa in WIDTHS {
                cases.push((vec![a], vec![wa]));
                for b in 0..=110u32 {
                    for wb in WIDTHS {
                        cases.push((vec![a, b], vec![wa, wb]));
                    }
                }
            }
        }
        for t in strings_of(16, 3) {
            for w in strings_of(4, 3) {
                cases.push((t.iter().map(|&i| SUBSET16[i]).collect(), w.iter().map(|&i| WIDTHS[i]).collect()));
            }
        }
        let a = cases
            .par_chunks(4096)
            .map(|ch| {
                let mut acc = Acc::default();
                let mut buf = String::new();
                for (codes, widths) in ch {
                    join_codes(&mut buf, codes, widths);
                    run_case("zero-padded spellings", &buf, &mut acc, &col);
                }
                acc
            })
            .reduce(Acc::default, Acc::merge);
        out.push_part(json!({"part":"c","system":"zero-padded spellings, widths 1/2/3/6","cases":a.evals}));
        acc = acc.merge(a);
    }
    // (d) extended forms
    {
        let mut tails: Vec<Vec<u32>> = vec![];
        for x in [38u32, 48, 58] {
            for &n in &COMPONENTS {
                tails.push(vec![x, 5, n]);
            }
            for &r in &COMPONENTS {
                for &g in &COMPONENTS {
                    for &b in &COMPONENTS {
                        tails.push(vec![x, 2, r, g, b]);
                    }
                }
            }
        }
        let ntails = tails.len();
        let a = tails
            .par_iter()
            .map(|tail| {
                let mut acc = Acc::default();
                let mut buf = String::new();
                let mut codes: Vec<u32> = vec![];
                for pre in -1i32..=110 {
                    for post in -1i32..=110 {
                        codes.clear();
                        if pre >= 0 {
                            codes.push(pre as u32);
                        }
                        codes.extend_from_slice(tail);
                        if post >= 0 {
                            codes.push(post as u32);
                        }
                        join_codes(&mut buf, &codes, &[]);
                        run_case("extended colour forms in context", &buf, &mut acc, &col);
                    }
                }
                acc
            })
            .reduce(Acc::default, Acc::merge);
        out.push_part(json!({"part":"d1","system":"38/48/58 forms between every pre/post code (or none) of 0..=110","forms":ntails,"components":COMPONENTS,"cases":a.evals,"unspecified_tail":a.unspecified}));
        acc = acc.merge(a);

        // every component value alone, and truncated tails of every length
        let mut a = Acc::default();
        let mut buf = String::new();
        for x in [38u32, 48, 58] {
            for v in 0..=255u32 {
                for codes in [vec![x, 5, v], vec![x, 2, v, 7, 9], vec![x, 2, 7, v, 9], vec![x, 2, 7, 9, v], vec![x, v], vec![x, v, 1], vec![x, v, 1, 2, 3], vec![1, x, v, 1, 2, 3, 4]] {
                    join_codes(&mut buf, &codes, &[]);
                    run_case("extended colour forms, all component values", &buf, &mut a, &col);
                }
            }
            for full in [vec![x, 5, 9, 1], vec![x, 2, 7, 8, 9, 1]] {
                for cut in 1..=full.len() {
                    join_codes(&mut buf, &full[..cut], &[]);
                    run_case("extended colour forms, all component values", &buf, &mut a, &col);
                }
            }
        }
        out.push_part(json!({"part":"d2","system":"every component value 0..=255 in every position; truncated tails","cases":a.evals,"unspecified_tail":a.unspecified}));
        acc = acc.merge(a);

        // two extended forms in a row with a code between
        let small = [0u32, 5, 255];
        let mut forms: Vec<Vec<u32>> = vec![];
        for x in [38u32, 48, 58] {
            for &n in &small {
                forms.push(vec![x, 5, n]);
            }
            for &r in &small {
                for &g in &small {
                    for &b in &small {
                        forms.push(vec![x, 2, r, g, b]);
                    }
                }
            }
        }
        let mids: [i32; 10] = [-1, 0, 1, 4, 22, 24, 39, 49, 59, 110];
        let a = forms
            .par_iter()
            .map(|f1| {
                let mut acc = Acc::default();
                let mut buf = String::new();
                for f2 in &forms {
                    for mid in mids {
                        for last in mids {
                            let mut codes = f1.clone();
                            if mid >= 0 {
                                codes.push(mid as u32);
                            }
                            codes.extend_from_slice(f2);
                            if last >= 0 {
                                codes.push(last as u32);
                            }
                            join_codes(&mut buf, &codes, &[]);
                            run_case("two extended colour forms", &buf, &mut acc, &col);
                        }
                    }
                }
                acc
            })
            .reduce(Acc::default, Acc::merge);
        out.push_part(json!({"part":"d3","system":"two extended forms with a code between/after","forms":forms.len(),"cases":a.evals}));
        acc = acc.merge(a);
    }
    // (e) malformed fields
    {
        let alpha = malformed_alphabet();
        let n = if quick { 4 } else { 5 };
        let mut a = Acc::default();
        for len in 0..=n {
            let total = (alpha.len() as u64).pow(len as u32);
            const CHUNK: u64 = 8192;
            let nchunks = ((total + CHUNK - 1) / CHUNK) as usize;
            let part = (0..nchunks)
                .into_par_iter()
                .map(|c| {
                    let mut acc = Acc::default();
                    let mut s = String::new();
                    let lo = c as u64 * CHUNK;
                    for i0 in lo..(lo + CHUNK).min(total) {
                        let mut i = i0;
                        let mut idx = [0usize; 8];
                        for k in (0..len).rev() {
                            idx[k] = (i % alpha.len() as u64) as usize;
                            i /= alpha.len() as u64;
                        }
                        s.clear();
                        for k in 0..len {
                            if k > 0 {
                                s.push(';');
                            }
                            s.push_str(alpha[idx[k]]);
                        }
                        run_case("malformed-field alphabet", &s, &mut acc, &col);
                    }
                    acc
                })
                .reduce(Acc::default, Acc::merge);
            a = a.merge(part);
        }
        out.push_part(json!({"part":"e","system":"all lists of fields over the malformed alphabet","alphabet":alpha,"max_fields":n,"cases":a.evals,"expected_none":a.none_expected,"unspecified":a.unspecified}));
        acc = acc.merge(a);
    }

    // (g) long lists (a count of small items rather than one large item): n fields for n around 16, 32, 64, 128, 256,
    //     512, 1024 and 5000, all the same code or cycling through codes, ending in a distinguishing code, a reset, a
    //     malformed field, an empty field or a truncated extended form
    {
        let mut a = Acc::default();
        let mut s = String::new();
        for n in [15usize, 16, 17, 31, 32, 33, 63, 64, 65, 127, 128, 129, 255, 256, 257, 258, 511, 512, 513, 1023, 1024, 1025, 5000] {
            for body in [&["1"][..], &["4"], &["31"], &["1", "3", "4", "38;5;9", "48;2;1;2;3"]] {
                for tail in ["31", "0", "x", "", "256", "38;5", "58;2;1;2;3", "1;31"] {
                    s.clear();
                    let mut fields = 0usize;
                    let mut k = 0usize;
                    while fields < n {
                        if !s.is_empty() {
                            s.push(';');
                        }
                        s.push_str(body[k % body.len()]);
                        fields += body[k % body.len()].split(';').count();
                        k += 1;
                    }
                    s.push(';');
                    s.push_str(tail);
                    run_case("long lists", &s, &mut a, &col);
                }
            }
        }
        out.push_part(json!({"part":"g","system":"long lists: 23 lengths from 15 to 5000 fields x 4 bodies x 8 tails","cases":a.evals}));
        acc = acc.merge(a);
    }
    // (f) call histories: the result may depend on nothing but the argument.  Every ordered pair (and every triple over a
    //     smaller set) of inputs is parsed in order on a fresh thread (anything kept between calls - a scratch buffer, a
    //     cache - starts empty), and every answer is compared with the model; the first inputs include lists that stop early
    //     (unknown selector, truncated form), rejected lists and long lists.
    {
        let hist: Vec<&str> = vec![
            "", "0", "1", "31", "1;31", "4;58;5;9", "38;5;9", "38;2;1;2;3", "48;5;100;3", "38;6;1;7", "01;48;9;4;5;3", "58;7;7;7;7;7;7", "38", "38;5", "38;2;1;2",
            "48;2;1", "58;5", "x", "1;x", "31;;1", "256", "1;2;3;4;5;7;8;9", "0;0;0;0;0;0;0;0;0;0;0;0;0;0;0;0;0;0;0;0;0;0;0;0;0;0;0;0;0;0;0;0;0;0;0;0;7", "22;23;24", "39;49;59", "90;107",
            "38;5;1;38;6;2;4", "4;24", "58;5;9;24",
        ];
        // near-twins of an accepted input (a cache keyed on too little of the text would confuse them)
        let hist: Vec<&str> = hist.into_iter().chain(["31\0", "1;31\0", "1;31 ", "01;31", "1;031", "31;1", "1;31;"]).collect();
        let small: Vec<&str> = vec!["", "31", "38;6;1;7", "48;3;4;9;1", "x", "58;5;9", "1;38;2;1;2", "7"];
        let mut histories: Vec<Vec<&str>> = vec![];
        for a in &hist {
            for b in &hist {
                histories.push(vec![a, b]);
            }
        }
        for a in &small {
            for b in &small {
                for c in &small {
                    histories.push(vec![a, b, c]);
                }
            }
        }
        let a = histories
            .par_iter()
            .map(|h| {
                let h = h.clone();
                let colref = &col;
                std::thread::scope(|sc| {
                    sc.spawn(move || {
                        let mut acc = Acc::default();
                        for (i, input) in h.iter().enumerate() {
                            acc.evals += 1;
                            if let Err((clause, msg)) = check_one(input) {
                                colref.push(Finding {
                                    system: "call histories on one thread".to_string(),
                                    clause: clause.to_string(),
                                    case: vec![format!("{:?} then {input:?}", &h[..i])],
                                    message: format!("after the calls {:?} on the same thread: {msg}", &h[..i]),
                                    replay: json!({"kind": "history", "inputs": h.iter().map(|x| hex(x.as_bytes())).collect::<Vec<_>>()}),
                                });
                                break;
                            }
                        }
                        acc
                    })
                    .join()
                    .unwrap_or_default()
                })
            })
            .reduce(Acc::default, Acc::merge);
        out.push_part(json!({"part":"f","system":"call histories (pairs over 29 inputs, triples over 8) on a fresh thread each","histories":histories.len(),"cases":a.evals}));
        acc = acc.merge(a);
    }

    let (findings, total, per_clause) = col.finish();
    out.findings.extend(findings);
    out.set("violating_cases_total", json!(total));
    out.set("violating_cases_by_part_and_clause", per_clause);
    out.set("evaluations", json!(acc.evals));
    out.set("distinct_nontrivial", json!(acc.styles.len()));
    out.set("cases_expecting_none", json!(acc.none_expected));
    out.set("cases_unspecified_no_panic_only", json!(acc.unspecified));
    out.set("rule", json!("evaluations = inputs parsed by the real anstyle_ls::parse and compared with M-LS; distinct_nontrivial = distinct styles denoted by the well-formed inputs (each compared field by field)"));
    out.set("exhaustive", json!(true));
    out.set("explanation", json!(format!("every listed finite domain was completed: all code lists up to length {max_len} over 0..=110{}, all lists <= 2 over 0..=255, padded spellings, extended forms in context, malformed-field lists", if quick { "" } else { " and of length 5 over the 36-code subset" })));
    for s in ["01;31;22", "38;5;38;5;1", "58;2;1;2;3;0", "1;+1", "31; 42"] {
        let e = ls::parse(s);
        out.push_sample(json!({"input": s, "model": format!("{e:?}"), "impl": format!("{:?}", anstyle_ls::parse(s).map(|st| show_style(&actual_tuple(&st))))}));
    }
    out.assume("38/48/58 not followed by ';5;n' or ';2;r;g;b' (truncated or other selector): result unspecified, only 'no panic' is checked");
    out.assume("fields with an explicit '+' sign, '-0', or non-ASCII digits: unspecified (not checked either way); every other non-decimal field, empty fields, whitespace and values > 255 must be rejected");
    out.assume("code 21 and code 26 are not in the statement's list: treated as unknown codes (ignored)");
    out.assume("colours are compared modulo 'indices 0-15 of the 256 palette are the 16-colour palette'");
    out.assume("only \"\", \"0\" and \"00\" mean 'no style'; other spellings of zero (\"000\", \"0;0\") denote the default style");
    out
}

fn replay(v: &serde_json::Value) -> Result<(), String> {
    quiet_panics();
    match v["kind"].as_str().unwrap_or("") {
        "parse" => {
            let b = unhex(v["input"].as_str().ok_or("missing input")?);
            let s = String::from_utf8(b).map_err(|e| e.to_string())?;
            check_one(&s).map(|_| ()).map_err(|(c, m)| format!("{c}: {m}"))
        }
        "history" => {
            let inputs: Vec<String> = v["inputs"].as_array().ok_or("missing inputs")?.iter().map(|x| String::from_utf8(unhex(x.as_str().unwrap_or(""))).unwrap_or_default()).collect();
            std::thread::spawn(move || {
                for i in &inputs {
                    check_one(i).map(|_| ()).map_err(|(c, m)| format!("{c}: {m}"))?;
                }
                Ok(())
            })
            .join()
            .map_err(|_| "history thread panicked".to_string())?
        }
        "env" => Err("environment-dependence findings are replayed by re-running the check".into()),
        k => Err(format!("unknown replay kind {k}")),
    }
}

fn main() {
    run_check("C12", "exploration", main_check, replay);
}
