//! C04 - no panic, overflow or memory error on any untrusted input.
//!
//! Driver: builds the worker `c04w` in two profiles (`verif` = release + debug assertions +
//! overflow checks, `verifrel` = plain release, where the strip adapter's unchecked UTF-8
//! conversion is really unchecked) and runs each in a child process over the same
//! bounded-exhaustive input spaces; the thorough tier also runs the worker under Miri on a
//! reduced exhaustive space (uninitialised reads, invalid transmutes, invalid str).

use serde_json::{json, Value};
use std::process::Command;
use vexplore::evidence::*;

fn dirs() -> (String, String) {
    let harness = std::env::var("VERIF_HARNESS_DIR").unwrap_or_else(|_| "/verif/harness".into());
    let build = std::env::var("VERIF_BUILD_DIR").unwrap_or_else(|_| "/verif/.build".into());
    (harness, build)
}

fn tail(s: &[u8], n: usize) -> String {
    let t = String::from_utf8_lossy(s);
    t.chars().rev().take(n).collect::<String>().chars().rev().collect()
}

fn run_profile(profile: &str, space: &str) -> Result<Value, String> {
    let (harness, build) = dirs();
    let st = Command::new("cargo")
        .current_dir(&harness)
        .env("CARGO_NET_OFFLINE", "true")
        .args(["build", "--offline", "--profile", profile, "--bin", "c04w"])
        .output()
        .map_err(|e| format!("cannot run cargo: {e}"))?;
    if !st.status.success() {
        return Err(format!("MACHINERY: build of c04w [{profile}] failed: {}", tail(&st.stderr, 1500)));
    }
    let out = Command::new(format!("{build}/target/{profile}/c04w")).arg(space).output().map_err(|e| format!("MACHINERY: {e}"))?;
    parse_result(&out, &format!("c04w[{profile}]"))
}

fn parse_result(out: &std::process::Output, who: &str) -> Result<Value, String> {
    let stdout = String::from_utf8_lossy(&out.stdout);
    match stdout.lines().find(|l| l.starts_with("RESULT ")) {
        Some(line) => serde_json::from_str(&line[7..]).map_err(|e| format!("MACHINERY: bad result from {who}: {e}")),
        None => Err(format!("{who} died without a result (exit {:?}); stderr: {}", out.status.code(), tail(&out.stderr, 1200))),
    }
}

fn run_miri() -> Result<Value, String> {
    let (harness, build) = dirs();
    let out = Command::new("cargo")
        .current_dir(&harness)
        .env("CARGO_NET_OFFLINE", "true")
        .env("CARGO_TARGET_DIR", format!("{build}/miri-target"))
        .env("MIRIFLAGS", "-Zmiri-disable-isolation -Zmiri-ignore-leaks")
        .args(["+nightly", "miri", "run", "--offline", "-p", "vchecks", "--bin", "c04w", "--", "miri"])
        .output()
        .map_err(|e| format!("MACHINERY: cannot run cargo miri: {e}"))?;
    let stderr = String::from_utf8_lossy(&out.stderr);
    if stderr.contains("Undefined Behavior") {
        let i = stderr.find("Undefined Behavior").unwrap_or(0);
        return Err(format!("Miri reports {}", stderr[i.saturating_sub(10)..].chars().take(1500).collect::<String>()));
    }
    if !out.status.success() && !String::from_utf8_lossy(&out.stdout).contains("RESULT ") {
        return Err(format!("MACHINERY: cargo miri failed: {}", tail(&out.stderr, 1500)));
    }
    parse_result(&out, "c04w[miri]")
}

fn main_check(ctx: &Ctx) -> Outcome {
    let mut out = Outcome::default();
    let space = if ctx.quick() { "quick" } else { "thorough" };
    let mut evals = 0u64;
    let mut runs: Vec<(&str, Result<Value, String>)> = vec![("verif", run_profile("verif", space)), ("verifrel", run_profile("verifrel", space))];
    if !ctx.quick() {
        runs.push(("miri", run_miri()));
    }
    let mut distinct = 0u64;
    for (name, r) in runs {
        match r {
            Ok(v) => {
                evals += v["evaluations"].as_u64().unwrap_or(0);
                distinct += v["per_entry"].as_object().map(|o| o.values().filter_map(|x| x.as_u64()).sum::<u64>()).unwrap_or(0);
                for f in v["findings"].as_array().cloned().unwrap_or_default() {
                    out.findings.push(Finding {
                        system: format!("{}[{name}]", f["entry"].as_str().unwrap_or("")),
                        clause: f["clause"].as_str().unwrap_or("").to_string(),
                        case: vec![f["case"].as_str().unwrap_or("").to_string()],
                        message: f["message"].as_str().unwrap_or("").to_string(),
                        replay: json!({"kind":"rerun","configuration":name}),
                    });
                }
                let mut part = v.clone();
                part.as_object_mut().unwrap().remove("findings");
                part.as_object_mut().unwrap().insert("configuration".into(), json!(name));
                out.push_part(part);
            }
            Err(m) if m.starts_with("MACHINERY") => {
                if name == "miri" {
                    // Miri unavailable: reduced coverage, not a verdict
                    out.assume(&format!("REDUCED COVERAGE: Miri run not available: {}", m.chars().take(300).collect::<String>()));
                    out.push_part(json!({"configuration":"miri","skipped":true}));
                } else {
                    println!("MACHINERY ERROR: {m}");
                    std::process::exit(2);
                }
            }
            Err(m) => {
                // the worker was killed (abort, stack overflow, UB report): attributed to the configuration
                out.findings.push(Finding {
                    system: format!("c04w[{name}]"),
                    clause: if m.contains("Undefined Behavior") { "undefined-behaviour".into() } else { "abort".into() },
                    case: vec![name.to_string()],
                    message: m,
                    replay: json!({"kind":"rerun","configuration":name}),
                });
            }
        }
    }
    // the parser built under each of its four feature sets (fixed-size buffers under `core`): panics only -
    // whether the builds agree with the model and with each other is C20's business
    for (name, feats) in vchecks::parsecfg::CONFIGS {
        match vchecks::parsecfg::build_and_run(name, feats, if ctx.quick() { 3 } else { 4 }, 300.0) {
            Ok((v, digests)) => {
                let _ = std::fs::remove_file(&digests);
                let n = v["transitions"].as_u64().unwrap_or(0) + v["sweep_inputs"].as_u64().unwrap_or(0);
                evals += n;
                distinct += n;
                for viol in v["violations"].as_array().cloned().unwrap_or_default() {
                    let msg = viol["message"].as_str().unwrap_or("").to_string();
                    if msg.contains("panic") {
                        out.findings.push(Finding {
                            system: format!("Parser[{name}]::advance"),
                            clause: "panic".into(),
                            case: viol["labels"].as_array().map(|a| a.iter().map(|x| x.as_str().unwrap_or("").to_string()).collect()).unwrap_or_default(),
                            message: msg,
                            replay: json!({"kind":"parsecfg","config":name}),
                        });
                    }
                }
                out.push_part(json!({"configuration": format!("anstyle-parse features [{feats}]"), "bfs_transitions": v["transitions"], "boundary_sweep_inputs": v["sweep_inputs"], "depth": v["depth_completed"]}));
            }
            Err(m) if m.contains("gave no result") => out.findings.push(Finding {
                system: format!("Parser[{name}]::advance"),
                clause: "abort".into(),
                case: vec![name.to_string()],
                message: m,
                replay: json!({"kind":"parsecfg","config":name}),
            }),
            Err(m) => {
                println!("MACHINERY ERROR: {m}");
                std::process::exit(2);
            }
        }
    }
    out.set("evaluations", json!(evals));
    out.set("distinct_nontrivial", json!(distinct));
    out.set("rule", json!("evaluations = inputs fed to entry points (each input goes through several entry points and chunkings), summed over build configurations; every input is distinct within its block by construction"));
    out.set("exhaustive", json!(true));
    out.push_sample(json!({"bytes":"all 65,536 two-byte strings over all 256 byte values through Parser, strip_bytes/StripBytes, WinconBytes, StripStream"}));
    out.push_sample(json!({"text":"#aé", "entry":"anstyle_git::parse (all strings <= 3 over a 43-symbol Unicode alphabet)"}));
    out.assume("panics are caught per case; an abort of the worker is attributed to the build configuration, not to a single input");
    out.assume("Miri executes concrete enumerated inputs (no solver); its space is all byte strings <= 2 over 24 bytes, all text strings <= 2 over 16 symbols and limit-reaching macro inputs");
    out
}

fn replay(v: &Value) -> Result<(), String> {
    if v["kind"] == "parsecfg" {
        let name = v["config"].as_str().unwrap_or("none");
        let feats = vchecks::parsecfg::CONFIGS.iter().find(|c| c.0 == name).map(|c| c.1).unwrap_or("");
        let (r, digests) = vchecks::parsecfg::build_and_run(name, feats, 3, 300.0)?;
        let _ = std::fs::remove_file(&digests);
        return match r["violations"].as_array().and_then(|a| a.iter().find(|x| x["message"].as_str().map_or(false, |m| m.contains("panic")))) {
            Some(f) => Err(format!("[{name}] {}", f["message"].as_str().unwrap_or(""))),
            None => Ok(()),
        };
    }
    let name = v["configuration"].as_str().unwrap_or("verif");
    let r = if name == "miri" { run_miri() } else { run_profile(name, "quick") }?;
    match r["findings"].as_array().and_then(|a| a.first()) {
        Some(f) => Err(format!("{}: {} on {}", f["entry"], f["message"], f["case"])),
        None => Ok(()),
    }
}

fn main() {
    run_check("C04", "exploration", main_check, replay);
}
