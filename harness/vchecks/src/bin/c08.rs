//! C08 - AutoStream modes: `never` strips, `always_ansi` (and `always` off Windows) forwards unchanged.
//!
//! E1 product BFS.  `AutoStream` is not `Clone`, so a search state keeps the
//! operation history and every transition rebuilds the stream by replay.  The
//! dedupe key is the `Debug` rendering of an `AutoStream<Vec<u8>>` that went
//! through the same history, with the delivered bytes cut out: (mode, strip
//! state).  Delivered bytes are an observation, not part of the state, so the
//! search closes.  For writers without `Debug` (`Box<dyn Write>`) and `File`
//! the key comes from the `Vec<u8>` twin run over the same history.
//!
//! Per transition (one write-family call):
//!   * the call succeeds (the writers used here never fail or short-write),
//!   * `write`/`write_vectored` report n <= the bytes offered; the first n are "consumed",
//!   * bytes appended to the inner writer: Never -> what M-STRIP allows for the
//!     consumed bytes, and byte-identical to a real `StripStream` over the same
//!     history; AlwaysAnsi/Always -> the consumed bytes verbatim,
//!   * `flush` delivers nothing,
//!   * `current_choice()` names the mode in force,
//!   * `into_inner()` hands back a writer holding everything delivered so far.
//! Sequential part: `anstream::_macros::to_adapted_string` over all strings of
//! <= n chunk tokens x the four global choices.

use anstream::stream::{AsLockedWrite, RawStream};
use anstream::{AutoStream, ColorChoice, StripStream};
use serde_json::json;
use std::io::{IoSlice, Read, Seek, Write};
use std::sync::atomic::{AtomicU64, Ordering};
use std::sync::{Arc, Mutex};
use vexplore::bfs::{self, Limits, System};
use vexplore::evidence::*;
use vexplore::util::*;
use vmodel::strip::StripModel;

// ---------------------------------------------------------------- operations

#[derive(Clone, Debug, PartialEq, Eq, Hash)]
enum Op {
    Write(Vec<u8>),
    WriteAll(Vec<u8>),
    /// `write_vectored` with 0, 2 or 3 slices
    Vectored(Vec<Vec<u8>>),
    /// `write!(s, "{}{}", a, b)`
    Fmt2(String, String),
    /// `write!(s, "\x1b[{}m{}\n", a, b)`: literal pieces of the format string between the arguments
    FmtLit(String, String),
    /// `write!(s, "<literal>")` with no arguments (`Arguments::as_str()` is `Some`): index into ONLY_LITERALS
    OnlyLit(usize),
    Flush,
}

/// literal-only format strings: every chunk token that is valid UTF-8
const ONLY_LITERALS: [&str; 13] = ["a", "\x1b", "[", "1m", "\x1b[1m", "\n", "", "é", "\x1b]", "0;t", "\x07", "ab\x1b[0mcd\n", "\x1b[38;5;1mX"];

fn write_only_literal<S: Write>(s: &mut S, i: usize) -> std::io::Result<()> {
    match i {
        0 => write!(s, "a"),
        1 => write!(s, "\x1b"),
        2 => write!(s, "["),
        3 => write!(s, "1m"),
        4 => write!(s, "\x1b[1m"),
        5 => write!(s, "\n"),
        6 => write!(s, ""),
        7 => write!(s, "é"),
        8 => write!(s, "\x1b]"),
        9 => write!(s, "0;t"),
        10 => write!(s, "\x07"),
        11 => write!(s, "ab\x1b[0mcd\n"),
        _ => write!(s, "\x1b[38;5;1mX"),
    }
}

impl Op {
    fn label(&self) -> String {
        match self {
            Op::Write(c) => format!("write:{}", hex(c)),
            Op::WriteAll(c) => format!("write_all:{}", hex(c)),
            Op::Vectored(v) => format!("write_vectored:{}", v.iter().map(|c| hex(c)).collect::<Vec<_>>().join("|")),
            Op::Fmt2(a, b) => format!("write_fmt:{}|{}", hex(a.as_bytes()), hex(b.as_bytes())),
            Op::FmtLit(a, b) => format!("write_fmt_lit:{}|{}", hex(a.as_bytes()), hex(b.as_bytes())),
            Op::OnlyLit(i) => format!("write_fmt_only_literal:{i}"),
            Op::Flush => "flush".to_string(),
        }
    }
    fn parse(l: &str) -> Result<Op, String> {
        if l == "flush" {
            return Ok(Op::Flush);
        }
        let (k, rest) = l.split_once(':').ok_or_else(|| format!("bad op label {l}"))?;
        let two = |r: &str| -> Result<(Vec<u8>, Vec<u8>), String> {
            let (a, b) = r.split_once('|').ok_or_else(|| format!("bad op label {l}"))?;
            Ok((unhex(a), unhex(b)))
        };
        match k {
            "write_fmt_only_literal" => Ok(Op::OnlyLit(rest.parse().map_err(|_| format!("bad op label {l}"))?)),
            "write" => Ok(Op::Write(unhex(rest))),
            "write_all" => Ok(Op::WriteAll(unhex(rest))),
            "write_vectored" if rest.is_empty() => Ok(Op::Vectored(vec![])),
            "write_vectored" => Ok(Op::Vectored(rest.split('|').map(unhex).collect())),
            "write_fmt" | "write_fmt_lit" => {
                let (a, b) = two(rest)?;
                let (a, b) = (String::from_utf8(a).map_err(|e| e.to_string())?, String::from_utf8(b).map_err(|e| e.to_string())?);
                Ok(if k == "write_fmt" { Op::Fmt2(a, b) } else { Op::FmtLit(a, b) })
            }
            _ => Err(format!("bad op label {l}")),
        }
    }
    /// every byte the call offers, in order
    fn offered(&self) -> Vec<u8> {
        match self {
            Op::Write(c) | Op::WriteAll(c) => c.clone(),
            Op::Vectored(v) => v.concat(),
            Op::Fmt2(a, b) => [a.as_bytes(), b.as_bytes()].concat(),
            Op::FmtLit(a, b) => format!("\x1b[{a}m{b}\n").into_bytes(),
            Op::OnlyLit(i) => ONLY_LITERALS[(*i).min(ONLY_LITERALS.len() - 1)].as_bytes().to_vec(),
            Op::Flush => vec![],
        }
    }
}

#[derive(Clone, Debug, PartialEq, Eq)]
enum Ret {
    N(usize),
    Unit,
}

fn apply<S: Write>(s: &mut S, op: &Op) -> Result<Ret, String> {
    match op {
        Op::Write(c) => s.write(c).map(Ret::N),
        Op::WriteAll(c) => s.write_all(c).map(|_| Ret::Unit),
        Op::Vectored(v) => {
            let slices: Vec<IoSlice<'_>> = v.iter().map(|c| IoSlice::new(c)).collect();
            s.write_vectored(&slices).map(Ret::N)
        }
        Op::Fmt2(a, b) => write!(s, "{}{}", a, b).map(|_| Ret::Unit),
        Op::FmtLit(a, b) => write!(s, "\x1b[{}m{}\n", a, b).map(|_| Ret::Unit),
        Op::OnlyLit(i) => write_only_literal(s, *i).map(|_| Ret::Unit),
        Op::Flush => s.flush().map(|_| Ret::Unit),
    }
    .map_err(|e| format!("{:?}: {e}", e.kind()))
}

fn chunk_tokens(basic: bool) -> Vec<Vec<u8>> {
    let mut v: Vec<Vec<u8>> = vec![
        b"a".to_vec(),
        vec![0xc3],
        vec![0xa9],
        vec![0x1b],
        b"[".to_vec(),
        b"1m".to_vec(),
        b"\x1b[1m".to_vec(),
        b"\n".to_vec(),
        vec![],
    ];
    if !basic {
        v.extend([
            "é".as_bytes().to_vec(),
            vec![0xe4],
            vec![0xb8, 0x96],
            b"\x1b]".to_vec(),
            b"0;t".to_vec(),
            vec![0x07],
            b"ab\x1b[0mcd\n".to_vec(),
            b"\x1b[38;5;1mX".to_vec(),
        ]);
    }
    v
}

fn op_tokens(quick: bool) -> Vec<Op> {
    let chunks = chunk_tokens(false);
    let mut strs: Vec<String> = chunks.iter().filter_map(|c| String::from_utf8(c.clone()).ok()).collect();
    if !strs.iter().any(|s| s == "é") {
        strs.push("é".to_string());
    }
    let mut v = vec![];
    for c in &chunks {
        v.push(Op::Write(c.clone()));
    }
    for c in &chunks {
        v.push(Op::WriteAll(c.clone()));
    }
    v.push(Op::Vectored(vec![]));
    for a in &chunks {
        for b in &chunks {
            v.push(Op::Vectored(vec![a.clone(), b.clone()]));
        }
    }
    for a in &strs {
        for b in &strs {
            v.push(Op::Fmt2(a.clone(), b.clone()));
        }
    }
    for i in 0..ONLY_LITERALS.len() {
        v.push(Op::OnlyLit(i));
    }
    v.push(Op::Flush);
    if !quick {
        // three slices over the full chunk set, literal format pieces
        for a in &chunks {
            for b in &chunks {
                for c in &chunks {
                    v.push(Op::Vectored(vec![a.clone(), b.clone(), c.clone()]));
                }
            }
        }
        for a in &strs {
            for b in &strs {
                v.push(Op::FmtLit(a.clone(), b.clone()));
            }
        }
    }
    v
}

// ---------------------------------------------------------------- writers

const MARK: &[u8] = b"<<returned-writer-marker>>";
static FILE_SEQ: AtomicU64 = AtomicU64::new(0);

fn tmp_dir() -> std::path::PathBuf {
    let root = std::env::var("VERIF_BUILD_DIR").unwrap_or_else(|_| "/verif/.build".to_string());
    std::path::PathBuf::from(root).join("tmp").join(format!("c08-{}", std::process::id()))
}

/// `Write` over a buffer the harness can look at while the stream is alive.
struct SharedW(Arc<Mutex<Vec<u8>>>, Arc<AtomicU64>);
impl Write for SharedW {
    fn write(&mut self, buf: &[u8]) -> std::io::Result<usize> {
        self.0.lock().unwrap().extend_from_slice(buf);
        Ok(buf.len())
    }
    fn flush(&mut self) -> std::io::Result<()> {
        self.1.fetch_add(1, Ordering::Relaxed);
        Ok(())
    }
}

enum Probe {
    None,
    Shared(Arc<Mutex<Vec<u8>>>, Arc<AtomicU64>),
    Path(std::path::PathBuf),
}

impl Probe {
    /// bytes delivered so far, read behind the stream's back (None if the writer cannot be observed live)
    fn peek(&self) -> Option<Vec<u8>> {
        match self {
            Probe::None => None,
            Probe::Shared(a, _) => Some(a.lock().unwrap().clone()),
            Probe::Path(p) => std::fs::read(p).ok(),
        }
    }
    /// how many flush calls reached the inner writer (None if not observable)
    fn flushes(&self) -> Option<u64> {
        match self {
            Probe::Shared(_, f) => Some(f.load(Ordering::Relaxed)),
            _ => None,
        }
    }
}

trait Sink: RawStream + AsLockedWrite + Sized {
    const NAME: &'static str;
    fn make() -> Result<(Self, Probe), String>;
    /// what the writer handed back by `into_inner` holds
    fn finish(self, probe: &Probe) -> Result<Vec<u8>, String>;
    fn key(_s: &AutoStream<Self>) -> Option<String> {
        None
    }
}

impl Sink for Vec<u8> {
    const NAME: &'static str = "Vec<u8>";
    fn make() -> Result<(Self, Probe), String> {
        Ok((Vec::new(), Probe::None))
    }
    fn finish(self, _p: &Probe) -> Result<Vec<u8>, String> {
        Ok(self)
    }
    fn key(s: &AutoStream<Self>) -> Option<String> {
        Some(cut_delivered(&format!("{s:?}")))
    }
}

impl Sink for Box<dyn Write> {
    const NAME: &'static str = "Box<dyn Write>";
    fn make() -> Result<(Self, Probe), String> {
        let a = Arc::new(Mutex::new(Vec::new()));
        let f = Arc::new(AtomicU64::new(0));
        Ok((Box::new(SharedW(a.clone(), f.clone())), Probe::Shared(a, f)))
    }
    fn finish(mut self, p: &Probe) -> Result<Vec<u8>, String> {
        // the returned box must be the writer that received the bytes: a marker written through it lands behind them
        self.write_all(MARK).map_err(|e| e.to_string())?;
        let all = p.peek().unwrap();
        match all.strip_suffix(MARK) {
            Some(x) => Ok(x.to_vec()),
            None => Err("into_inner returned a writer that is not the one the bytes were delivered to".into()),
        }
    }
}

impl Sink for std::fs::File {
    const NAME: &'static str = "File";
    fn make() -> Result<(Self, Probe), String> {
        let dir = tmp_dir();
        std::fs::create_dir_all(&dir).map_err(|e| format!("MACHINERY: cannot create {}: {e}", dir.display()))?;
        let p = dir.join(format!("f{}", FILE_SEQ.fetch_add(1, Ordering::Relaxed)));
        let f = std::fs::OpenOptions::new()
            .read(true)
            .write(true)
            .create(true)
            .truncate(true)
            .open(&p)
            .map_err(|e| format!("MACHINERY: cannot create {}: {e}", p.display()))?;
        Ok((f, Probe::Path(p)))
    }
    fn finish(mut self, p: &Probe) -> Result<Vec<u8>, String> {
        let mut v = vec![];
        let r = (|| {
            self.flush()?;
            self.seek(std::io::SeekFrom::Start(0))?;
            self.read_to_end(&mut v)
        })();
        if let Probe::Path(p) = p {
            let _ = std::fs::remove_file(p);
        }
        r.map_err(|e| format!("reading the returned File back: {e}"))?;
        Ok(v)
    }
}

/// Remove the inner writer's contents (`[1, 2, 3]`) from the Debug text of an `AutoStream<Vec<u8>>`.
fn cut_delivered(dbg: &str) -> String {
    if let Some(start) = dbg.find('[') {
        if let Some(len) = dbg[start..].find(']') {
            let inside = &dbg[start + 1..start + len];
            if inside.chars().all(|c| c.is_ascii_digit() || c == ',' || c == ' ') {
                return format!("{}<delivered>{}", &dbg[..start], &dbg[start + len + 1..]);
            }
        }
    }
    // unknown rendering: keep everything (the search then cannot close; reported as not a fixpoint)
    dbg.to_string()
}

// ---------------------------------------------------------------- constructors / modes

#[derive(Clone, Copy, Debug, PartialEq, Eq)]
enum Ctor {
    New(ColorChoice),
    Never,
    Always,
    AlwaysAnsi,
}

const CTORS: [Ctor; 7] = [
    Ctor::New(ColorChoice::Auto),
    Ctor::New(ColorChoice::AlwaysAnsi),
    Ctor::New(ColorChoice::Always),
    Ctor::New(ColorChoice::Never),
    Ctor::Never,
    Ctor::Always,
    Ctor::AlwaysAnsi,
];

#[derive(Clone, Copy, Debug, PartialEq, Eq)]
enum Mode {
    Strip,
    Pass,
}

impl Ctor {
    fn label(&self) -> String {
        match self {
            Ctor::New(c) => format!("new({c:?})"),
            Ctor::Never => "never".into(),
            Ctor::Always => "always".into(),
            Ctor::AlwaysAnsi => "always_ansi".into(),
        }
    }
    fn parse(s: &str) -> Option<Ctor> {
        CTORS.iter().copied().find(|c| c.label() == s)
    }
    fn build<W: Sink>(&self, w: W) -> AutoStream<W> {
        match self {
            Ctor::New(c) => AutoStream::new(w, *c),
            Ctor::Never => AutoStream::never(w),
            Ctor::Always => AutoStream::always(w),
            Ctor::AlwaysAnsi => AutoStream::always_ansi(w),
        }
    }
    /// Auto: the writers here are never terminals and the environment is cleared, so it must act as Never.
    fn mode(&self) -> Mode {
        match self {
            Ctor::New(ColorChoice::Auto) | Ctor::New(ColorChoice::Never) | Ctor::Never => Mode::Strip,
            _ => Mode::Pass,
        }
    }
    fn choice_ok(&self, got: ColorChoice) -> bool {
        match self {
            Ctor::New(ColorChoice::Auto) | Ctor::New(ColorChoice::Never) | Ctor::Never => got == ColorChoice::Never,
            Ctor::New(ColorChoice::AlwaysAnsi) | Ctor::AlwaysAnsi => got == ColorChoice::AlwaysAnsi,
            // off Windows `always` is in force as plain ANSI pass-through; either spelling names that mode
            Ctor::New(ColorChoice::Always) | Ctor::Always => matches!(got, ColorChoice::AlwaysAnsi | ColorChoice::Always),
        }
    }
}

// ---------------------------------------------------------------- one run of a history

struct OpObs {
    ret: Result<Ret, String>,
    choice: ColorChoice,
    live: Option<Vec<u8>>,
    flushes: Option<u64>,
}

struct RunObs {
    choice0: ColorChoice,
    ops: Vec<OpObs>,
    /// contents of the writer returned by into_inner
    total: Vec<u8>,
    key: Option<String>,
}

fn run_auto<W: Sink>(ctor: Ctor, ops: &[Op]) -> Result<RunObs, String> {
    let (w, probe) = W::make()?;
    let mut s = ctor.build(w);
    let choice0 = s.current_choice();
    let mut obs = vec![];
    for op in ops {
        let ret = apply(&mut s, op);
        obs.push(OpObs { ret, choice: s.current_choice(), live: probe.peek(), flushes: probe.flushes() });
    }
    let key = W::key(&s);
    let total = s.into_inner().finish(&probe)?;
    Ok(RunObs { choice0, ops: obs, total, key })
}

/// the same history through a real `StripStream` over the same kind of writer
fn run_strip<W: Sink>(ops: &[Op]) -> Result<(Vec<Result<Ret, String>>, Vec<u8>), String> {
    let (w, probe) = W::make()?;
    let mut s = StripStream::new(w);
    let rets = ops.iter().map(|op| apply(&mut s, op)).collect();
    let total = s.into_inner().finish(&probe)?;
    Ok((rets, total))
}

fn guarded<T>(what: &str, f: impl FnOnce() -> Result<T, String>) -> Result<T, String> {
    match std::panic::catch_unwind(std::panic::AssertUnwindSafe(f)) {
        Ok(r) => r,
        Err(p) => {
            let m = p.downcast_ref::<String>().cloned().or_else(|| p.downcast_ref::<&str>().map(|s| s.to_string())).unwrap_or_default();
            Err(format!("panic in {what}: {m}"))
        }
    }
}

// ---------------------------------------------------------------- product system

#[derive(Clone, Debug)]
struct St {
    hist: Vec<Op>,
    key: String,
    model: StripModel,
    /// everything delivered along `hist` (validated step by step); an observation, not part of the state
    delivered: Vec<u8>,
}
impl PartialEq for St {
    fn eq(&self, o: &Self) -> bool {
        self.key == o.key && self.model == o.model
    }
}
impl Eq for St {}

struct AutoSys<W: Sink> {
    ctor: Ctor,
    tokens: Vec<Op>,
    _w: std::marker::PhantomData<fn() -> W>,
}

fn sys_name<W: Sink>(ctor: Ctor) -> String {
    format!("AutoStream<{}>::{}", W::NAME, ctor.label())
}

fn init_state<W: Sink>(ctor: Ctor) -> Result<St, String> {
    let obs = guarded("constructor", || run_auto::<W>(ctor, &[]))?;
    if !ctor.choice_ok(obs.choice0) {
        return Err(format!("current_choice() of a fresh stream is {:?}, not the mode in force", obs.choice0));
    }
    if !obs.total.is_empty() {
        return Err(format!("into_inner() of a fresh stream returned {} byte(s) {}", obs.total.len(), show(&obs.total)));
    }
    let key = match obs.key {
        Some(k) => k,
        None => guarded("constructor", || run_auto::<Vec<u8>>(ctor, &[]))?.key.unwrap_or_default(),
    };
    Ok(St { hist: vec![], key, model: StripModel::default(), delivered: vec![] })
}

fn advance<W: Sink>(ctor: Ctor, s: &St, op: &Op) -> Result<(St, u64), String> {
    let mut ops = s.hist.clone();
    ops.push(op.clone());
    let obs = guarded("write-family call", || run_auto::<W>(ctor, &ops))?;
    let key = match &obs.key {
        Some(k) => k.clone(),
        None => guarded("write-family call", || run_auto::<Vec<u8>>(ctor, &ops))?.key.unwrap_or_default(),
    };
    let n = ops.len();
    let last = &obs.ops[n - 1];
    // (1) the call itself
    let offered = op.offered();
    let ret = last.ret.clone().map_err(|e| format!("{} returned an error over a writer that never fails: {e}", op.label()))?;
    let consumed: &[u8] = match (&ret, op) {
        (Ret::N(k), _) => {
            if *k > offered.len() {
                return Err(format!("{} returned count {k}, more than the {} byte(s) offered", op.label(), offered.len()));
            }
            &offered[..*k]
        }
        (Ret::Unit, Op::Flush) => &[],
        (Ret::Unit, _) => &offered,
    };
    // (2) the mode reported
    if !ctor.choice_ok(obs.choice0) {
        return Err(format!("current_choice() reports {:?} for a fresh stream, not the mode in force", obs.choice0));
    }
    if let Some(o) = obs.ops.iter().find(|o| !ctor.choice_ok(o.choice)) {
        return Err(format!("current_choice() reports {:?} after {}, not the mode in force", o.choice, op.label()));
    }
    // (3) what reached the inner writer
    if n >= 2 {
        if let Some(l) = &obs.ops[n - 2].live {
            if *l != s.delivered {
                return Err(format!("replaying the history delivered {} this time, {} before (not a function of the calls)", show(l), show(&s.delivered)));
            }
        }
    }
    if let Some(l) = &last.live {
        if *l != obs.total {
            return Err(format!(
                "into_inner() did not return all bytes delivered so far: writer held {} before, returned writer holds {}",
                show(l),
                show(&obs.total)
            ));
        }
    }
    let Some(delta) = obs.total.strip_prefix(s.delivered.as_slice()) else {
        return Err(format!(
            "into_inner() does not return the bytes delivered so far: earlier calls delivered {}, now the writer holds {}",
            show(&s.delivered),
            show(&obs.total)
        ));
    };
    let mut model = s.model;
    match ctor.mode() {
        Mode::Pass => {
            if delta != consumed {
                return Err(format!(
                    "pass-through mode did not forward the bytes unchanged: {} consumed {}, inner writer received {}",
                    op.label(),
                    show(consumed),
                    show(delta)
                ));
            }
            // keep the reference state in step (unused for the verdict in this mode)
            let _ = model.expected_exact(consumed);
        }
        Mode::Strip => {
            model.check_output(consumed, delta).map_err(|m| {
                format!("strip mode delivered {} for consumed bytes {} of {}: {m}", show(delta), show(consumed), op.label())
            })?;
            // "exactly what the strip stream would": same history through a real StripStream over the same writer kind
            let (rets, total) = guarded("StripStream", || run_strip::<W>(&ops))?;
            if total != obs.total {
                return Err(format!(
                    "differs from the strip stream: StripStream delivered {}, the Never stream {}",
                    show(&total),
                    show(&obs.total)
                ));
            }
            if rets[n - 1] != last.ret {
                return Err(format!("differs from the strip stream: StripStream returned {:?}, the Never stream {:?}", rets[n - 1], last.ret));
            }
        }
    }
    if *op == Op::Flush && !delta.is_empty() {
        return Err(format!("flush delivered {}", show(delta)));
    }
    if let (Op::Flush, Some(after)) = (op, last.flushes) {
        let before = if n >= 2 { obs.ops[n - 2].flushes.unwrap_or(0) } else { 0 };
        if after <= before {
            return Err("flush was not forwarded to the inner writer".to_string());
        }
    }
    let digest = hash_of(&(delta, format!("{ret:?}")));
    let delivered = obs.total;
    Ok((St { hist: ops, key, model, delivered }, digest))
}

impl<W: Sink> System for AutoSys<W> {
    type State = St;
    fn name(&self) -> String {
        sys_name::<W>(self.ctor)
    }
    fn alphabet_len(&self) -> usize {
        self.tokens.len()
    }
    fn token_label(&self, t: usize) -> String {
        self.tokens[t].label()
    }
    fn init(&self) -> Vec<St> {
        match init_state::<W>(self.ctor) {
            Ok(s) => vec![s],
            Err(_) => vec![], // reported by the caller
        }
    }
    fn key(&self, s: &St) -> u64 {
        hash_of(&(&s.key, &s.model))
    }
    fn step(&self, s: &St, t: usize) -> Result<(St, u64), String> {
        advance::<W>(self.ctor, s, &self.tokens[t])
    }
}

fn clause_of(m: &str) -> String {
    for (pat, c) in [
        ("panic in", "panic"),
        ("returned an error", "unexpected-error"),
        ("returned count", "count-exceeds-buffer"),
        ("current_choice()", "reported-mode-not-in-force"),
        ("not a function of the calls", "history-not-reproducible"),
        ("into_inner()", "into-inner-incomplete"),
        ("into_inner returned a writer", "into-inner-incomplete"),
        ("did not forward the bytes unchanged", "pass-through-altered-bytes"),
        ("differs from the strip stream", "differs-from-strip-stream"),
        ("strip mode delivered", "strip-mode-wrong-bytes"),
        ("flush delivered", "flush-delivered-bytes"),
        ("flush was not forwarded", "flush-not-forwarded"),
        ("to_adapted_string", "adapted-string-wrong"),
    ] {
        if m.contains(pat) {
            return c.to_string();
        }
    }
    "other".to_string()
}

// ---------------------------------------------------------------- to_adapted_string

const GLOBALS: [ColorChoice; 4] = [ColorChoice::Auto, ColorChoice::AlwaysAnsi, ColorChoice::Always, ColorChoice::Never];

/// a pty slave as `File` (None if the sandbox has no pty); the master is kept open alongside
fn open_pty() -> Option<(std::fs::File, std::fs::File)> {
    use std::os::fd::{AsRawFd, FromRawFd};
    let (mut m, mut s): (libc::c_int, libc::c_int) = (-1, -1);
    let r = unsafe { libc::openpty(&mut m, &mut s, std::ptr::null_mut(), std::ptr::null_mut(), std::ptr::null_mut()) };
    if r != 0 || m < 0 || s < 0 {
        return None;
    }
    let (m, s) = unsafe { (std::fs::File::from_raw_fd(m), std::fs::File::from_raw_fd(s)) };
    if unsafe { libc::isatty(s.as_raw_fd()) } != 1 {
        return None;
    }
    Some((m, s))
}

fn adapted_case(global: ColorChoice, stream_kind: &str, input: &str) -> Result<String, String> {
    global.write_global();
    let term_before = std::env::var_os("TERM");
    if stream_kind == "pty" {
        std::env::set_var("TERM", "xterm-256color");
    }
    let r = guarded("to_adapted_string", || match stream_kind {
        "pty" => {
            let (_m, s) = open_pty().ok_or("MACHINERY: no pty")?;
            Ok(anstream::_macros::to_adapted_string(&input, &s))
        }
        "vec" => Ok(anstream::_macros::to_adapted_string(&input, &Vec::<u8>::new())),
        "file" => {
            let (f, probe) = <std::fs::File as Sink>::make()?;
            let r = anstream::_macros::to_adapted_string(&input, &f);
            drop(f);
            if let Probe::Path(p) = probe {
                let _ = std::fs::remove_file(p);
            }
            Ok(r)
        }
        k => Err(format!("unknown stream kind {k}")),
    });
    ColorChoice::Auto.write_global();
    if stream_kind == "pty" {
        match term_before {
            Some(t) => std::env::set_var("TERM", t),
            None => std::env::remove_var("TERM"),
        }
    }
    let got = r?;
    // the target stream decides: a terminal with TERM set and global Auto gets colour, non-terminals (cleared environment) do not
    let model_env = vmodel::env::Env { term: Some("xterm-256color".into()), ..Default::default() };
    let model_global = match global {
        ColorChoice::Auto => vmodel::env::Choice::Auto,
        ColorChoice::AlwaysAnsi => vmodel::env::Choice::AlwaysAnsi,
        ColorChoice::Always => vmodel::env::Choice::Always,
        ColorChoice::Never => vmodel::env::Choice::Never,
    };
    let colour_on = model_env.decide(model_global, stream_kind == "pty", cfg!(windows)).0.colour_on();
    let expected: Vec<u8> = if colour_on { input.as_bytes().to_vec() } else { StripModel::default().expected_exact(input.as_bytes()) };
    if got.as_bytes() != expected {
        return Err(format!(
            "to_adapted_string with global choice {global:?} for target stream kind {stream_kind} gave {}, expected {}",
            show(got.as_bytes()),
            show(&expected)
        ));
    }
    Ok(got)
}

// ---------------------------------------------------------------- explicit constructors ignore environment and global choice

const HOSTILE_ENVS: [(&str, &str); 4] = [("", ""), ("CLICOLOR_FORCE", "1"), ("NO_COLOR", "1"), ("CLICOLOR", "0")];

/// one-shot: under the given (hostile) environment and global choice an explicitly chosen mode must still be the one in force
fn explicit_case<W: Sink>(ctor: Ctor, env: (&str, &str), global: ColorChoice) -> Result<(), String> {
    clear_env();
    if !env.0.is_empty() {
        std::env::set_var(env.0, env.1);
    }
    global.write_global();
    let input = b"a\x1b[1mb\xc3\xa9\x1b[0m\n".to_vec();
    let r = guarded("constructor", || run_auto::<W>(ctor, &[Op::WriteAll(input.clone())]));
    clear_env();
    let obs = r?;
    let ctx = format!("with {}={:?} and global choice {global:?}", env.0, env.1);
    if !ctor.choice_ok(obs.choice0) {
        return Err(format!("current_choice() of a stream built by {} is {:?} {ctx}", ctor.label(), obs.choice0));
    }
    let want: Vec<u8> = match ctor.mode() {
        Mode::Pass => input.clone(),
        Mode::Strip => StripModel::default().expected_exact(&input),
    };
    if obs.total != want {
        return Err(format!("{} {ctx} delivered {} for {}, expected {} (explicit mode must not depend on the environment)", ctor.label(), show(&obs.total), show(&input), show(&want)));
    }
    Ok(())
}

// ---------------------------------------------------------------- driver

fn clear_env() {
    for v in ["NO_COLOR", "CLICOLOR", "CLICOLOR_FORCE", "CI"] {
        std::env::remove_var(v);
    }
    ColorChoice::Auto.write_global();
}

fn explore_kind<W: Sink>(out: &mut Outcome, tokens: &[Op], all_fix: &mut bool) {
    for ctor in CTORS {
        let sys = AutoSys::<W> { ctor, tokens: tokens.to_vec(), _w: Default::default() };
        if let Err(m) = init_state::<W>(ctor) {
            out.findings.push(Finding {
                system: sys.name(),
                clause: clause_of(&m),
                case: vec!["fresh".into()],
                message: m,
                replay: json!({"kind":"init","system":sys.name()}),
            });
            *all_fix = false;
            continue;
        }
        let rep = bfs::explore(&sys, &Limits { max_violations: 25, ..Limits::depth(24) });
        out.add_bfs(&rep);
        out.findings.extend(bfs_findings(&rep, clause_of));
        *all_fix &= rep.fixpoint();
    }
}

// ------------------------------------------------------------------ real stdio
/// The print macros, `anstream::stdout()/stderr()` and the `lock()`ed variants over the process's
/// real stdout/stderr, redirected to files (vchecks::stdio_sys).  Single-threaded.
fn stdio_part(out: &mut Outcome) -> u64 {
    use vchecks::stdio_sys::capture_stdio;
    let strip = |b: &[u8]| StripModel::default().expected_exact(b);
    let mut cases = 0u64;
    let mut report = |out: &mut Outcome, name: &str, env: &str, what: &str, got: &[u8], exp: &[u8]| {
        if got != exp && out.findings.len() < 300 {
            out.findings.push(Finding {
                system: format!("real stdio/{name}"),
                clause: "stdio-output-differs".into(),
                case: vec![env.to_string(), what.to_string()],
                message: format!("{what} with {env}: the redirected stream received {} but {} was expected", show(got), show(exp)),
                replay: json!({"kind":"stdio"}),
            });
        }
    };
    for (env, force) in [("a cleared environment", false), ("CLICOLOR_FORCE=1", true), ("NO_COLOR=1 CLICOLOR_FORCE=1", false)] {
        clear_env();
        match env {
            "CLICOLOR_FORCE=1" => std::env::set_var("CLICOLOR_FORCE", "1"),
            "NO_COLOR=1 CLICOLOR_FORCE=1" => {
                std::env::set_var("NO_COLOR", "1");
                std::env::set_var("CLICOLOR_FORCE", "1");
            }
            _ => {}
        }
        let conv = |b: &[u8]| if force { b.to_vec() } else { strip(b) };
        // macros
        let r = capture_stdio(|| {
            anstream::print!("{}{}", "a\x1b[1m", "b\x1b[0m");
            anstream::println!("c\x1b[3{}md", 1);
            anstream::println!();
            anstream::print!("lit\x1b[4m");
            anstream::eprint!("{}{}", "e\x1b[1m", "f");
            anstream::eprintln!("g\x1b[0mh");
            anstream::eprintln!();
        });
        cases += 7;
        match r {
            Ok((_, cap)) => {
                report(out, "print!/println!", env, "print!, println!, println!(), print!(literal)", &cap.out, &conv(b"a\x1b[1mb\x1b[0mc\x1b[31md\n\nlit\x1b[4m"));
                report(out, "eprint!/eprintln!", env, "eprint!, eprintln!, eprintln!()", &cap.err, &conv(b"e\x1b[1mfg\x1b[0mh\n\n"));
            }
            Err(m) => out.findings.push(Finding { system: "real stdio/macros".into(), clause: "panic".into(), case: vec![env.to_string()], message: m, replay: json!({"kind":"stdio"}) }),
        }
        // anstream::stdout()/stderr() and their locked forms: the strip state survives lock()
        let r = capture_stdio(|| {
            let mut s = anstream::stdout();
            s.write_all(b"x\x1b[3").unwrap();
            let mut l = s.lock();
            l.write_all(b"1my\n").unwrap();
            write!(l, "{}", "\x1b[0mz\n").unwrap();
            drop(l);
            let mut s = anstream::stderr();
            write!(s, "{}", "p\x1b]0;ti").unwrap();
            let mut l = s.lock();
            l.write_all(b"tle\x07q\n").unwrap();
            drop(l);
        });
        cases += 2;
        match r {
            Ok((_, cap)) => {
                report(out, "stdout().lock()", env, "write_all, lock(), write_all, write!", &cap.out, &conv(b"x\x1b[31my\n\x1b[0mz\n"));
                report(out, "stderr().lock()", env, "write!, lock(), write_all", &cap.err, &conv(b"p\x1b]0;title\x07q\n"));
            }
            Err(m) => out.findings.push(Finding { system: "real stdio/lock".into(), clause: "panic".into(), case: vec![env.to_string()], message: m, replay: json!({"kind":"stdio"}) }),
        }
    }
    clear_env();
    // explicit constructors over the real handles, with lock()
    let r = capture_stdio(|| {
        let mut s = AutoStream::never(std::io::stdout());
        s.write_all(b"n\x1b[3").unwrap();
        let mut l = s.lock();
        l.write_all(b"1mo\n").unwrap();
        drop(l);
        let mut s = AutoStream::always_ansi(std::io::stdout());
        s.write_all(b"A\x1b[3").unwrap();
        let mut l = s.lock();
        l.write_all(b"1mB\n").unwrap();
        drop(l);
        let mut s = StripStream::new(std::io::stderr());
        s.write_all(b"s\x1b[3").unwrap();
        let mut l = s.lock();
        write!(l, "{}", "1mt\n").unwrap();
        drop(l);
        let mut s = AutoStream::never(std::io::stderr());
        s.write_all(b"u\x1b[3").unwrap();
        let mut l = s.lock();
        l.write_all(b"1mv\n").unwrap();
        drop(l);
    });
    cases += 4;
    match r {
        Ok((_, cap)) => {
            report(out, "AutoStream::{never,always_ansi}(stdout()).lock()", "a cleared environment", "write_all, lock(), write_all", &cap.out, b"no\nA\x1b[31mB\n");
            report(out, "StripStream::new(stderr()).lock(), AutoStream::never(stderr()).lock()", "a cleared environment", "write_all, lock(), write", &cap.err, b"st\nuv\n");
        }
        Err(m) => out.findings.push(Finding { system: "real stdio/constructors".into(), clause: "panic".into(), case: vec![], message: m, replay: json!({"kind":"stdio"}) }),
    }
    clear_env();
    cases
}

fn main_check(ctx: &Ctx) -> Outcome {
    let mut out = Outcome::default();
    // the same oracles against a non-default feature set of the crate (every sequence of <= 4 fragments through the seven constructors, in a build of anstream without `auto` / `wincon`)
    match vchecks::parsecfg::build_and_run_feat("stream") {
        Ok(v) => {
            for f in v["findings"].as_array().cloned().unwrap_or_default().into_iter().take(12) {
                out.findings.push(Finding {
                    system: "anstream without its default features".into(),
                    clause: "feature-configuration".into(),
                    case: vec![f["case"].as_str().unwrap_or("").to_string()],
                    message: f["message"].as_str().unwrap_or("").chars().take(600).collect(),
                    replay: serde_json::json!({"kind":"feature-configuration","feature":"stream"}),
                });
            }
            out.push_part(serde_json::json!({"configuration":"anstream without its default features","cases":v["cases"]}));
        }
        Err(m) => {
            println!("MACHINERY ERROR: {m}");
            std::process::exit(2);
        }
    }
    let quick = ctx.quick();
    clear_env();
    // panics inside the explored calls are caught and reported as findings; keep stderr quiet
    std::panic::set_hook(Box::new(|_| {}));
    let stdio_cases = stdio_part(&mut out);
    out.push_part(json!({"system":"print macros, stdout()/stderr(), lock()ed variants over the real stdio redirected to files","cases":stdio_cases,"environments":3}));
    let tokens = op_tokens(quick);
    out.set("chunk_tokens", json!(chunk_tokens(false).iter().map(|c| hex(c)).collect::<Vec<_>>()));
    out.set("operation_tokens", json!(tokens.len()));
    out.set("constructors", json!(CTORS.iter().map(|c| c.label()).collect::<Vec<_>>()));

    let mut all_fix = true;
    explore_kind::<Vec<u8>>(&mut out, &tokens, &mut all_fix);
    explore_kind::<Box<dyn Write>>(&mut out, &tokens, &mut all_fix);
    explore_kind::<std::fs::File>(&mut out, &tokens, &mut all_fix);
    out.set("writer_kinds", json!(["Vec<u8>", "Box<dyn Write>", "File"]));
    if let Some(f) = out.findings.iter().find(|f| f.message.contains("MACHINERY:")) {
        eprintln!("MACHINERY ERROR: {}", f.message);
        std::process::exit(2);
    }

    // explicit constructors under hostile environments / global choices (sequential: process-global state)
    let mut explicit_cases = 0u64;
    for ctor in CTORS.iter().copied().filter(|c| *c != Ctor::New(ColorChoice::Auto)) {
        for env in HOSTILE_ENVS {
            for g in GLOBALS {
                for kind in ["Vec<u8>", "File"] {
                    explicit_cases += 1;
                    let r = if kind == "File" { explicit_case::<std::fs::File>(ctor, env, g) } else { explicit_case::<Vec<u8>>(ctor, env, g) };
                    if let Err(m) = r {
                        out.findings.push(Finding {
                            system: format!("AutoStream<{kind}>::{}", ctor.label()),
                            clause: if m.contains("current_choice()") { "reported-mode-not-in-force".into() } else { "explicit-mode-depends-on-environment".into() },
                            case: vec![format!("{}={:?}", env.0, env.1), format!("global={g:?}")],
                            message: m,
                            replay: json!({"kind":"explicit","writer":kind,"ctor":ctor.label(),"env":[env.0, env.1],"global":format!("{g:?}")}),
                        });
                    }
                }
            }
        }
    }
    out.push_part(json!({"system":"explicit constructors x hostile environment x global choice","cases":explicit_cases,"environments":HOSTILE_ENVS.iter().map(|(k,v)| format!("{k}={v}")).collect::<Vec<_>>() }));

    // to_adapted_string: every string of <= n valid-UTF-8 chunk tokens x the four global choices
    let strs: Vec<String> = {
        let mut v: Vec<String> = chunk_tokens(false).iter().filter(|c| !c.is_empty()).filter_map(|c| String::from_utf8(c.clone()).ok()).collect();
        if !v.iter().any(|s| s == "é") {
            v.push("é".into());
        }
        v
    };
    let n = if quick { 3 } else { 4 };
    let mut evals = 0u64;
    let mut distinct = std::collections::HashSet::new();
    let have_pty = open_pty().is_some();
    let stream_kinds: &[&str] = if have_pty { &["vec", "file", "pty"] } else { &["vec", "file"] };
    if !have_pty {
        println!("note: C08 reduced coverage: no pty, to_adapted_string not exercised with a terminal target");
    }
    let mut adapted_findings = vec![];
    for idx in strings_upto(strs.len(), n) {
        let input: String = idx.iter().map(|&i| strs[i].as_str()).collect();
        for g in GLOBALS {
            for k in stream_kinds {
                evals += 1;
                match adapted_case(g, k, &input) {
                    Ok(got) => {
                        distinct.insert(hash_of(&(got != input, got)));
                    }
                    Err(m) => {
                        if adapted_findings.len() < 50 {
                            adapted_findings.push(Finding {
                                system: "_macros::to_adapted_string".into(),
                                clause: clause_of(&m),
                                case: vec![format!("global={g:?}"), format!("stream={k}"), hex(input.as_bytes())],
                                message: m,
                                replay: json!({"kind":"adapted","global":format!("{g:?}"),"stream":k,"input":hex(input.as_bytes())}),
                            });
                        } else {
                            out.extra_violation_count += 1;
                        }
                    }
                }
            }
        }
    }
    out.findings.extend(adapted_findings);
    // re-entrant use: a value whose Display impl itself goes through the helper (a diagnostic printed from inside
    // `fmt`, a part rendered ahead with the same helper) - each level must get its own adapted text
    {
        struct Nested(&'static str, u8);
        impl std::fmt::Display for Nested {
            fn fmt(&self, f: &mut std::fmt::Formatter<'_>) -> std::fmt::Result {
                if self.1 > 0 {
                    let inner = anstream::_macros::to_adapted_string(&Nested(self.0, self.1 - 1), &Vec::<u8>::new());
                    write!(f, "<{}>{inner}", self.0)
                } else {
                    write!(f, "{}", self.0)
                }
            }
        }
        for g in GLOBALS {
            for depth in 1..=2u8 {
                g.write_global();
                let text = "a\x1b[1mb\x1b[0m";
                let r = guarded("to_adapted_string (nested)", || Ok(anstream::_macros::to_adapted_string(&Nested(text, depth), &Vec::<u8>::new())));
                ColorChoice::Auto.write_global();
                evals += 1;
                let piece = |on: bool| if on { text.to_string() } else { "ab".to_string() };
                // Vec<u8> is no terminal: only the forcing global choices keep the escapes (at every level)
                let on = matches!(g, ColorChoice::Always | ColorChoice::AlwaysAnsi);
                let mut expected = piece(on);
                for _ in 0..depth {
                    expected = format!("<{}>{expected}", piece(on));
                }
                let verdict = match r {
                    Ok(got) if got == expected => None,
                    Ok(got) => Some(format!("to_adapted_string of a value whose Display uses the helper itself (depth {depth}) gives {got:?}, expected {expected:?}")),
                    Err(m) => Some(format!("to_adapted_string of a value whose Display uses the helper itself (depth {depth}): {m}")),
                };
                if let Some(m) = verdict {
                    out.findings.push(Finding {
                        system: "_macros::to_adapted_string (re-entrant)".into(),
                        clause: clause_of(&m),
                        case: vec![format!("global={g:?}"), format!("depth={depth}")],
                        message: m,
                        replay: json!({"kind":"stdio"}),
                    });
                }
            }
        }
    }

    // Pass-through modes over a boxed writer that short-writes / fails (deviation-bounded scripts,
    // vchecks::fault_sys): every byte reported consumed must have reached the inner writer verbatim,
    // write_all / write! (with arguments and literal-only) must deliver everything or return the error.
    let mut fault_runs = 0u64;
    let mut fault_dev = 0u64;
    for mode in [vchecks::fault_sys::Mode::PassAnsi, vchecks::fault_sys::Mode::PassAlways] {
        let maxlen = if quick { 4 } else { 5 };
        let k_of = move |_len: usize| if quick { 2 } else { 3 };
        let (f, runs, dev, _) = vchecks::fault_sys::sweep(mode, maxlen, &k_of);
        out.findings.extend(f);
        fault_runs += runs;
        fault_dev += dev;
        out.push_part(json!({"system": format!("{mode:?} over a scripted Box<dyn Write> (short writes, errors)"), "max_input_tokens": maxlen, "deviation_bound": if quick { 2 } else { 3 }, "executions": runs, "executions_with_deviation": dev}));
    }
    // large inputs through every mode (strip and pass-through): sizes around the 4/8/16/64 KiB marks
    {
        let sizes: Vec<usize> = if quick { vec![1023, 8191, 8192, 8193, 20000] } else { vec![1023, 4095, 4096, 4097, 8191, 8192, 8193, 16384, 16385, 20000, 65535, 65537, 131073] };
        let k_large = move |n: usize| if n == 1023 { 1 } else { 0 };
        for mode in [vchecks::fault_sys::Mode::Strip, vchecks::fault_sys::Mode::PassAnsi, vchecks::fault_sys::Mode::PassAlways] {
            let (f, runs, dev) = vchecks::fault_sys::large_sweep(mode, &sizes, &k_large);
            out.findings.extend(f);
            fault_runs += runs;
            fault_dev += dev;
            out.push_part(json!({"system": format!("{mode:?}: large inputs over a scripted Box<dyn Write>"), "sizes": sizes, "shifts": vchecks::fault_sys::LARGE_UNIT.len(), "executions": runs, "executions_with_deviation": dev}));
        }
    }
    out.push_part(json!({"system":"_macros::to_adapted_string","strings_upto_tokens":n,"token_strings":strs.len(),"global_choices":4,"stream_kinds":stream_kinds,"evaluations":evals}));
    let _ = std::fs::remove_dir_all(tmp_dir());
    let _ = std::panic::take_hook();

    out.set("evaluations", json!(evals + explicit_cases + fault_runs));
    out.set("fault_script_executions", json!(fault_runs));
    out.set("fault_script_executions_with_deviation", json!(fault_dev));
    out.set("distinct_nontrivial", json!(distinct.len()));
    out.set("rule", json!("evaluations = to_adapted_string calls (strings of <= n chunk tokens x 4 global choices x stream kinds) + explicit-constructor cases (6 constructors x 4 environments x 4 global choices x 2 writers); distinct_nontrivial = distinct (was-changed, result) pairs; the BFS numbers are in states/transitions/parts"));
    out.set("exhaustive", json!(all_fix));
    out.set("explanation", json!("one BFS per (writer kind, constructor); state = (mode, strip state) taken from the Debug text of the Vec<u8> stream with delivered bytes removed, x reference strip state; every BFS ran until the frontier was empty iff exhaustive=true, so every interleaving of the listed calls of any length is covered over this token alphabet"));
    out.assume("the BFS writers never fail and never accept fewer bytes than offered; short writes/errors are enumerated separately: for the strip modes by C06, for the pass-through modes by the fault-script part of this check");
    out.assume("write/write_vectored may report any count <= the bytes offered; only the reported prefix must have been delivered (the statement does not promise that write_vectored takes every slice)");
    out.assume("a flush call on the stream must reach the inner writer as at least one flush (observed on the Box<dyn Write> writer only); other calls may or may not flush");
    out.assume("for streams built with always()/new(Always) off Windows current_choice() may say AlwaysAnsi or Always; for always_ansi only AlwaysAnsi; for never/Auto-over-non-terminal only Never");
    out.assume("the strip state of Box<dyn Write>/File streams is identified by the Debug text of a Vec<u8> stream fed the same history (those streams have no usable Debug)");
    out.assume("bytes >= 0x80 that do not form a well-formed character are unconstrained in strip mode (M-STRIP don't-care), but must match the real StripStream byte for byte");
    out.assume("ColorChoice::Auto is exercised over non-terminals with NO_COLOR, CLICOLOR, CLICOLOR_FORCE, CI removed and the global choice Auto; the full decision table is C09");
    out
}

fn replay(v: &serde_json::Value) -> Result<(), String> {
    if v["kind"] == "feature-configuration" || v["kind"] == "env" {
        // re-run the worker / the environment part and report its first finding
        if v["kind"] == "env" {
            return Err("environment-dependence findings are replayed by re-running the check".into());
        }
        let r = vchecks::parsecfg::build_and_run_feat(v["feature"].as_str().unwrap_or(""))?;
        return match r["findings"].as_array().and_then(|a| a.first()) {
            Some(f) => Err(format!("{}: {}", f["case"].as_str().unwrap_or(""), f["message"].as_str().unwrap_or(""))),
            None => Ok(()),
        };
    }
    clear_env();
    std::panic::set_hook(Box::new(|_| {}));
    fn run<W: Sink>(ctor: Ctor, labels: &[String]) -> Result<(), String> {
        let mut s = init_state::<W>(ctor)?;
        for l in labels {
            s = advance::<W>(ctor, &s, &Op::parse(l)?)?.0;
        }
        Ok(())
    }
    let dispatch = |system: &str, labels: &[String]| -> Result<(), String> {
        let (w, c) = system.strip_prefix("AutoStream<").and_then(|r| r.split_once(">::")).ok_or_else(|| format!("bad system {system}"))?;
        let ctor = Ctor::parse(c).ok_or_else(|| format!("bad constructor {c}"))?;
        let r = match w {
            "Vec<u8>" => run::<Vec<u8>>(ctor, labels),
            "Box<dyn Write>" => run::<Box<dyn Write>>(ctor, labels),
            "File" => run::<std::fs::File>(ctor, labels),
            _ => Err(format!("bad writer {w}")),
        };
        let _ = std::fs::remove_dir_all(tmp_dir());
        r
    };
    match v["kind"].as_str().unwrap_or("") {
        "bfs" => {
            let labels: Vec<String> = v["labels"].as_array().map(|a| a.iter().map(|x| x.as_str().unwrap_or("").to_string()).collect()).unwrap_or_default();
            dispatch(v["system"].as_str().unwrap_or(""), &labels)
        }
        "init" => dispatch(v["system"].as_str().unwrap_or(""), &[]),
        "explicit" => {
            let ctor = Ctor::parse(v["ctor"].as_str().unwrap_or("")).ok_or("bad ctor")?;
            let g = GLOBALS.iter().copied().find(|g| format!("{g:?}") == v["global"].as_str().unwrap_or("")).ok_or("bad global")?;
            let env = (v["env"][0].as_str().unwrap_or(""), v["env"][1].as_str().unwrap_or(""));
            let r = if v["writer"] == "File" { explicit_case::<std::fs::File>(ctor, env, g) } else { explicit_case::<Vec<u8>>(ctor, env, g) };
            let _ = std::fs::remove_dir_all(tmp_dir());
            r
        }
        "adapted" => {
            let g = GLOBALS.iter().copied().find(|g| format!("{g:?}") == v["global"].as_str().unwrap_or("")).ok_or("bad global")?;
            let input = String::from_utf8(unhex(v["input"].as_str().unwrap_or(""))).map_err(|e| e.to_string())?;
            let r = adapted_case(g, v["stream"].as_str().unwrap_or("vec"), &input).map(|_| ());
            let _ = std::fs::remove_dir_all(tmp_dir());
            r
        }
        "case" => vchecks::fault_sys::replay_case(v),
        "large" => vchecks::fault_sys::replay_large(v),
        "stdio" => {
            let mut o = Outcome::default();
            stdio_part(&mut o);
            match o.findings.first() {
                Some(f) => Err(f.message.clone()),
                None => Ok(()),
            }
        }
        k => Err(format!("unknown replay kind {k}")),
    }
}

fn main() {
    run_check("C08", "model_checking", main_check, replay);
}
