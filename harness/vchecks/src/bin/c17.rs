//! C17 - ANSI fallback of coloured writes frames the data and reports true progress.
//!
//! `anstyle_wincon::WinconStream::write_colored` (and `ansi::write_colored`) on
//! Vec<u8>, &mut Vec<u8>, Box<Vec<u8>>, File, and - through the `dyn Write`,
//! `dyn Write + Send`, `dyn Write + Send + Sync`, `Box<..>`, `&mut ..` impls -
//! on a scripted writer.  17 x 17 colour pairs x 4 data tokens x EVERY script
//! over the first P inner writes (P = 4 quick, 8 thorough; later writes accept
//! everything): each scripted inner write accepts the whole buffer, or a prefix
//! of length 0 / 1 / len-1, or fails with Interrupted / WouldBlock / Other.
//!
//! Oracle (spelling-agnostic, from the statement): the bytes the writer
//! accepted are parsed by M-VT; they must be [one SGR sequence that sets
//! exactly the foreground] [one that sets exactly the background] [a prefix of
//! the data, unchanged] [sequence(s) restoring the default state]; no sequence
//! at all when both colours are None; Ok(n) == number of data bytes accepted;
//! M-STRIP of the output == that data prefix.  What the statement demands when
//! an inner write fails is spelled out in `judge` and in the assume lines.

use anstyle_wincon::WinconStream;
use rayon::prelude::*;
use serde_json::{json, Value};
use std::collections::{BTreeMap, BTreeSet, HashSet};
use std::io::{self, ErrorKind, Read as _, Seek as _, Write};
use std::sync::{Arc, Mutex};
use vchecks::common::ansi_from_index;
use vexplore::evidence::*;
use vexplore::scripts::{self, Script};
use vexplore::util::*;
use vmodel::sgr::{Col, Sgr};
use vmodel::strip::StripModel;
use vmodel::vt::{Ev, St, Vt};

// ---------------------------------------------------------------------------
// domain

const NAMES16: [&str; 16] = [
    "Black", "Red", "Green", "Yellow", "Blue", "Magenta", "Cyan", "White", "BrightBlack", "BrightRed", "BrightGreen",
    "BrightYellow", "BrightBlue", "BrightMagenta", "BrightCyan", "BrightWhite",
];

/// colour index: 0 = None, 1..=16 = the 16 colours
fn colour(i: usize) -> Option<anstyle::AnsiColor> {
    if i == 0 {
        None
    } else {
        Some(ansi_from_index((i - 1) as u8))
    }
}
fn colour_name(i: usize) -> String {
    if i == 0 {
        "None".into()
    } else {
        NAMES16[i - 1].into()
    }
}
fn colour_col(i: usize) -> Col {
    if i == 0 {
        Col::Default
    } else {
        Col::Ansi((i - 1) as u8)
    }
}

fn data_tokens() -> Vec<(&'static str, Vec<u8>)> {
    let base = b"The quick [brown] fox;jumps:over\tthe lazy dog 0123456789m\n";
    let long: Vec<u8> = base.iter().cycle().take(64).copied().collect();
    // non-ASCII data: a short write can end inside a character (the count must still be what was accepted)
    vec![("empty", vec![]), ("a", b"a".to_vec()), ("ab\\n", b"ab\n".to_vec()), ("64B", long), ("é世", "é世".as_bytes().to_vec()), ("世界 ok", "世界 ok".as_bytes().to_vec())]
}

// ---------------------------------------------------------------------------
// scripted writer

#[derive(Clone, Debug, PartialEq, Eq)]
enum Ans {
    Accept(usize),
    Fail(ErrorKind),
}

fn menu_for(len: usize) -> Vec<Ans> {
    let mut m = vec![Ans::Accept(len)];
    for n in [0usize, 1, 2, len.wrapping_sub(1)] {
        if n < len && !m.contains(&Ans::Accept(n)) {
            m.push(Ans::Accept(n));
        }
    }
    m.push(Ans::Fail(ErrorKind::Interrupted));
    m.push(Ans::Fail(ErrorKind::WouldBlock));
    m.push(Ans::Fail(ErrorKind::Other));
    m
}

#[derive(Clone, Debug)]
struct WriteRec {
    len: usize,
    ans: Ans,
}

impl WriteRec {
    fn label(&self, i: usize) -> String {
        match &self.ans {
            Ans::Accept(n) if *n == self.len => format!("w{}[{}B]=all", i + 1, self.len),
            Ans::Accept(n) => format!("w{}[{}B]=accept{}", i + 1, self.len, n),
            Ans::Fail(k) => format!("w{}[{}B]=Err({:?})", i + 1, self.len, k),
        }
    }
    fn is_fault(&self) -> bool {
        match &self.ans {
            Ans::Fail(_) => true,
            Ans::Accept(0) => self.len > 0,
            Ans::Accept(_) => false,
        }
    }
    fn is_fatal_fault(&self) -> bool {
        self.is_fault() && self.ans != Ans::Fail(ErrorKind::Interrupted)
    }
}

#[derive(Default)]
struct State {
    script: Script,
    max_points: usize,
    writes: Vec<WriteRec>,
    accepted: Vec<u8>,
    runaway: bool,
}

#[derive(Clone)]
struct Scripted(Arc<Mutex<State>>);

const RUNAWAY: usize = 200;

impl Write for Scripted {
    fn write(&mut self, buf: &[u8]) -> io::Result<usize> {
        let mut st = self.0.lock().unwrap();
        if st.writes.len() >= RUNAWAY {
            st.runaway = true;
            return Err(io::Error::new(ErrorKind::Other, "runaway: too many inner writes"));
        }
        let menu = menu_for(buf.len());
        let c = if st.writes.len() < st.max_points { st.script.choose(menu.len()) } else { 0 };
        let ans = menu[c].clone();
        st.writes.push(WriteRec { len: buf.len(), ans: ans.clone() });
        match ans {
            Ans::Accept(n) => {
                st.accepted.extend_from_slice(&buf[..n]);
                Ok(n)
            }
            Ans::Fail(k) => Err(io::Error::new(k, "injected")),
        }
    }
    /// a gathering write (like a file or socket): one scripted answer for the concatenation of the buffers, so that
    /// code which hands over several pieces in one call sees a writer that can stop anywhere inside them
    fn write_vectored(&mut self, bufs: &[io::IoSlice<'_>]) -> io::Result<usize> {
        let all: Vec<u8> = bufs.iter().flat_map(|b| b.iter().copied()).collect();
        self.write(&all)
    }
    /// flush is scripted too (succeed / fail): code that starts flushing meets a writer whose flush can fail
    fn flush(&mut self) -> io::Result<()> {
        let mut st = self.0.lock().unwrap();
        let c = if st.writes.len() < st.max_points { st.script.choose(2) } else { 0 };
        if c == 1 {
            return Err(io::Error::new(ErrorKind::Other, "injected flush failure"));
        }
        Ok(())
    }
}

const PATHS: [&str; 6] = [
    "<dyn Write as WinconStream>",
    "Box<dyn Write>",
    "Box<dyn Write + Send>",
    "Box<dyn Write + Send + Sync>",
    "ansi::write_colored::<Scripted>",
    "&mut Box<dyn Write>",
];

fn call_path(path: usize, w: Scripted, fg: Option<anstyle::AnsiColor>, bg: Option<anstyle::AnsiColor>, data: &[u8]) -> io::Result<usize> {
    match path {
        0 => {
            let mut w = w;
            let d: &mut dyn Write = &mut w;
            d.write_colored(fg, bg, data)
        }
        1 => {
            let mut b: Box<dyn Write> = Box::new(w);
            b.write_colored(fg, bg, data)
        }
        2 => {
            let mut b: Box<dyn Write + Send> = Box::new(w);
            b.write_colored(fg, bg, data)
        }
        3 => {
            let mut b: Box<dyn Write + Send + Sync> = Box::new(w);
            b.write_colored(fg, bg, data)
        }
        4 => {
            let mut w = w;
            anstyle_wincon::ansi::write_colored(&mut w, fg, bg, data)
        }
        5 => {
            let mut b: Box<dyn Write> = Box::new(w);
            let mut r = &mut b;
            WinconStream::write_colored(&mut r, fg, bg, data)
        }
        _ => unreachable!(),
    }
}

// ---------------------------------------------------------------------------
// oracle

#[derive(Debug)]
enum Item {
    Seq(Vec<Vec<u16>>),
    Data(u8),
}

fn norm(c: Col) -> Col {
    match c {
        Col::Idx(i) if i < 16 => Col::Ansi(i),
        c => c,
    }
}

fn same_state(a: &Sgr, b: &Sgr) -> bool {
    let mut a = *a;
    let mut b = *b;
    a.fg = norm(a.fg);
    a.bg = norm(a.bg);
    b.fg = norm(b.fg);
    b.bg = norm(b.bg);
    a == b
}

fn show_state(s: &Sgr) -> String {
    format!("fg={:?} bg={:?} ul_colour={:?} effects={:#x}", s.fg, s.bg, s.ul_color, s.terminal_effects())
}

#[derive(Default, Debug)]
struct Obs {
    /// data bytes the writer accepted
    n: usize,
    err_after_data_accepted: bool,
    left_coloured_on_error: bool,
}

struct Opts {
    strict_progress: bool,
}

/// `writes`: None for real writers (no faults possible).
fn judge(
    fgi: usize,
    bgi: usize,
    data: &[u8],
    accepted: &[u8],
    writes: Option<&[WriteRec]>,
    result: &Result<usize, ErrorKind>,
    opts: &Opts,
) -> Result<Obs, (String, String)> {
    let v = |c: &str, m: String| Err((c.to_string(), m));
    let any_fault = writes.map(|w| w.iter().any(|r| r.is_fault())).unwrap_or(false);
    let fatal_fault = writes.map(|w| w.iter().any(|r| r.is_fatal_fault())).unwrap_or(false);
    let non_default = fgi != 0 || bgi != 0;
    let is_ok = result.is_ok();
    // an error although every inner write was accepted in full: nothing the statement talks about can have failed
    if let (Some(w), Err(k)) = (writes, result) {
        if !w.iter().any(|r| r.is_fault()) {
            return v("error-without-a-failing-write", format!("returned Err({k:?}) although the writer accepted every write in full (output {})", show(accepted)));
        }
    }

    // ---- parse what the writer accepted
    // (the data tokens contain no ESC, so the output splits by bytes into leading sequences, one run of data bytes -
    // possibly ending inside a multi-byte character after a short write - and trailing sequences; only the sequences
    // go through the VT model)
    let mut pos = 0usize;
    while pos < accepted.len() && accepted[pos] == 0x1b {
        match accepted[pos + 1..].iter().position(|&b| (0x40..=0x7e).contains(&b) && b != b'[') {
            Some(k) => pos += k + 2,
            None => pos = accepted.len(),
        }
    }
    let data_end = accepted[pos..].iter().position(|&b| b == 0x1b).map_or(accepted.len(), |k| pos + k);
    let mut vt = Vt::default();
    let mut items = vec![];
    for (part, is_data) in [(&accepted[..pos], false), (&accepted[pos..data_end], true), (&accepted[data_end..], false)] {
        if is_data {
            items.extend(part.iter().map(|&b| Item::Data(b)));
            continue;
        }
        for ev in vt.feed(part) {
            match ev {
                Ev::Csi { params, inter, ignore: false, byte: b'm' } if inter.is_empty() => items.push(Item::Seq(params)),
                other => return v("unexpected-sequence", format!("output {} contains {other:?}", show(accepted))),
            }
        }
    }
    let pending = vt.st != St::Ground;
    let lead = items.iter().take_while(|i| matches!(i, Item::Seq(_))).count();
    let n = items[lead..].iter().take_while(|i| matches!(i, Item::Data(_))).count();
    let trail = items[lead + n..].iter().take_while(|i| matches!(i, Item::Seq(_))).count();
    if lead + n + trail != items.len() {
        return v("structure", format!("output {} has text after the trailing sequence(s)", show(accepted)));
    }
    let got_data: Vec<u8> = items[lead..lead + n].iter().map(|i| if let Item::Data(b) = i { *b } else { 0 }).collect();
    if n > data.len() || got_data != data[..n] {
        return v("data-altered", format!("data part {} of output {} is not a prefix of the data {}", show(&got_data), show(accepted), show(data)));
    }
    let exp_lead = (fgi != 0) as usize + (bgi != 0) as usize;
    let mut order = vec![];
    if fgi != 0 {
        order.push(("foreground", true));
    }
    if bgi != 0 {
        order.push(("background", false));
    }
    // state after the first k sequences if each is the expected code, else (index, message) of the first wrong one
    let check_lead = |k: usize| -> Result<Sgr, (usize, String)> {
        let mut sgr = Sgr::default();
        let mut expect = Sgr::default();
        for i in 0..k {
            if let Item::Seq(p) = &items[i] {
                let _ = sgr.apply(p);
            }
            if order[i].1 {
                expect.fg = colour_col(fgi);
            } else {
                expect.bg = colour_col(bgi);
            }
            if !same_state(&sgr, &expect) {
                return Err((
                    i,
                    format!("sequence {} should be the {} code: state after it is [{}], expected [{}] (output {})", i + 1, order[i].0, show_state(&sgr), show_state(&expect), show(accepted)),
                ));
            }
        }
        Ok(sgr)
    };
    // with n == 0 leading and trailing sequences are adjacent: split them by the expected count
    let (mut lead, mut trail) = if n == 0 { (lead.min(exp_lead), trail + lead - lead.min(exp_lead)) } else { (lead, trail) };

    // ---- nothing but data when neither colour is given
    if !non_default {
        if lead + trail > 0 || pending {
            return v("code-without-colour", format!("no colour requested but output is {}", show(accepted)));
        }
    }

    // ---- leading codes: fg code, then bg code, each setting exactly its colour
    if lead > exp_lead {
        return v("surplus-code", format!("{} sequences before the data, expected {} (output {})", lead, exp_lead, show(accepted)));
    }
    let sgr = match check_lead(lead) {
        Ok(s) => s,
        Err((k, _)) if !is_ok && n == 0 => {
            // a failed call that emitted no data: the codes that were emitted, then possibly a reset
            trail += lead - k;
            lead = k;
            check_lead(k).map_err(|e| ("wrong-code".to_string(), e.1))?
        }
        Err((_, m)) => return v("wrong-code", m),
    };
    if lead < exp_lead {
        // allowed only as a cut-off frame of a failed call
        if is_ok {
            return v("code-missing", format!("returned {:?} but only {} of {} colour codes were emitted (output {})", result, lead, exp_lead, show(accepted)));
        }
        if n > 0 {
            return v("code-missing", format!("data emitted after only {} of {} colour codes (output {})", lead, exp_lead, show(accepted)));
        }
    }

    // ---- trailing reset
    let mut fin = sgr;
    for it in &items[lead + n..] {
        if let Item::Seq(p) = it {
            let _ = fin.apply(p);
        }
    }
    let restored = fin.is_default() && !pending;
    if trail > 0 && !pending && !fin.is_default() {
        return v("reset-wrong", format!("state after the trailing sequence(s) is [{}], not the default (output {})", show_state(&fin), show(accepted)));
    }
    if is_ok {
        if pending && !fatal_fault {
            return v("incomplete-sequence", format!("returned {:?} but the output ends inside a sequence: {}", result, show(accepted)));
        }
        if non_default && !restored && !fatal_fault {
            return v("reset-missing", format!("returned {:?} but the default state is not restored after the data: final state [{}] (output {})", result, show_state(&fin), show(accepted)));
        }
    }

    // ---- return value
    let never_short = writes.map(|w| w.iter().all(|r| r.ans == Ans::Accept(r.len))).unwrap_or(true);
    match result {
        Ok(r) => {
            if *r != n {
                return v("wrong-count", format!("returned Ok({r}) but the writer accepted {n} data byte(s) (output {})", show(accepted)));
            }
            if never_short && n != data.len() {
                return v("data-truncated", format!("the writer accepted everything it was offered but only {n} of {} data bytes were emitted (output {})", data.len(), show(accepted)));
            }
        }
        Err(k) => {
            if !any_fault {
                return v("spurious-error", format!("returned Err({k:?}) although no inner write failed or accepted nothing (output {})", show(accepted)));
            }
            if opts.strict_progress && n > 0 {
                return v("progress-lost", format!("returned Err({k:?}) although the writer accepted {n} data byte(s) (output {})", show(accepted)));
            }
        }
    }

    // ---- stripping gives back the data
    let mut m = StripModel::default();
    if let Err(e) = m.check_output(accepted, &data[..n]) {
        return v("strip-mismatch", format!("reference strip of output {} is not the accepted data {}: {e}", show(accepted), show(&data[..n])));
    }
    if !non_default && accepted != &data[..n] {
        return v("code-without-colour", format!("no colour requested but output {} differs from the accepted data", show(accepted)));
    }

    Ok(Obs { n, err_after_data_accepted: !is_ok && n > 0, left_coloured_on_error: !is_ok && non_default && lead > 0 && !restored })
}

// ---------------------------------------------------------------------------
// running one scripted case

struct RunOut {
    writes: Vec<WriteRec>,
    accepted: Vec<u8>,
    result: Result<Result<usize, ErrorKind>, String>, // outer Err = panic
    runaway: bool,
}

fn run_scripted(path: usize, fgi: usize, bgi: usize, data: &[u8], script: &mut Script, max_points: usize) -> RunOut {
    let st = Arc::new(Mutex::new(State { script: std::mem::take(script), max_points, ..Default::default() }));
    let w = Scripted(st.clone());
    let (fg, bg) = (colour(fgi), colour(bgi));
    let d = data.to_vec();
    let res = std::panic::catch_unwind(std::panic::AssertUnwindSafe(move || call_path(path, w, fg, bg, &d)));
    let mut g = match st.lock() {
        Ok(g) => g,
        Err(p) => p.into_inner(),
    };
    *script = std::mem::take(&mut g.script);
    RunOut {
        writes: std::mem::take(&mut g.writes),
        accepted: std::mem::take(&mut g.accepted),
        result: match res {
            Ok(r) => Ok(r.map_err(|e| e.kind())),
            Err(_) => Err("panic".into()),
        },
        runaway: g.runaway,
    }
}

fn judge_run(fgi: usize, bgi: usize, data: &[u8], r: &RunOut, opts: &Opts) -> Result<Obs, (String, String)> {
    if r.runaway {
        return Err(("runaway".into(), format!("more than {RUNAWAY} inner writes")));
    }
    match &r.result {
        Err(p) => Err(("panic".into(), p.clone())),
        Ok(res) => judge(fgi, bgi, data, &r.accepted, Some(&r.writes), res, opts),
    }
}

#[derive(Clone, Debug)]
struct Viol {
    path: usize,
    clause: String,
    fgi: usize,
    bgi: usize,
    di: usize,
    choices: Vec<usize>,
    labels: Vec<String>,
    msg: String,
}

#[derive(Default)]
struct CaseStats {
    runs: u64,
    max_points_seen: usize,
    viols: Vec<Viol>,
    viol_count: u64,
    obs_hashes: HashSet<u64>,
    err_after_data: u64,
    left_coloured: u64,
    err_runs: u64,
    short_data_runs: u64,
}

const PER_CASE_CAP: usize = 6;

fn explore_case(path: usize, fgi: usize, bgi: usize, di: usize, data: &[u8], max_points: usize, opts: &Opts) -> CaseStats {
    let mut cs = CaseStats::default();
    let stats = scripts::enumerate(usize::MAX / 2, |script| {
        let r = run_scripted(path, fgi, bgi, data, script, max_points);
        cs.runs += 1;
        cs.obs_hashes.insert(hash_of(&(&r.accepted, format!("{:?}", r.result))));
        match judge_run(fgi, bgi, data, &r, opts) {
            Ok(o) => {
                cs.err_after_data += o.err_after_data_accepted as u64;
                cs.left_coloured += o.left_coloured_on_error as u64;
                cs.err_runs += matches!(r.result, Ok(Err(_))) as u64;
                cs.short_data_runs += (matches!(r.result, Ok(Ok(_))) && o.n < data.len()) as u64;
            }
            Err((clause, msg)) => {
                cs.viol_count += 1;
                if cs.viols.len() < PER_CASE_CAP {
                    cs.viols.push(Viol {
                        path,
                        clause,
                        fgi,
                        bgi,
                        di,
                        choices: script.choices(),
                        labels: r.writes.iter().enumerate().map(|(i, w)| w.label(i)).collect(),
                        msg,
                    });
                }
            }
        }
        true
    });
    cs.max_points_seen = stats.max_points;
    cs
}

// ---------------------------------------------------------------------------
// real writers (no faults)

fn tmp_dir() -> String {
    let base = std::env::var("VERIF_BUILD_DIR").unwrap_or_else(|_| format!("{VERIF_ROOT}/.build"));
    format!("{base}/tmp")
}

const DIRECT: [&str; 4] = ["Vec<u8>", "&mut Vec<u8>", "Box<Vec<u8>>", "std::fs::File"];

fn run_direct(kind: usize, fgi: usize, bgi: usize, data: &[u8], file: &mut Option<(std::fs::File, String)>) -> Result<(Vec<u8>, Result<usize, ErrorKind>), String> {
    let (fg, bg) = (colour(fgi), colour(bgi));
    match kind {
        0 => {
            let mut v: Vec<u8> = vec![];
            let r = v.write_colored(fg, bg, data);
            Ok((v, r.map_err(|e| e.kind())))
        }
        1 => {
            let mut v: Vec<u8> = vec![];
            let mut r = &mut v;
            let res = WinconStream::write_colored(&mut r, fg, bg, data);
            Ok((v, res.map_err(|e| e.kind())))
        }
        2 => {
            let mut v: Box<Vec<u8>> = Box::default();
            let r = v.write_colored(fg, bg, data);
            Ok((*v, r.map_err(|e| e.kind())))
        }
        3 => {
            let (f, path) = file.as_mut().ok_or("no temp file")?;
            f.set_len(0).map_err(|e| e.to_string())?;
            f.seek(io::SeekFrom::Start(0)).map_err(|e| e.to_string())?;
            let r = f.write_colored(fg, bg, data);
            f.flush().map_err(|e| e.to_string())?;
            let mut back = vec![];
            std::fs::File::open(&*path).and_then(|mut g| g.read_to_end(&mut back)).map_err(|e| e.to_string())?;
            Ok((back, r.map_err(|e| e.kind())))
        }
        _ => unreachable!(),
    }
}

// ---------------------------------------------------------------------------

fn main_check(ctx: &Ctx) -> Outcome {
    let mut out = Outcome::default();
    // the functions under test must not consult the environment: a few representative inputs under a cleared and two
    // hostile settings of the colour-related variables (before any worker thread exists)
    fn env_digest() -> Vec<String> {
        { use anstyle_wincon::WinconStream as _; [(None, None), (Some(anstyle::AnsiColor::Red), None), (None, Some(anstyle::AnsiColor::BrightBlue)), (Some(anstyle::AnsiColor::White), Some(anstyle::AnsiColor::Black))].iter().map(|&(fg, bg)| { let mut v: Vec<u8> = Vec::new(); let r = v.write_colored(fg, bg, b"data\n"); format!("{:?} {:?}", r.map_err(|e| e.kind()), v) }).collect::<Vec<String>>() }
    }
    if let Err(m) = vexplore::util::env_independence(env_digest) {
        out.findings.push(Finding {
            system: "write_colored".into(),
            clause: "environment-dependence".into(),
            case: vec!["representative inputs".into()],
            message: m.chars().take(900).collect(),
            replay: serde_json::json!({"kind":"env"}),
        });
    }
    let quick = ctx.quick();
    let opts = Opts { strict_progress: ctx.opt("strict_progress") == Some("1") };
    let max_points: usize = ctx.opt("points").and_then(|p| p.parse().ok()).unwrap_or(if quick { 4 } else { 8 });
    let tokens = data_tokens();

    // ---- scripted writers
    let mut cases = vec![];
    for path in 0..PATHS.len() {
        for fgi in 0..17 {
            for bgi in 0..17 {
                for di in 0..tokens.len() {
                    cases.push((path, fgi, bgi, di));
                }
            }
        }
    }
    let results: Vec<CaseStats> = cases.par_iter().map(|&(p, f, b, d)| explore_case(p, f, b, d, &tokens[d].1, max_points, &opts)).collect();
    let mut runs = 0u64;
    let mut hashes: HashSet<u64> = HashSet::new();
    let mut viols: Vec<Viol> = vec![];
    let (mut viol_count, mut err_after, mut left_col, mut err_runs, mut short_runs, mut maxp) = (0u64, 0u64, 0u64, 0u64, 0u64, 0usize);
    let mut per_path = vec![0u64; PATHS.len()];
    for (c, r) in cases.iter().zip(results) {
        runs += r.runs;
        per_path[c.0] += r.runs;
        hashes.extend(r.obs_hashes);
        viols.extend(r.viols);
        viol_count += r.viol_count;
        err_after += r.err_after_data;
        left_col += r.left_coloured;
        err_runs += r.err_runs;
        short_runs += r.short_data_runs;
        maxp = maxp.max(r.max_points_seen);
    }
    // group: same clause + data token + script => one finding (simplest colour pair, list of paths)
    let mut groups: BTreeMap<(String, usize, Vec<usize>), Vec<Viol>> = BTreeMap::new();
    for v in viols {
        groups.entry((v.clause.clone(), v.di, v.choices.clone())).or_default().push(v);
    }
    let mut findings: Vec<(usize, Finding)> = vec![];
    for ((clause, di, choices), vs) in &groups {
        let paths: BTreeSet<usize> = vs.iter().map(|v| v.path).collect();
        let first = vs.iter().min_by_key(|v| (v.fgi, v.bgi, v.path)).unwrap();
        let sys = if paths.len() == PATHS.len() {
            "write_colored/scripted writer [all 6 paths]".to_string()
        } else {
            format!("write_colored/scripted writer [{}]", paths.iter().map(|&p| PATHS[p]).collect::<Vec<_>>().join(", "))
        };
        let mut case = vec![format!("fg={}", colour_name(first.fgi)), format!("bg={}", colour_name(first.bgi)), format!("data={}", tokens[*di].0)];
        case.extend(first.labels.iter().cloned());
        let dev = choices.iter().filter(|&&c| c != 0).count();
        findings.push((
            dev * 1000 + tokens[*di].1.len() * 4 + choices.len(),
            Finding {
                system: sys,
                clause: clause.clone(),
                case,
                message: format!("{} [{} recorded (colour pair, path) combination(s) fail with this data and script]", first.msg, vs.len()),
                replay: json!({"kind":"scripted","path":first.path,"fg":first.fgi,"bg":first.bgi,"data":di,"choices":choices,"points":max_points,"strict_progress":opts.strict_progress}),
            },
        ));
    }
    findings.sort_by(|a, b| (a.0, a.1.key()).cmp(&(b.0, b.1.key())));
    let nf = findings.len();
    out.findings.extend(findings.into_iter().take(200).map(|f| f.1));
    if viol_count as usize > out.findings.len() {
        out.extra_violation_count += viol_count - out.findings.len().min(nf) as u64;
    }
    out.push_part(json!({
        "system": "scripted writer", "paths": PATHS, "colour_pairs": 289, "data_tokens": tokens.iter().map(|t| t.0).collect::<Vec<_>>(),
        "scripted_inner_writes_per_run": max_points, "menu": "whole buffer | accept 0 | accept 1 | accept len-1 | Err(Interrupted) | Err(WouldBlock) | Err(Other)",
        "runs": runs, "runs_per_path": per_path, "max_decision_points_in_a_run": maxp,
        "runs_returning_err": err_runs, "ok_runs_with_short_data_write": short_runs,
        "observation_err_returned_after_data_bytes_were_accepted": err_after,
        "observation_colours_left_set_when_err_returned": left_col,
    }));

    // ---- real writers
    let dir = tmp_dir();
    let mut file = None;
    let fpath = format!("{dir}/c17-{}.bin", std::process::id());
    if std::fs::create_dir_all(&dir).is_ok() {
        if let Ok(f) = std::fs::OpenOptions::new().create(true).truncate(true).read(true).write(true).open(&fpath) {
            file = Some((f, fpath.clone()));
        }
    }
    let mut direct_runs = 0u64;
    for kind in 0..DIRECT.len() {
        for fgi in 0..17 {
            for bgi in 0..17 {
                for (di, (tname, data)) in tokens.iter().enumerate() {
                    direct_runs += 1;
                    let res = match run_direct(kind, fgi, bgi, data, &mut file) {
                        Ok((bytes, r)) => {
                            hashes.insert(hash_of(&(&bytes, format!("{r:?}"))));
                            match judge(fgi, bgi, data, &bytes, None, &r, &opts) {
                                Ok(_) => Ok(()),
                                Err(e) => Err(e),
                            }
                        }
                        Err(m) => Err(("harness-io".to_string(), m)),
                    };
                    if let Err((clause, msg)) = res {
                        if clause == "harness-io" {
                            eprintln!("MACHINERY ERROR: temp file handling failed: {msg}");
                            std::process::exit(2);
                        }
                        if out.findings.len() < 260 {
                            out.findings.push(Finding {
                                system: format!("write_colored/{}", DIRECT[kind]),
                                clause,
                                case: vec![format!("fg={}", colour_name(fgi)), format!("bg={}", colour_name(bgi)), format!("data={tname}")],
                                message: msg,
                                replay: json!({"kind":"direct","writer":kind,"fg":fgi,"bg":bgi,"data":di}),
                            });
                        } else {
                            out.extra_violation_count += 1;
                        }
                    }
                }
            }
        }
    }
    // every printable ASCII byte and TAB / LF / CR as data between two letters, into a Vec<u8>, for 5 colour pairs: the
    // data must come through untouched whatever it is (the judge reads the data back by stripping the output, so other
    // control bytes are left out)
    for b in (0x20..=0x7eu8).chain([0x09, 0x0a, 0x0d]) {
        let data = [b'x', b, b'y'];
        for (fgi, bgi) in [(0usize, 0usize), (2, 0), (0, 5), (10, 16), (16, 1)] {
            direct_runs += 1;
            let res = match run_direct(0, fgi, bgi, &data, &mut file) {
                Ok((bytes, r)) => judge(fgi, bgi, &data, &bytes, None, &r, &opts).map(|_| ()),
                Err(m) => Err(("harness-io".to_string(), m)),
            };
            if let Err((clause, msg)) = res {
                if out.findings.len() < 260 {
                    out.findings.push(Finding {
                        system: "write_colored/Vec<u8>/every printable byte".into(),
                        clause,
                        case: vec![format!("fg={}", colour_name(fgi)), format!("bg={}", colour_name(bgi)), format!("data=x<0x{b:02x}>y")],
                        message: msg,
                        replay: json!({"kind":"direct-bytes","fg":fgi,"bg":bgi,"data":hex(&data)}),
                    });
                }
            }
        }
    }
    drop(file);
    // Files whose writes the OS rejects: a read-only handle and /dev/full.  Whatever the call
    // returns, it must not report data bytes as accepted that the file did not take.
    let mut rejecting_runs = 0u64;
    std::fs::write(&fpath, b"").map_err(|e| e.to_string()).ok();
    for (label, opener) in [
        ("read-only handle", Box::new(|| std::fs::File::open(&fpath)) as Box<dyn Fn() -> io::Result<std::fs::File>>),
        ("/dev/full", Box::new(|| std::fs::OpenOptions::new().write(true).open("/dev/full"))),
    ] {
        let Ok(mut f) = opener() else { continue };
        // sanity: a plain write really fails on this handle (otherwise the case proves nothing)
        if io::Write::write(&mut f, b"x").is_ok() {
            continue;
        }
        for fgi in 0..17 {
            for bgi in 0..17 {
                for (di, (tname, data)) in tokens.iter().enumerate() {
                    if data.is_empty() {
                        continue;
                    }
                    rejecting_runs += 1;
                    let mut f = opener().unwrap();
                    let r = f.write_colored(colour(fgi), colour(bgi), data);
                    if let Ok(n) = r {
                        if n > 0 && out.findings.len() < 260 {
                            out.findings.push(Finding {
                                system: "write_colored/std::fs::File (writes rejected by the OS)".into(),
                                clause: "progress-reported-without-acceptance".into(),
                                case: vec![label.to_string(), format!("fg={}", colour_name(fgi)), format!("bg={}", colour_name(bgi)), format!("data={tname}")],
                                message: format!("write_colored on a {label} returned Ok({n}) although the file accepts no byte (a plain write on it fails)"),
                                replay: json!({"kind":"rejecting-file","which":label,"fg":fgi,"bg":bgi,"data":di}),
                            });
                        }
                    }
                }
            }
        }
    }
    // a coloured write into a writer that panics (on this thread and on another one; the panic is caught), then an
    // ordinary coloured write into a Vec: whatever write_colored shares between calls must not be left broken
    {
        struct PanickingWriter;
        impl Write for PanickingWriter {
            fn write(&mut self, _b: &[u8]) -> io::Result<usize> {
                panic!("writer of the harness panics on purpose")
            }
            fn flush(&mut self) -> io::Result<()> {
                Ok(())
            }
        }
        let boom = || {
            let _ = std::panic::catch_unwind(|| {
                let mut w: Box<dyn Write + Send> = Box::new(PanickingWriter);
                w.write_colored(colour(2), colour(5), b"x")
            });
        };
        boom();
        let _ = std::thread::spawn(boom).join();
        for (fgi, bgi) in [(0usize, 0usize), (2, 0), (0, 5), (10, 16)] {
            direct_runs += 1;
            let data = b"after";
            let r = std::panic::catch_unwind(|| {
                let mut nofile = None;
                run_direct(0, fgi, bgi, data, &mut nofile)
            });
            let verdict = match r {
                Err(_) => Err(("panic".to_string(), format!("write_colored panicked after an earlier call whose writer had panicked: {}", last_panic()))),
                Ok(Err(m)) => Err(("harness-io".to_string(), m)),
                Ok(Ok((bytes, res))) => judge(fgi, bgi, data, &bytes, None, &res, &opts).map(|_| ()),
            };
            if let Err((clause, msg)) = verdict {
                out.findings.push(Finding {
                    system: "write_colored/Vec<u8> after a panicking writer".into(),
                    clause,
                    case: vec![format!("fg={}", colour_name(fgi)), format!("bg={}", colour_name(bgi))],
                    message: msg,
                    replay: json!({"kind":"direct-bytes","fg":fgi,"bg":bgi,"data":hex(data)}),
                });
            }
        }
    }
    let _ = std::fs::remove_file(&fpath);
    out.push_part(json!({"system": "real writers", "writers": DIRECT, "runs": direct_runs, "temp_file_dir": dir, "rejecting_file_runs": rejecting_runs}));

    out.set("evaluations", json!(runs + direct_runs));
    out.set("distinct_nontrivial", json!(hashes.len()));
    out.set("rule", json!("evaluations = executed write_colored calls (one per script x colour pair x data token x path, plus real writers); distinct_nontrivial = distinct (bytes accepted by the writer, returned value) observations"));
    out.set("exhaustive", json!(true));
    out.set("explanation", json!(format!("complete over every answer sequence for the first {max_points} inner writes of a call (later inner writes accept everything); the fault-free call makes at most 4 inner writes")));
    // samples
    for (fgi, bgi, di, choices) in [(2usize, 0usize, 2usize, vec![]), (13, 5, 3, vec![0, 0, 3]), (0, 0, 1, vec![]), (1, 1, 1, vec![2, 4])] {
        let mut s = Script::new(choices);
        let r = run_scripted(0, fgi, bgi, &tokens[di].1, &mut s, max_points);
        out.push_sample(json!({
            "fg": colour_name(fgi), "bg": colour_name(bgi), "data": tokens[di].0,
            "script": r.writes.iter().enumerate().map(|(i, w)| w.label(i)).collect::<Vec<_>>(),
            "accepted_by_writer": show(&r.accepted), "returned": format!("{:?}", r.result),
        }));
    }
    // every finding must reproduce, twice, from its replay payload alone (else it is a machinery error, not a verdict)
    for f in &out.findings {
        for _ in 0..2 {
            if replay(&f.replay).is_ok() {
                eprintln!("MACHINERY ERROR: finding {} does not reproduce from its replay payload", f.key());
                std::process::exit(2);
            }
        }
    }
    out.assume("the spelling of the colour and reset codes is not fixed by the statement: any single SGR sequence that sets exactly the requested colour, and any trailing SGR sequence(s) that restore the default state, are accepted; their order (foreground, background, data, reset) is checked");
    out.assume("when an inner write fails (or accepts 0 bytes of a non-empty buffer) the statement does not say what the call returns: Err is accepted provided the bytes the writer accepted are a cut-off frame (codes in order, data prefix unchanged, nothing after a missing piece); a frame without its reset is accepted only in runs with such a failure");
    out.assume("Err returned after the writer already accepted data bytes (the reset write failed) is counted as an observation, not a violation (--opt strict_progress=1 turns it into one); the kind of a returned error is not checked");
    out.assume("short writes and Interrupted on the escape codes must be invisible (the call has to complete the code or fail); the data is offered in any number of inner writes, the statement only fixes the returned count");
    out.assume("Stdout/Stderr and their locks forward to the same function (read in stream.rs) and are not exercised; the legacy-console branch is Windows-only");
    out
}

fn replay(v: &Value) -> Result<(), String> {
    let tokens = data_tokens();
    let fgi = v["fg"].as_u64().ok_or("fg")? as usize;
    let bgi = v["bg"].as_u64().ok_or("bg")? as usize;
    let di = v["data"].as_u64().ok_or("data")? as usize;
    if fgi > 16 || bgi > 16 || di >= tokens.len() {
        return Err("replay payload out of range".into());
    }
    let opts = Opts { strict_progress: v["strict_progress"].as_bool().unwrap_or(false) };
    match v["kind"].as_str().unwrap_or("") {
        "scripted" => {
            let choices: Vec<usize> = v["choices"].as_array().ok_or("choices")?.iter().map(|x| x.as_u64().unwrap_or(0) as usize).collect();
            let path = v["path"].as_u64().ok_or("path")? as usize;
            let points = v["points"].as_u64().unwrap_or(4) as usize;
            let mut s = Script::new(choices);
            let r = run_scripted(path, fgi, bgi, &tokens[di].1, &mut s, points);
            judge_run(fgi, bgi, &tokens[di].1, &r, &opts).map(|_| ()).map_err(|(c, m)| format!("{c}: {m}"))
        }
        "direct-bytes" => {
            let data = unhex(v["data"].as_str().unwrap_or(""));
            let mut file = None;
            let (bytes, r) = run_direct(0, fgi, bgi, &data, &mut file)?;
            judge(fgi, bgi, &data, &bytes, None, &r, &opts).map(|_| ()).map_err(|(c, m)| format!("{c}: {m}"))
        }
        "direct" => {
            let kind = v["writer"].as_u64().ok_or("writer")? as usize;
            let dir = tmp_dir();
            let fpath = format!("{dir}/c17-replay-{}.bin", std::process::id());
            let mut file = None;
            if kind == 3 {
                std::fs::create_dir_all(&dir).map_err(|e| e.to_string())?;
                let f = std::fs::OpenOptions::new().create(true).truncate(true).read(true).write(true).open(&fpath).map_err(|e| e.to_string())?;
                file = Some((f, fpath.clone()));
            }
            let res = run_direct(kind, fgi, bgi, &tokens[di].1, &mut file);
            let _ = std::fs::remove_file(&fpath);
            let (bytes, r) = res?;
            judge(fgi, bgi, &tokens[di].1, &bytes, None, &r, &opts).map(|_| ()).map_err(|(c, m)| format!("{c}: {m}"))
        }
        "rejecting-file" => {
            let dir = tmp_dir();
            std::fs::create_dir_all(&dir).map_err(|e| e.to_string())?;
            let fpath = format!("{dir}/c17-replay-ro-{}.bin", std::process::id());
            std::fs::write(&fpath, b"").map_err(|e| e.to_string())?;
            let which = v["which"].as_str().unwrap_or("");
            let f = if which == "/dev/full" { std::fs::OpenOptions::new().write(true).open("/dev/full") } else { std::fs::File::open(&fpath) };
            let mut f = f.map_err(|e| e.to_string())?;
            let r = f.write_colored(colour(fgi), colour(bgi), &tokens[di].1);
            let _ = std::fs::remove_file(&fpath);
            match r {
                Ok(n) if n > 0 => Err(format!("write_colored on a {which} returned Ok({n}) although the file accepts no byte")),
                _ => Ok(()),
            }
        }
        "env" => Err("environment-dependence findings are replayed by re-running the check".into()),
        k => Err(format!("unknown replay kind {k}")),
    }
}

fn main() {
    run_check("C17", "fault_enumeration", main_check, replay);
}
