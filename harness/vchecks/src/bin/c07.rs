//! C07 - styled-run extraction follows standard SGR semantics.
//!
//! (A) product BFS WinconBytes x (M-VT + M-SGR) over text tokens, single-group SGR
//!     sequences, mixed text/sequence tokens and non-SGR sequences;
//! (B) from every style reached in (A) (bounded depth), every single sequence of
//!     <= k attribute groups, wrapped as "x" SEQ "y", against the model, and against
//!     the same groups sent as separate sequences (differential clause).

use anstream::adapter::WinconBytes;
use rayon::prelude::*;
use serde_json::json;
use std::sync::atomic::{AtomicU64, Ordering};
use vchecks::wincon_sys::*;
use vexplore::bfs::{self, Limits};
use vexplore::evidence::*;
use vexplore::util::*;
use vmodel::runs::RunModel;
use vmodel::sgr::{Sgr, Ul};

fn seq(groups: &[&str]) -> Vec<u8> {
    let mut v = b"\x1b[".to_vec();
    v.extend(groups.join(";").as_bytes());
    v.push(b'm');
    v
}

/// does the group list keep "one underline style at a time" when applied from `sgr`?
fn underline_guard_ok(sgr: &Sgr, groups: &[&str]) -> bool {
    let mut s = *sgr;
    for g in groups {
        let before = s.ul;
        let mut t = s;
        t.apply(&Sgr::parse_params(g));
        let sets_style = matches!(*g, "4" | "04" | "21" | "4:1" | "4:2" | "4:3" | "4:4" | "4:5");
        if sets_style && before != Ul::None {
            return false;
        }
        s = t;
    }
    true
}

fn sets_underline_style(g: &str) -> bool {
    matches!(g, "4" | "21")
}

fn main_check(ctx: &Ctx) -> Outcome {
    let mut out = Outcome::default();
    // the functions under test must not consult the environment: a few representative inputs under a cleared and two
    // hostile settings of the colour-related variables (before any worker thread exists)
    fn env_digest() -> Vec<String> {
        ["plain", "a\x1b[1;31mb\x1b[0m c", "\x1b[38;5;9;48;2;1;2;3mx\x1b[4:3my", "\x1b]0;t\x07x"].iter().map(|t| format!("{:?}", WinconBytes::new().extract_next(t.as_bytes()).collect::<Vec<_>>())).collect::<Vec<String>>()
    }
    if let Err(m) = vexplore::util::env_independence(env_digest) {
        out.findings.push(Finding {
            system: "WinconBytes::extract_next".into(),
            clause: "environment-dependence".into(),
            case: vec!["representative inputs".into()],
            message: m.chars().take(900).collect(),
            replay: serde_json::json!({"kind":"env"}),
        });
    }
    let quick = ctx.quick();
    let groups = sgr_groups();

    // (A) BFS
    let sys = sgr_bfs_system();
    let depth = if quick { 3 } else { 4 };
    let (states, rep) = bfs::reachable_states(&sys, &Limits::depth(depth));
    out.add_bfs(&rep);
    out.findings.extend(bfs_findings(&rep, wincon_clause_of));
    out.set("bfs_tokens", json!(sys.tokens.len()));

    // (B) sequences of <= k groups from reached styles
    // start states: distinct styles only (the model's SGR state determines the expectation)
    let mut seen = std::collections::HashSet::new();
    let mut starts: Vec<&WState> = vec![];
    for s in &states {
        if s.parser_ground && seen.insert(s.model.sgr) {
            starts.push(s);
        }
    }
    let evals = AtomicU64::new(0);
    let skipped = AtomicU64::new(0);
    let viol = std::sync::Mutex::new(Vec::<Finding>::new());
    let distinct = std::sync::Mutex::new(std::collections::HashSet::<u64>::new());
    let run_seqs = |k: usize, starts: &[&WState], label: &str| -> usize {
        let combos: Vec<Vec<usize>> = strings_upto(groups.len(), k).filter(|c| !c.is_empty()).collect();
        combos.par_iter().for_each(|combo| {
            let gs: Vec<&str> = combo.iter().map(|&i| groups[i]).collect();
            let mut chunk = b"x".to_vec();
            chunk.extend(seq(&gs));
            chunk.push(b'y');
            // differential form: the same groups as separate sequences
            let mut chunk_sep = b"x".to_vec();
            for g in &gs {
                chunk_sep.extend(seq(&[g]));
            }
            chunk_sep.push(b'y');
            let mut local = std::collections::HashSet::new();
            for st in starts {
                if !underline_guard_ok(&st.model.sgr, &gs) {
                    skipped.fetch_add(1, Ordering::Relaxed);
                    continue;
                }
                evals.fetch_add(1, Ordering::Relaxed);
                let mut imp = st.imp.clone();
                let mut model = st.model.clone();
                let r = guard(|| wincon_step(&mut imp, &mut model, &chunk)).and_then(|r| r);
                let r = r.and_then(|runs| {
                    local.insert(hash_of(&runs));
                    // differential clause
                    let mut imp2 = st.imp.clone();
                    let a: Vec<_> = guard(|| merge_real(imp2.extract_next(&chunk_sep).collect()))?;
                    if a != runs {
                        return Err(format!(
                            "combined sequence and separate sequences disagree: combined {:?} vs separate {:?}",
                            runs, a
                        ));
                    }
                    Ok(())
                });
                if let Err(m) = r {
                    let mut v = viol.lock().unwrap();
                    if v.len() < 300 {
                        v.push(Finding {
                            system: format!("WinconBytes::extract_next/{label}"),
                            clause: wincon_clause_of(&m),
                            case: vec![format!("from[{}]", sgr_label(&st.model.sgr)), show(&chunk)],
                            message: m,
                            replay: json!({"kind":"seq-from-style","prefix": hex(&st.prefix), "chunk": hex(&chunk), "chunk_sep": hex(&chunk_sep)}),
                        });
                    }
                }
            }
            distinct.lock().unwrap().extend(local);
        });
        combos.len()
    };
    // two groups from every reached style
    let n2 = run_seqs(2, &starts, "2-groups");
    out.push_part(json!({"system":"WinconBytes sequences of <=2 groups from every reached style","sequences":n2,"start_styles":starts.len(),"groups":groups.len()}));
    // three groups: quick = from a handful of styles, thorough = from every reached style
    let few: Vec<&WState> = if quick { starts.iter().copied().step_by((starts.len() / 6).max(1)).take(7).collect() } else { starts.clone() };
    let n3 = run_seqs(3, &few, "3-groups");
    out.push_part(json!({"system":"WinconBytes sequences of <=3 groups","sequences":n3,"start_styles":few.len(),"groups":groups.len()}));

    // (C) value sweeps from the default style and from a fully styled state
    {
        let sweep = value_sweep_groups();
        let styled_prefix: &[u8] = b"\x1b[1;3;31;44;58;5;7m";
        let n = AtomicU64::new(0);
        sweep.par_iter().for_each(|g| {
            for prefix in [&b""[..], styled_prefix] {
                let mut imp = WinconBytes::new();
                let mut model = RunModel::default();
                if !prefix.is_empty() && wincon_step(&mut imp, &mut model, prefix).is_err() {
                    continue;
                }
                if sets_underline_style(g) && model.sgr.ul != Ul::None {
                    continue;
                }
                let mut chunk = b"x".to_vec();
                chunk.extend(seq(&[g.as_str()]));
                chunk.push(b'y');
                n.fetch_add(1, Ordering::Relaxed);
                if let Err(m) = guard(|| wincon_step(&mut imp, &mut model, &chunk)).and_then(|r| r.map(|_| ())) {
                    let mut v = viol.lock().unwrap();
                    if v.len() < 300 {
                        v.push(Finding {
                            system: "WinconBytes::extract_next/value-sweep".into(),
                            clause: wincon_clause_of(&m),
                            case: vec![show(prefix), show(&chunk)],
                            message: m,
                            replay: json!({"kind":"seq-from-style","prefix": hex(&[&[0xffu8][..], prefix].concat()), "chunk": hex(&chunk), "chunk_sep": hex(&chunk)}),
                        });
                    }
                }
            }
        });
        evals.fetch_add(n.load(Ordering::Relaxed), Ordering::Relaxed);
        out.push_part(json!({"system":"WinconBytes value sweeps (all 256 indices / component values, all plain codes 0..=110 inside the statement)","sequences":sweep.len(),"runs":n.load(Ordering::Relaxed)}));
    }

    // (D) codes the statement leaves out (5, 6, 22-29, 59): alone and combined with listed groups in one sequence, from
    //     three start styles; the extractor may ignore such a code or do what a conforming terminal does - nothing else
    //     (in particular it must not drop its neighbours or touch another attribute)
    {
        let cases = unlisted_code_cases();
        cases.par_iter().for_each(|(with, without)| {
            if let Err(m) = guard(|| unlisted_case_runs(with, without)).and_then(|r| r) {
                let mut v = viol.lock().unwrap();
                if v.len() < 300 {
                    v.push(Finding {
                        system: "WinconBytes::extract_next/left-out-codes".into(),
                        clause: wincon_clause_of(&m),
                        case: vec![show(with)],
                        message: m,
                        replay: json!({"kind":"left-out","with": hex(with), "without": hex(without)}),
                    });
                }
            }
        });
        evals.fetch_add(cases.len() as u64, Ordering::Relaxed);
        out.push_part(json!({"system":"WinconBytes sequences containing a code the statement leaves out (5, 6, 22-29, 59)","sequences":cases.len()}));
    }

    // (N) every kind of non-SGR sequence inside styled text: nothing may change
    {
        let cases = non_sgr_cases();
        cases.par_iter().for_each(|c| {
            let mut imp = WinconBytes::new();
            let mut model = RunModel::default();
            if let Err(m) = guard(|| wincon_step(&mut imp, &mut model, c)).and_then(|r| r.map(|_| ())) {
                let mut v = viol.lock().unwrap();
                if v.len() < 300 {
                    v.push(Finding {
                        system: "WinconBytes::extract_next/non-SGR-sequences".into(),
                        clause: wincon_clause_of(&m),
                        case: vec![show(c)],
                        message: m,
                        replay: json!({"kind":"seq-from-style","prefix": hex(&[0xffu8]), "chunk": hex(c), "chunk_sep": hex(c)}),
                    });
                }
            }
        });
        evals.fetch_add(cases.len() as u64, Ordering::Relaxed);
        out.push_part(json!({"system":"WinconBytes: every OSC number 0..=255, every CSI final byte, every ESC final byte, DCS/SOS/PM/APC inside styled text","sequences":cases.len()}));
    }

    // (E) every chunk of <= 2 bytes over ALL 256 byte values, from the default and a styled state after every string of
    //     <= 2 class bytes (parser in every kind of state, partial characters included): a byte the extractor singles
    //     out meets every neighbour, without relying on the token alphabets above
    {
        let (alpha, _) = vchecks::common::class_alphabet();
        let mut e_starts: Vec<(WinconBytes, RunModel, Vec<u8>)> = vec![];
        for prefix in [&b""[..], b"\x1b[1;31;44m"] {
            for c in strings_upto(alpha.len(), 2) {
                let mut bytes = prefix.to_vec();
                bytes.extend(c.iter().map(|&i| alpha[i]));
                let mut imp = WinconBytes::new();
                let mut model = RunModel::default();
                if wincon_step(&mut imp, &mut model, &bytes).is_err() || model.ill_formed {
                    continue;
                }
                if !e_starts.iter().any(|(i, m, _)| *i == imp && m.canon() == model.canon()) {
                    e_starts.push((imp, model.canon(), bytes));
                }
            }
        }
        let pairs: Vec<Vec<u8>> = (0..=255u8).map(|a| vec![a]).chain((0..=255u8).flat_map(|a| (0..=255u8).map(move |b| vec![a, b]))).collect();
        let n = AtomicU64::new(0);
        pairs.par_iter().for_each(|p| {
            for (imp0, model0, prefix) in &e_starts {
                let mut imp = imp0.clone();
                let mut model = model0.clone();
                let mut probe = model0.clone();
                probe.feed(p);
                if probe.ill_formed {
                    continue;
                }
                n.fetch_add(1, Ordering::Relaxed);
                if let Err(m) = guard(|| wincon_step(&mut imp, &mut model, p)).and_then(|r| r.map(|_| ())) {
                    let mut v = viol.lock().unwrap();
                    if v.len() < 300 {
                        v.push(Finding {
                            system: "WinconBytes::extract_next/all-2-byte-chunks".into(),
                            clause: wincon_clause_of(&m),
                            case: vec![show(prefix), show(p)],
                            message: m,
                            replay: json!({"kind":"seq-from-style","prefix": hex(&[&[0xffu8][..], prefix].concat()), "chunk": hex(p), "chunk_sep": hex(p)}),
                        });
                    }
                }
            }
        });
        evals.fetch_add(n.load(Ordering::Relaxed), Ordering::Relaxed);
        out.push_part(json!({"system":"WinconBytes: every chunk of <= 2 bytes over all 256 byte values","start_states":e_starts.len(),"chunks":pairs.len(),"runs":n.load(Ordering::Relaxed)}));
    }

    let mut v = viol.into_inner().unwrap();
    v.sort_by_key(|f| (f.case.iter().map(|c| c.len()).sum::<usize>(), f.key()));
    // keep the shortest few per clause so that the list is stable and readable
    let mut per_clause: std::collections::HashMap<String, usize> = Default::default();
    v.retain(|f| {
        let c = per_clause.entry(f.clause.clone()).or_default();
        *c += 1;
        *c <= 40
    });
    out.findings.extend(v);
    out.set("evaluations", json!(evals.load(Ordering::Relaxed)));
    out.set("guard_skipped", json!(skipped.load(Ordering::Relaxed)));
    out.set("distinct_nontrivial", json!(distinct.lock().unwrap().len()));
    out.set("rule", json!("evaluations = (start style, sequence) runs of phase B; distinct_nontrivial = distinct run lists observed"));
    out.set("exhaustive", json!(true));
    out.set("explanation", json!("bounded: BFS depth and number of attribute groups per sequence as stated in parts"));
    out.push_sample(json!({"chunk": "x ESC[1;38:5:196;4:3m y", "expect": "[(default,'x'),(bold+fg196+curly,'y')]"}));
    out.assume("codes the statement does not list (5, 6, 22-29, 59, colour-space form 38:2::r:g:b, more than 32 parameters) are not generated");
    out.assume("a second underline style is only generated after a reset (a terminal has one underline style, the style type five bits)");
    out
}

fn replay(v: &serde_json::Value) -> Result<(), String> {
    match v["kind"].as_str().unwrap_or("") {
        "bfs" => {
            let sys = sgr_bfs_system();
            let trace: Vec<usize> = v["trace"].as_array().unwrap().iter().map(|x| x.as_u64().unwrap() as usize).collect();
            bfs::replay(&sys, v["init"].as_u64().unwrap_or(0) as usize, &trace).map(|_| ()).map_err(|(i, m)| format!("step {i}: {m}"))
        }
        "left-out" => unlisted_case_runs(&unhex(v["with"].as_str().unwrap_or("")), &unhex(v["without"].as_str().unwrap_or(""))),
        "seq-from-style" => {
            let mut imp = WinconBytes::new();
            let mut model = RunModel::default();
            let prefix = unhex(v["prefix"].as_str().unwrap());
            // the prefix is a token list joined by 0xff separators
            for tok in prefix.split(|&b| b == 0xff) {
                if !tok.is_empty() {
                    wincon_step(&mut imp, &mut model, tok)?;
                }
            }
            let chunk = unhex(v["chunk"].as_str().unwrap());
            let sep = unhex(v["chunk_sep"].as_str().unwrap());
            let mut imp2 = imp.clone();
            let runs = wincon_step(&mut imp, &mut model, &chunk)?;
            let a = merge_real(imp2.extract_next(&sep).collect());
            if a != runs {
                return Err(format!("combined sequence and separate sequences disagree: {runs:?} vs {a:?}"));
            }
            Ok(())
        }
        "env" => Err("environment-dependence findings are replayed by re-running the check".into()),
        k => Err(format!("unknown replay kind {k}")),
    }
}

fn main() {
    run_check("C07", "model_checking", main_check, replay);
}
