//! C10 - lossy colour conversion is total, exact on exact matches and nearest otherwise.
//!
//! Finite-domain enumeration (E3) against M-COLOR (`vmodel::color`: palettes, fixed
//! xterm colours, the red-mean integer metric) with a brute-force arg-min:
//!  * `rgb_to_ansi` for all 2^24 colours x every palette of the palette set
//!    (VGA, WIN10, all-equal x3, pairwise duplicates, duplicated halves, corners,
//!    near-extremes, reversed VGA; thorough: + VGA with entry j overwritten by entry i
//!    for all 240 ordered pairs; VERIF_SEED != 0 adds two sampled palettes, reported
//!    separately);
//!  * `rgb_to_xterm` for all 2^24 colours;
//!  * every other conversion for all 256 indices / all 16 colours per palette, and
//!    the `color_to_*` wrappers on RGB inputs (lattice + all exact entries and their
//!    +-1 neighbours; thorough: all 2^24).
//! Every call runs under catch_unwind.

#[path = "../topk.rs"]
mod topk;

use anstyle::{Ansi256Color, AnsiColor, Color, RgbColor};
use anstyle_lossy::palette::Palette;
use rayon::prelude::*;
use serde_json::json;
use std::collections::BTreeSet;
use topk::*;
use vexplore::evidence::*;
use vmodel::color::{self, Rgb};

type Pal = [Rgb; 16];

const ANSI: [AnsiColor; 16] = [
    AnsiColor::Black,
    AnsiColor::Red,
    AnsiColor::Green,
    AnsiColor::Yellow,
    AnsiColor::Blue,
    AnsiColor::Magenta,
    AnsiColor::Cyan,
    AnsiColor::White,
    AnsiColor::BrightBlack,
    AnsiColor::BrightRed,
    AnsiColor::BrightGreen,
    AnsiColor::BrightYellow,
    AnsiColor::BrightBlue,
    AnsiColor::BrightMagenta,
    AnsiColor::BrightCyan,
    AnsiColor::BrightWhite,
];

/// position of an AnsiColor in the 16-colour palette, written out (no repo conversion used)
fn ansi_index(a: AnsiColor) -> usize {
    match a {
        AnsiColor::Black => 0,
        AnsiColor::Red => 1,
        AnsiColor::Green => 2,
        AnsiColor::Yellow => 3,
        AnsiColor::Blue => 4,
        AnsiColor::Magenta => 5,
        AnsiColor::Cyan => 6,
        AnsiColor::White => 7,
        AnsiColor::BrightBlack => 8,
        AnsiColor::BrightRed => 9,
        AnsiColor::BrightGreen => 10,
        AnsiColor::BrightYellow => 11,
        AnsiColor::BrightBlue => 12,
        AnsiColor::BrightMagenta => 13,
        AnsiColor::BrightCyan => 14,
        AnsiColor::BrightWhite => 15,
    }
}

fn real_palette(p: &Pal) -> Palette {
    let mut raw = [RgbColor(0, 0, 0); 16];
    for i in 0..16 {
        raw[i] = RgbColor(p[i].0, p[i].1, p[i].2);
    }
    Palette(raw)
}

fn rgb_of(c: RgbColor) -> Rgb {
    (c.0, c.1, c.2)
}
fn unpack(v: u32) -> Rgb {
    ((v >> 16) as u8, (v >> 8) as u8, v as u8)
}
fn pack(c: Rgb) -> u32 {
    ((c.0 as u32) << 16) | ((c.1 as u32) << 8) | c.2 as u32
}

/// What the statement demands for a target with candidate list `cands` (index order):
/// an entry exactly equal to the input (lowest index), otherwise minimal distance,
/// lowest index on ties.  Returns (index, exact?, number of candidates at the minimum).
fn expected_match(c: Rgb, cands: &[(usize, Rgb)]) -> (usize, bool, u32) {
    if let Some((i, _)) = cands.iter().find(|(_, k)| *k == c) {
        return (*i, true, 1);
    }
    let mut best = i64::MAX;
    let mut best_i = usize::MAX;
    let mut ties = 0;
    for &(i, k) in cands {
        let d = color::distance(c, k);
        if d < best {
            best = d;
            best_i = i;
            ties = 1;
        } else if d == best {
            ties += 1;
            if i < best_i {
                best_i = i;
            }
        }
    }
    (best_i, false, ties)
}

fn pal_cands(p: &Pal) -> Vec<(usize, Rgb)> {
    p.iter().copied().enumerate().collect()
}
fn xterm_cands() -> Vec<(usize, Rgb)> {
    (16..=255usize).map(|i| (i, color::xterm_fixed(i as u8).expect("fixed colour"))).collect()
}

#[derive(Clone, Copy, Debug, PartialEq, Eq, PartialOrd, Ord)]
enum Op {
    RgbToAnsi,
    RgbToXterm,
    ColorRgbToAnsi,
    ColorRgbToXterm,
    ColorRgbToRgb,
    XtermToRgb,
    XtermToAnsi,
    ColorIdxToRgb,
    ColorIdxToAnsi,
    ColorIdxToXterm,
    AnsiToRgb,
    PaletteGet,
    PaletteIndex,
    ColorAnsiToRgb,
    ColorAnsiToAnsi,
    ColorAnsiToXterm,
}

const ALL_OPS: [Op; 16] = [
    Op::RgbToAnsi,
    Op::RgbToXterm,
    Op::ColorRgbToAnsi,
    Op::ColorRgbToXterm,
    Op::ColorRgbToRgb,
    Op::XtermToRgb,
    Op::XtermToAnsi,
    Op::ColorIdxToRgb,
    Op::ColorIdxToAnsi,
    Op::ColorIdxToXterm,
    Op::AnsiToRgb,
    Op::PaletteGet,
    Op::PaletteIndex,
    Op::ColorAnsiToRgb,
    Op::ColorAnsiToAnsi,
    Op::ColorAnsiToXterm,
];

impl Op {
    fn name(self) -> &'static str {
        match self {
            Op::RgbToAnsi => "rgb_to_ansi",
            Op::RgbToXterm => "rgb_to_xterm",
            Op::ColorRgbToAnsi => "color_to_ansi(Rgb)",
            Op::ColorRgbToXterm => "color_to_xterm(Rgb)",
            Op::ColorRgbToRgb => "color_to_rgb(Rgb)",
            Op::XtermToRgb => "xterm_to_rgb",
            Op::XtermToAnsi => "xterm_to_ansi",
            Op::ColorIdxToRgb => "color_to_rgb(Ansi256)",
            Op::ColorIdxToAnsi => "color_to_ansi(Ansi256)",
            Op::ColorIdxToXterm => "color_to_xterm(Ansi256)",
            Op::AnsiToRgb => "ansi_to_rgb",
            Op::PaletteGet => "Palette::get",
            Op::PaletteIndex => "Palette[index]",
            Op::ColorAnsiToRgb => "color_to_rgb(Ansi)",
            Op::ColorAnsiToAnsi => "color_to_ansi(Ansi)",
            Op::ColorAnsiToXterm => "color_to_xterm(Ansi)",
        }
    }
    fn from_name(s: &str) -> Option<Op> {
        ALL_OPS.iter().copied().find(|o| o.name() == s)
    }
}

/// result of a conversion in a comparable form
#[derive(Clone, Copy, Debug, PartialEq, Eq)]
enum Val {
    Rgb(Rgb),
    Idx(usize),
}

#[derive(Clone, Copy, Default)]
struct Info {
    exact: bool,
    tie: bool,
    out: u32,
}

struct Env<'a> {
    pal: &'a Pal,
    real: Palette,
    pc: Vec<(usize, Rgb)>,
    xc: &'a [(usize, Rgb)],
}

impl<'a> Env<'a> {
    fn new(pal: &'a Pal, xc: &'a [(usize, Rgb)]) -> Self {
        Env { pal, real: real_palette(pal), pc: pal_cands(pal), xc }
    }
}

/// One conversion of one input: expectation from the statement, actual from the crate.
fn eval(op: Op, env: &Env, input: u32, verbose: bool) -> Result<Info, (&'static str, String)> {
    let mut info = Info::default();
    let rgb_in = unpack(input);
    let real_rgb = RgbColor(rgb_in.0, rgb_in.1, rgb_in.2);
    let idx_in = (input & 0xff) as u8;
    let ansi_in = ANSI[(input & 0xf) as usize];
    let (expect, clause): (Val, &'static str) = match op {
        Op::RgbToAnsi | Op::ColorRgbToAnsi => {
            let (i, exact, ties) = expected_match(rgb_in, &env.pc);
            info.exact = exact;
            info.tie = ties > 1;
            (Val::Idx(i), if exact { "exact-entry" } else if ties > 1 { "tie-lowest-index" } else { "nearest" })
        }
        Op::RgbToXterm | Op::ColorRgbToXterm => {
            let (i, exact, ties) = expected_match(rgb_in, env.xc);
            info.exact = exact;
            info.tie = ties > 1;
            (Val::Idx(i), if exact { "exact-entry" } else if ties > 1 { "tie-lowest-index" } else { "nearest" })
        }
        Op::ColorRgbToRgb => (Val::Rgb(rgb_in), "same-kind-unchanged"),
        Op::XtermToRgb | Op::ColorIdxToRgb => (Val::Rgb(color::xterm_to_rgb(idx_in, env.pal)), if idx_in < 16 { "low-16-are-the-palette" } else { "fixed-colour" }),
        Op::XtermToAnsi | Op::ColorIdxToAnsi => {
            if idx_in < 16 {
                (Val::Idx(idx_in as usize), "low-16-are-the-palette")
            } else {
                let c = color::xterm_fixed(idx_in).expect("fixed");
                let (i, exact, ties) = expected_match(c, &env.pc);
                info.exact = exact;
                info.tie = ties > 1;
                (Val::Idx(i), if exact { "exact-entry" } else if ties > 1 { "tie-lowest-index" } else { "nearest" })
            }
        }
        Op::ColorIdxToXterm => (Val::Idx(idx_in as usize), "same-kind-unchanged"),
        Op::AnsiToRgb | Op::PaletteGet | Op::PaletteIndex | Op::ColorAnsiToRgb => (Val::Rgb(env.pal[(input & 0xf) as usize]), "palette-lookup"),
        Op::ColorAnsiToAnsi => (Val::Idx((input & 0xf) as usize), "same-kind-unchanged"),
        Op::ColorAnsiToXterm => (Val::Idx((input & 0xf) as usize), "low-16-are-the-palette"),
    };
    let p = env.real;
    let actual = guarded(|| match op {
        Op::RgbToAnsi => Val::Idx(ansi_index(anstyle_lossy::rgb_to_ansi(real_rgb, p))),
        Op::ColorRgbToAnsi => Val::Idx(ansi_index(anstyle_lossy::color_to_ansi(Color::Rgb(real_rgb), p))),
        Op::RgbToXterm => Val::Idx(anstyle_lossy::rgb_to_xterm(real_rgb).0 as usize),
        Op::ColorRgbToXterm => Val::Idx(anstyle_lossy::color_to_xterm(Color::Rgb(real_rgb)).0 as usize),
        Op::ColorRgbToRgb => Val::Rgb(rgb_of(anstyle_lossy::color_to_rgb(Color::Rgb(real_rgb), p))),
        Op::XtermToRgb => Val::Rgb(rgb_of(anstyle_lossy::xterm_to_rgb(Ansi256Color(idx_in), p))),
        Op::ColorIdxToRgb => Val::Rgb(rgb_of(anstyle_lossy::color_to_rgb(Color::Ansi256(Ansi256Color(idx_in)), p))),
        Op::XtermToAnsi => Val::Idx(ansi_index(anstyle_lossy::xterm_to_ansi(Ansi256Color(idx_in), p))),
        Op::ColorIdxToAnsi => Val::Idx(ansi_index(anstyle_lossy::color_to_ansi(Color::Ansi256(Ansi256Color(idx_in)), p))),
        Op::ColorIdxToXterm => Val::Idx(anstyle_lossy::color_to_xterm(Color::Ansi256(Ansi256Color(idx_in))).0 as usize),
        Op::AnsiToRgb => Val::Rgb(rgb_of(anstyle_lossy::ansi_to_rgb(ansi_in, p))),
        Op::PaletteGet => Val::Rgb(rgb_of(Palette::from(p.0).get(ansi_in))),
        Op::PaletteIndex => Val::Rgb(rgb_of(p[ansi_in])),
        Op::ColorAnsiToRgb => Val::Rgb(rgb_of(anstyle_lossy::color_to_rgb(Color::Ansi(ansi_in), p))),
        Op::ColorAnsiToAnsi => Val::Idx(ansi_index(anstyle_lossy::color_to_ansi(Color::Ansi(ansi_in), p))),
        Op::ColorAnsiToXterm => Val::Idx(anstyle_lossy::color_to_xterm(Color::Ansi(ansi_in)).0 as usize),
    });
    let actual = match actual {
        Ok(a) => a,
        Err(m) => return Err(("panic", format!("{}({}) panicked: {m}", op.name(), show_input(op, input)))),
    };
    if actual != expect {
        if !verbose {
            return Err((clause, String::new()));
        }
        let detail = match (op, expect, actual) {
            (Op::RgbToAnsi | Op::ColorRgbToAnsi, Val::Idx(e), Val::Idx(a)) if a < 16 => {
                format!(" (distance to expected entry {:?} = {}, to returned entry {:?} = {})", env.pal[e], color::distance(rgb_in, env.pal[e]), env.pal[a], color::distance(rgb_in, env.pal[a]))
            }
            (Op::RgbToXterm | Op::ColorRgbToXterm, Val::Idx(e), Val::Idx(a)) => {
                let f = |i: usize| color::xterm_fixed(i as u8).map(|k| format!("{k:?} at distance {}", color::distance(rgb_in, k))).unwrap_or_else(|| "not a fixed colour (index < 16)".into());
                format!(" (expected entry {}; returned entry {})", f(e), f(a))
            }
            _ => String::new(),
        };
        return Err((clause, format!("{}({}) = {actual:?}, expected {expect:?}{detail}", op.name(), show_input(op, input))));
    }
    info.out = match actual {
        Val::Idx(i) => i as u32,
        Val::Rgb(c) => pack(c),
    };
    Ok(info)
}

fn show_input(op: Op, input: u32) -> String {
    match op {
        Op::RgbToAnsi | Op::RgbToXterm | Op::ColorRgbToAnsi | Op::ColorRgbToXterm | Op::ColorRgbToRgb => {
            let c = unpack(input);
            format!("rgb({},{},{})", c.0, c.1, c.2)
        }
        Op::XtermToRgb | Op::XtermToAnsi | Op::ColorIdxToRgb | Op::ColorIdxToAnsi | Op::ColorIdxToXterm => format!("index {}", input & 0xff),
        _ => format!("{:?}", ANSI[(input & 0xf) as usize]),
    }
}

fn pal_json(p: &Pal) -> serde_json::Value {
    json!(p.iter().map(|c| vec![c.0, c.1, c.2]).collect::<Vec<_>>())
}

fn finding(op: Op, palname: &str, pal: &Pal, input: u32, clause: &str, msg: String) -> Finding {
    let uses_palette = !matches!(op, Op::RgbToXterm | Op::ColorRgbToXterm | Op::ColorIdxToXterm | Op::ColorAnsiToXterm);
    Finding {
        system: op.name().to_string(),
        clause: clause.to_string(),
        case: if uses_palette { vec![format!("palette={palname}"), show_input(op, input)] } else { vec![show_input(op, input)] },
        message: msg,
        replay: json!({"kind": "convert", "op": op.name(), "palette": pal_json(pal), "input": input}),
    }
}

#[derive(Default, Clone)]
struct Stat {
    evals: u64,
    exact: u64,
    ties: u64,
    outputs: BTreeSet<u32>,
}

impl Stat {
    fn merge(mut self, o: Stat) -> Stat {
        self.evals += o.evals;
        self.exact += o.exact;
        self.ties += o.ties;
        self.outputs.extend(o.outputs);
        self
    }
    fn add(&mut self, i: Info, keep_output: bool) {
        self.evals += 1;
        self.exact += i.exact as u64;
        self.ties += i.tie as u64;
        if keep_output {
            self.outputs.insert(i.out);
        }
    }
}

/// at most this many violations per clause and block of inputs are recorded individually; the rest are only counted
const PER_BLOCK: usize = 16;

fn run_block(op: Op, palname: &str, env: &Env, inputs: impl Iterator<Item = u32>, col: &Collector) -> Stat {
    let keep = !matches!(op, Op::ColorRgbToRgb);
    let mut st = Stat::default();
    // per clause: (seen, recorded)
    let mut seen: Vec<(&'static str, u64, u64)> = vec![];
    for v in inputs {
        match eval(op, env, v, false) {
            Ok(i) => st.add(i, keep),
            Err((clause, _)) => {
                st.evals += 1;
                let i = match seen.iter().position(|(c, _, _)| *c == clause) {
                    Some(i) => i,
                    None => {
                        seen.push((clause, 0, 0));
                        seen.len() - 1
                    }
                };
                seen[i].1 += 1;
                if (seen[i].2 as usize) < PER_BLOCK {
                    seen[i].2 += 1;
                    let msg = eval(op, env, v, true).err().map(|(_, m)| m).unwrap_or_default();
                    col.push(finding(op, palname, env.pal, v, clause, msg));
                }
            }
        }
    }
    for (clause, n, recorded) in seen {
        col.add_count(op.name(), clause, n - recorded);
    }
    st
}

/// all 2^24 RGB inputs through `op`
fn sweep_rgb(op: Op, palname: &str, env: &Env, col: &Collector) -> Stat {
    (0..256u32 * 16)
        .into_par_iter()
        .map(|blk| {
            let lo = blk << 12;
            run_block(op, palname, env, lo..lo + (1 << 12), col)
        })
        .reduce(Stat::default, Stat::merge)
}

fn sweep_list(op: Op, palname: &str, env: &Env, inputs: &[u32], col: &Collector) -> Stat {
    inputs.par_chunks(4096).map(|ch| run_block(op, palname, env, ch.iter().copied(), col)).reduce(Stat::default, Stat::merge)
}

fn reversed(p: &Pal) -> Pal {
    let mut q = *p;
    q.reverse();
    q
}

fn palette_set(thorough: bool) -> Vec<(String, Pal)> {
    let vga = color::VGA;
    let win = color::WIN10;
    let mut v: Vec<(String, Pal)> = vec![("VGA".into(), vga), ("WIN10".into(), win)];
    v.push(("all-equal-grey128".into(), [(128, 128, 128); 16]));
    v.push(("all-black".into(), [(0, 0, 0); 16]));
    v.push(("all-white".into(), [(255, 255, 255); 16]));
    let mut pd = vga;
    for k in 0..8 {
        pd[2 * k + 1] = pd[2 * k];
    }
    v.push(("pairwise-duplicates(VGA even entries)".into(), pd));
    let mut hd = win;
    for i in 0..8 {
        hd[i + 8] = hd[i];
    }
    v.push(("duplicated-halves(WIN10 low half)".into(), hd));
    let mut corners = [(0u8, 0u8, 0u8); 16];
    for i in 0..16 {
        let k = i % 8;
        corners[i] = (if k & 4 != 0 { 255 } else { 0 }, if k & 2 != 0 { 255 } else { 0 }, if k & 1 != 0 { 255 } else { 0 });
    }
    v.push(("cube-corners-twice".into(), corners));
    v.push((
        "near-extremes".into(),
        [
            (0, 0, 0),
            (1, 0, 0),
            (0, 1, 0),
            (0, 0, 1),
            (255, 255, 255),
            (254, 255, 255),
            (255, 254, 255),
            (255, 255, 254),
            (0, 0, 0),
            (255, 255, 255),
            (255, 0, 0),
            (0, 255, 0),
            (0, 0, 255),
            (128, 128, 128),
            (127, 127, 127),
            (128, 127, 128),
        ],
    ));
    v.push(("reversed-VGA".into(), reversed(&vga)));
    // palettes that look like a stock palette to a sloppy comparison: every slot shares one or two channels with VGA;
    // White equal to BrightWhite while the other bright colours stay distinct; two slots of WIN10 swapped
    let mut near_vga = vga;
    for (i, e) in near_vga.iter_mut().enumerate() {
        match i % 3 {
            0 => e.0 = e.0.wrapping_add(85),
            1 => e.1 = e.1.wrapping_add(85),
            _ => e.2 = e.2.wrapping_add(85),
        }
    }
    v.push(("VGA with one channel of every slot changed".into(), near_vga));
    let mut three = vga;
    three[3] = (170, 170, 0);
    three[4] = (0, 85, 255);
    three[12] = (85, 170, 255);
    v.push(("VGA with Yellow, Blue, BrightBlue changed in one or two channels".into(), three));
    let mut ww = win;
    ww[7] = ww[15];
    v.push(("WIN10 with White := BrightWhite".into(), ww));
    let mut sw = win;
    sw.swap(1, 9);
    v.push(("WIN10 with Red and BrightRed swapped".into(), sw));
    // all sixteen entries huddled in one corner of the cube, all distinct (a "paper" / "midnight" theme): for inputs in
    // the opposite corner every candidate is almost as far away as the metric can measure
    let mut paper = [(0u8, 0u8, 0u8); 16];
    let mut midnight = [(0u8, 0u8, 0u8); 16];
    for i in 0..16u8 {
        paper[i as usize] = (255 - (i % 4) * 3, 255 - (i / 4) * 4, 250 + (i % 6));
        midnight[i as usize] = ((i % 4) * 3, (i / 4) * 4, 5 - (i % 6));
    }
    v.push(("paper(all entries near white, nearest-to-black last)".into(), reversed(&paper)));
    v.push(("midnight(all entries near black)".into(), midnight));
    if thorough {
        v.push(("reversed-WIN10".into(), reversed(&win)));
        for i in 0..16 {
            for j in 0..16 {
                if i != j {
                    let mut p = vga;
                    p[j] = p[i];
                    v.push((format!("VGA[{j}]:=VGA[{i}]"), p));
                }
            }
        }
    }
    v
}

fn splitmix(state: &mut u64) -> u64 {
    *state = state.wrapping_add(0x9e3779b97f4a7c15);
    let mut z = *state;
    z = (z ^ (z >> 30)).wrapping_mul(0xbf58476d1ce4e5b9);
    z = (z ^ (z >> 27)).wrapping_mul(0x94d049bb133111eb);
    z ^ (z >> 31)
}

/// RGB inputs for the wrapper functions in the quick tier: lattice, every palette entry,
/// every fixed xterm colour, and the +-1 neighbours of all of those entries
fn rgb_probe_set(pal: &Pal, xc: &[(usize, Rgb)]) -> Vec<u32> {
    let mut s: BTreeSet<u32> = BTreeSet::new();
    for r in (0..256u32).step_by(5) {
        for g in (0..256u32).step_by(5) {
            for b in (0..256u32).step_by(5) {
                s.insert((r << 16) | (g << 8) | b);
            }
        }
    }
    let entries: Vec<Rgb> = pal.iter().copied().chain(xc.iter().map(|(_, c)| *c)).collect();
    for c in entries {
        for dr in -1i32..=1 {
            for dg in -1i32..=1 {
                for db in -1i32..=1 {
                    let (r, g, b) = (c.0 as i32 + dr, c.1 as i32 + dg, c.2 as i32 + db);
                    if (0..256).contains(&r) && (0..256).contains(&g) && (0..256).contains(&b) {
                        s.insert(((r as u32) << 16) | ((g as u32) << 8) | b as u32);
                    }
                }
            }
        }
    }
    s.into_iter().collect()
}

fn main_check(ctx: &Ctx) -> Outcome {
    quiet_panics();
    let mut out = Outcome::default();
    // the functions under test must not consult the environment: a few representative inputs under a cleared and two
    // hostile settings of the colour-related variables (before any worker thread exists)
    fn env_digest() -> Vec<String> {
        { let pal = anstyle_lossy::palette::VGA; [(0u8, 0u8, 0u8), (255, 255, 255), (1, 22, 39), (200, 30, 30), (128, 128, 128), (0, 62, 60), (248, 248, 248)].iter().map(|&(r, g, b)| format!("{:?} {:?}", anstyle_lossy::rgb_to_xterm(RgbColor(r, g, b)), anstyle_lossy::rgb_to_ansi(RgbColor(r, g, b), pal))).chain((0..=255u8).step_by(17).map(|i| format!("{:?} {:?}", anstyle_lossy::xterm_to_rgb(Ansi256Color(i), pal), anstyle_lossy::xterm_to_ansi(Ansi256Color(i), pal)))).collect::<Vec<String>>() }
    }
    if let Err(m) = vexplore::util::env_independence(env_digest) {
        out.findings.push(Finding {
            system: "anstyle_lossy conversions".into(),
            clause: "environment-dependence".into(),
            case: vec!["representative inputs".into()],
            message: m.chars().take(900).collect(),
            replay: serde_json::json!({"kind":"env"}),
        });
    }
    let quick = ctx.quick();
    let col = Collector::new(3);
    let xc = xterm_cands();
    let mut total = Stat::default();
    let mut nontrivial: u64 = 0;

    // machinery self-check: the local arg-min agrees with vmodel's on the entries and a lattice
    for v in rgb_probe_set(&color::VGA, &xc) {
        let c = unpack(v);
        assert_eq!(expected_match(c, &xc).0, color::rgb_to_xterm(c), "oracle self-check (xterm) at {c:?}");
        assert_eq!(expected_match(c, &pal_cands(&color::WIN10)).0, color::rgb_to_ansi(c, &color::WIN10), "oracle self-check (ansi) at {c:?}");
    }

    // rgb_to_xterm, all 2^24
    {
        let t = std::time::Instant::now();
        let env = Env::new(&color::VGA, &xc);
        let st = sweep_rgb(Op::RgbToXterm, "-", &env, &col);
        out.push_part(json!({"function":"rgb_to_xterm","inputs":st.evals,"domain":"all 2^24 RGB","exact_entry_inputs":st.exact,"inputs_with_tied_minimum":st.ties,"distinct_results":st.outputs.len(),"wall_s":t.elapsed().as_secs_f64()}));
        nontrivial += st.outputs.len() as u64;
        total = total.merge(Stat { outputs: BTreeSet::new(), ..st });
    }

    // rgb_to_ansi, all 2^24 per palette
    let pals = palette_set(!quick);
    let mut per_palette = vec![];
    for (name, pal) in &pals {
        let t = std::time::Instant::now();
        let env = Env::new(pal, &xc);
        let st = sweep_rgb(Op::RgbToAnsi, name, &env, &col);
        per_palette.push(json!({"palette":name,"inputs":st.evals,"exact_entry_inputs":st.exact,"inputs_with_tied_minimum":st.ties,"distinct_results":st.outputs.len(),"wall_s":(t.elapsed().as_secs_f64()*1000.0).round()/1000.0}));
        nontrivial += st.outputs.len() as u64;
        total = total.merge(Stat { outputs: BTreeSet::new(), ..st });
    }
    out.push_part(json!({"function":"rgb_to_ansi","domain":"all 2^24 RGB per palette","palettes":pals.len(),"per_palette":per_palette}));

    // supplementary sampled palettes (never the deciding step)
    if ctx.seed != 0 {
        let mut s = ctx.seed;
        let mut extra = vec![];
        for k in 0..2 {
            let mut p = [(0u8, 0u8, 0u8); 16];
            for e in p.iter_mut() {
                let v = splitmix(&mut s);
                *e = ((v >> 16) as u8, (v >> 8) as u8, v as u8);
            }
            let name = format!("seeded-{}-{k}", ctx.seed);
            let env = Env::new(&p, &xc);
            let st = sweep_rgb(Op::RgbToAnsi, &name, &env, &col);
            extra.push(json!({"palette":pal_json(&p),"inputs":st.evals,"inputs_with_tied_minimum":st.ties}));
            total = total.merge(Stat { outputs: BTreeSet::new(), ..st });
        }
        out.set("supplementary_sampled_palettes", json!(extra));
    }

    // the remaining conversions: all 256 indices, all 16 colours, per palette
    {
        let mut small = Stat::default();
        let idx: Vec<u32> = (0..256).collect();
        let ans: Vec<u32> = (0..16).collect();
        for (name, pal) in &pals {
            let env = Env::new(pal, &xc);
            for op in [Op::XtermToRgb, Op::XtermToAnsi, Op::ColorIdxToRgb, Op::ColorIdxToAnsi, Op::ColorIdxToXterm] {
                small = small.merge(sweep_list(op, name, &env, &idx, &col));
            }
            for op in [Op::AnsiToRgb, Op::PaletteGet, Op::PaletteIndex, Op::ColorAnsiToRgb, Op::ColorAnsiToAnsi, Op::ColorAnsiToXterm] {
                small = small.merge(sweep_list(op, name, &env, &ans, &col));
            }
        }
        out.push_part(json!({"functions":"xterm_to_rgb, xterm_to_ansi, color_to_{rgb,ansi,xterm}(Ansi256) for all 256 indices; ansi_to_rgb, Palette::get, Palette[..], color_to_{rgb,ansi,xterm}(Ansi) for all 16 colours","palettes":pals.len(),"inputs":small.evals,"exact_entry_inputs":small.exact,"inputs_with_tied_minimum":small.ties,"distinct_results":small.outputs.len()}));
        nontrivial += small.outputs.len() as u64;
        total = total.merge(Stat { outputs: BTreeSet::new(), ..small });
    }

    // color_to_* on RGB inputs
    {
        let mut w = Stat::default();
        let mut desc = vec![];
        for (pi, (name, pal)) in pals.iter().enumerate() {
            let env = Env::new(pal, &xc);
            let full = !quick && pi < 2;
            if full {
                for op in [Op::ColorRgbToAnsi, Op::ColorRgbToRgb] {
                    w = w.merge(sweep_rgb(op, name, &env, &col));
                }
                if pi == 0 {
                    w = w.merge(sweep_rgb(Op::ColorRgbToXterm, name, &env, &col));
                }
                desc.push(json!({"palette":name,"domain":"all 2^24 RGB"}));
            } else if quick || pi < 12 {
                let probes = rgb_probe_set(pal, &xc);
                for op in [Op::ColorRgbToAnsi, Op::ColorRgbToRgb] {
                    w = w.merge(sweep_list(op, name, &env, &probes, &col));
                }
                if pi == 0 {
                    w = w.merge(sweep_list(Op::ColorRgbToXterm, name, &env, &probes, &col));
                }
                desc.push(json!({"palette":name,"domain":"lattice step 5 + all palette/xterm entries and their +-1 neighbours","inputs_per_function":probes.len()}));
            }
        }
        out.push_part(json!({"functions":"color_to_ansi(Rgb), color_to_rgb(Rgb) per palette; color_to_xterm(Rgb)","inputs":w.evals,"per_palette":desc}));
        total = total.merge(Stat { outputs: BTreeSet::new(), ..w });
    }

    let (findings, nviol, per_clause) = col.finish();
    out.findings.extend(findings);
    out.set("violating_cases_total", json!(nviol));
    out.set("violating_cases_by_part_and_clause", per_clause);
    out.set("evaluations", json!(total.evals));
    out.set("distinct_nontrivial", json!(nontrivial));
    out.set("exact_entry_inputs", json!(total.exact));
    out.set("inputs_with_tied_minimum", json!(total.ties));
    out.set("rule", json!("evaluations = (function, palette, input) conversions executed on the real crate and compared with the brute-force reference; distinct_nontrivial = sum over the sweeps of the distinct results returned (every palette entry / every fixed colour that is somebody's nearest); inputs_with_tied_minimum = inputs whose minimal distance is attained by >= 2 candidates (the tie-break clause is exercised)"));
    out.set("exhaustive", json!(true));
    out.set("explanation", json!("all 2^24 RGB values for rgb_to_xterm and for rgb_to_ansi under every listed palette; all 256 indices and all 16 colours for the other conversions under every listed palette"));
    {
        let env = Env::new(&color::VGA, &xc);
        for (op, v) in [(Op::RgbToAnsi, pack((170, 85, 0))), (Op::RgbToAnsi, pack((100, 100, 100))), (Op::RgbToXterm, pack((1, 2, 3))), (Op::XtermToAnsi, 196), (Op::XtermToRgb, 3)] {
            let r = eval(op, &env, v, true);
            out.push_sample(json!({"function": op.name(), "palette": "VGA", "input": show_input(op, v), "result": r.as_ref().map(|i| i.out).ok(), "exact_entry": r.as_ref().map(|i| i.exact).ok()}));
        }
    }
    out.assume("the metric is the crate's stated integer red-mean form (1024+rsum)dr^2 + 1024 dg^2 + (1534-rsum)db^2 (vmodel::color::distance, i64); the statement fixes no weights");
    out.assume("AnsiColor <-> palette position is the declaration order Black..BrightWhite; Palette::default() is not part of the statement");
    out.assume("user palettes are represented by the listed constructed palettes (duplicates, all-equal, extremes, permutations); seeded palettes are supplementary only");
    out
}

fn replay(v: &serde_json::Value) -> Result<(), String> {
    quiet_panics();
    match v["kind"].as_str().unwrap_or("") {
        "convert" => {
            let op = Op::from_name(v["op"].as_str().ok_or("missing op")?).ok_or("unknown op")?;
            let mut pal = [(0u8, 0u8, 0u8); 16];
            let arr = v["palette"].as_array().ok_or("missing palette")?;
            if arr.len() != 16 {
                return Err("palette must have 16 entries".into());
            }
            for (i, e) in arr.iter().enumerate() {
                let c: Vec<u8> = e.as_array().ok_or("bad entry")?.iter().map(|x| x.as_u64().unwrap_or(0) as u8).collect();
                pal[i] = (c[0], c[1], c[2]);
            }
            let xc = xterm_cands();
            let env = Env::new(&pal, &xc);
            eval(op, &env, v["input"].as_u64().ok_or("missing input")? as u32, true).map(|_| ()).map_err(|(c, m)| format!("{c}: {m}"))
        }
        "env" => Err("environment-dependence findings are replayed by re-running the check".into()),
        k => Err(format!("unknown replay kind {k}")),
    }
}

fn main() {
    run_check("C10", "exploration", main_check, replay);
}
