//! C15 - roff rendering preserves text, colours and font per segment.
//!
//! E3 strictly inside the stated domain: texts made of segments, each introduced by ONE
//! self-contained sequence `CSI 0;<effects>;<fg>;<bg> m` (reset first; effects a subset of
//! 1,2,3,4,5,7,8,9 without bold+dim together; 16-colour codes; no zero padding).
//!   (S) one segment: all 17 x 17 colour pairs x all effect subsets x 2 parameter orders
//!       x a set of texts (thorough: every text of <= 3 characters);
//!   (T) every text of <= n characters over {a . ' \ - space LF} x representative styles;
//!   (D) every document of <= k segments over representative styles x short texts.
//! Oracle: `vmodel::roff` reads `to_roff(..).to_roff()` back into blocks (colour requests,
//! un-escaped text, font per character) and compares them with the M-VT/M-SGR segments.

use rayon::prelude::*;
use serde_json::json;
use std::collections::{HashMap, HashSet};
use std::sync::atomic::{AtomicU64, Ordering};
use std::sync::Mutex;
use vexplore::evidence::*;
use vexplore::util::*;
use vmodel::roff::{self, Font};
use vmodel::sgr::{Col, Sgr};
use vmodel::vt::{Ev, Vt};

const SYSTEM: &str = "anstyle_roff::to_roff(..).to_roff()";
const TEXT_ALPHABET: [&str; 7] = ["a", ".", "'", "\\", "-", " ", "\n"];
const EFFECT_CODES: [u8; 8] = [1, 2, 3, 4, 5, 7, 8, 9];
const COLOUR_NAMES: [&str; 8] = ["black", "red", "green", "yellow", "blue", "magenta", "cyan", "white"];

// ---------------------------------------------------------------- generator

/// style of one segment: effect subset (bit i = EFFECT_CODES[i]), fg / bg index (0 = unset, 1..=16 = colour i-1)
#[derive(Clone, Copy, Debug, PartialEq, Eq, Hash)]
struct SegStyle {
    effects: u8,
    fg: u8,
    bg: u8,
}

impl SegStyle {
    fn in_domain(&self) -> bool {
        self.effects & 0b11 != 0b11 // bold and dim are not combined
    }
    fn codes(&self, reversed: bool) -> Vec<u16> {
        let mut v: Vec<u16> = vec![];
        for (i, c) in EFFECT_CODES.iter().enumerate() {
            if self.effects & (1 << i) != 0 {
                v.push(*c as u16);
            }
        }
        if self.fg > 0 {
            let i = (self.fg - 1) as u16;
            v.push(if i < 8 { 30 + i } else { 90 + i - 8 });
        }
        if self.bg > 0 {
            let i = (self.bg - 1) as u16;
            v.push(if i < 8 { 40 + i } else { 100 + i - 8 });
        }
        if reversed {
            v.reverse();
        }
        v.insert(0, 0);
        v
    }
    fn sequence(&self, reversed: bool) -> String {
        let c: Vec<String> = self.codes(reversed).iter().map(|c| c.to_string()).collect();
        format!("\x1b[{}m", c.join(";"))
    }
}

fn all_styles() -> Vec<SegStyle> {
    let mut v = vec![];
    for effects in 0..=255u8 {
        for fg in 0..=16 {
            for bg in 0..=16 {
                let s = SegStyle { effects, fg, bg };
                if s.in_domain() {
                    v.push(s);
                }
            }
        }
    }
    v
}

fn texts_upto(n: usize) -> Vec<String> {
    strings_upto(TEXT_ALPHABET.len(), n).map(|ix| ix.iter().map(|&i| TEXT_ALPHABET[i]).collect()).collect()
}

/// representative styles: plain, bold, italic, bold+italic, dim+italic, normal fg, bright fg,
/// bright fg + italic, bright bg only, bright bg + italic, underline+invert with colours
fn rep_styles() -> Vec<SegStyle> {
    vec![
        SegStyle { effects: 0, fg: 0, bg: 0 },
        SegStyle { effects: 0b001, fg: 0, bg: 0 },
        SegStyle { effects: 0b100, fg: 0, bg: 0 },
        SegStyle { effects: 0, fg: 10, bg: 0 },
        SegStyle { effects: 0b100, fg: 2, bg: 13 },
        SegStyle { effects: 0b101, fg: 0, bg: 5 },
        SegStyle { effects: 0b110, fg: 4, bg: 0 },
        SegStyle { effects: 0b100, fg: 16, bg: 1 },
        SegStyle { effects: 0, fg: 0, bg: 16 },
        SegStyle { effects: 0b0010_1000, fg: 8, bg: 8 },
        SegStyle { effects: 0b1101_0000, fg: 9, bg: 9 },
        SegStyle { effects: 0b010, fg: 1, bg: 17 - 1 },
    ]
}

// ---------------------------------------------------------------- model

#[derive(Clone, Debug, PartialEq, Eq)]
struct ExpSeg {
    fg: Col,
    bg: Col,
    font: Font,
    text: String,
}

/// segments of visible text between SGR sequences (M-VT events, M-SGR state), empty ones dropped
fn model_segments(input: &[u8]) -> Vec<ExpSeg> {
    let mut vt = Vt::default();
    let mut s = Sgr::default();
    let mut out: Vec<ExpSeg> = vec![];
    let mut cur = String::new();
    let seg = |s: &Sgr, text: String| {
        let bright_fg = matches!(s.fg, Col::Ansi(i) if i >= 8);
        let font = if s.bold || bright_fg {
            Font::Bold
        } else if s.italic {
            Font::Italic
        } else {
            Font::Roman
        };
        ExpSeg { fg: s.fg, bg: s.bg, font, text }
    };
    for &b in input {
        for ev in vt.advance(b) {
            match ev {
                Ev::Print(c) => cur.push(c),
                Ev::Execute(b) if matches!(b, 0x09 | 0x0a | 0x0c | 0x0d) => cur.push(b as char),
                Ev::Csi { params, inter, ignore, byte: b'm' } if inter.is_empty() && !ignore => {
                    if !cur.is_empty() {
                        out.push(seg(&s, std::mem::take(&mut cur)));
                    }
                    let well_formed = s.apply(&params);
                    debug_assert!(well_formed, "the generator only emits well-formed SGR sequences");
                }
                _ => {}
            }
        }
    }
    if !cur.is_empty() {
        out.push(seg(&s, cur));
    }
    out
}

/// how the statement wants a colour to be named
#[derive(Clone, Debug, PartialEq, Eq)]
enum ColourSpec {
    Name(String),
    Hex(String),
}

fn expected_colour(c: Col) -> Option<ColourSpec> {
    match c {
        Col::Default => Some(ColourSpec::Name("default".into())),
        Col::Ansi(i) => Some(ColourSpec::Name(COLOUR_NAMES[(i % 8) as usize].into())),
        Col::Rgb(r, g, b) => Some(ColourSpec::Hex(format!("#{r:02x}{g:02x}{b:02x}"))),
        Col::Idx(_) => None, // outside the stated domain
    }
}

// ---------------------------------------------------------------- oracle

type Viol = (&'static str, String);

fn check_roff(input: &[u8], doc: &str) -> Result<(), Viol> {
    let expected = model_segments(input);
    let lines = roff::read(doc).map_err(|m| ("roff-unreadable", format!("{m} (document {doc:?})")))?;
    let blocks = roff::blocks(&lines);
    // "each preceded by a foreground and a background colour request naming that segment's colours" is read as: the
    // most recent request of each kind before the segment's text names its colour.  A document that does not repeat
    // a request whose colour is already in force satisfies the statement, so several consecutive segments may share
    // one run of text lines; a segment starts on a new text line.
    let mut defined: HashMap<String, String> = HashMap::new();
    let mut in_force: [Option<String>; 2] = [None, None];
    let mut ei = 0usize;
    let doc_texts = || blocks.iter().filter(|b| b.has_text).map(|b| b.text_string()).collect::<Vec<_>>();
    for b in &blocks {
        for (name, args) in &b.requests {
            match (name.as_str(), args.as_slice()) {
                ("defcolor", [n, scheme, value]) if scheme == "rgb" => {
                    defined.insert(n.clone(), value.to_ascii_lowercase());
                }
                ("gcolor", [c]) => in_force[0] = Some(c.clone()),
                ("fcolor", [c]) => in_force[1] = Some(c.clone()),
                _ => {
                    return Err((
                        "unexpected-request",
                        format!("the document contains a control line with request {name:?} {args:?}, which is not one of the colour requests (document {doc:?})"),
                    ))
                }
            }
        }
        if !b.has_text {
            continue;
        }
        let resolve = |c: &Option<String>| c.as_ref().map(|c| match defined.get(c) {
            Some(hex) => ColourSpec::Hex(hex.clone()),
            None => ColourSpec::Name(c.clone()),
        });
        let (fg, bg) = (resolve(&in_force[0]), resolve(&in_force[1]));
        let mut pos = 0usize;
        loop {
            let Some(e) = expected.get(ei) else {
                return Err((
                    "segment-count",
                    format!(
                        "the input has {} non-empty segment(s) {:?}, the document carries more text: {:?} (document {doc:?})",
                        expected.len(),
                        expected.iter().map(|e| e.text.as_str()).collect::<Vec<_>>(),
                        doc_texts()
                    ),
                ));
            };
            let n = e.text.chars().count();
            let end = (pos + n).min(b.text.len());
            let got: String = b.text[pos..end].iter().map(|&(_, c)| c).collect();
            if got != e.text {
                return Err(("text-mismatch", format!("segment {ei}: the document carries {got:?}, the segment text is {:?} (document {doc:?})", e.text)));
            }
            for (what, got, want) in [("foreground", &fg, expected_colour(e.fg)), ("background", &bg, expected_colour(e.bg))] {
                let Some(want) = want else { continue };
                match got {
                    None => {
                        return Err((
                            if what == "foreground" { "foreground-request-missing" } else { "background-request-missing" },
                            format!("segment {ei} {:?} is not preceded by a {what} colour request (document {doc:?})", e.text),
                        ))
                    }
                    Some(g) if *g != want => {
                        return Err((
                            if what == "foreground" { "foreground-colour" } else { "background-colour" },
                            format!("segment {ei} {:?}: the {what} request in force names {g:?}, the segment's colour is {want:?} (document {doc:?})", e.text),
                        ))
                    }
                    _ => {}
                }
            }
            for (k, &(f, c)) in b.text[pos..end].iter().enumerate() {
                if c != '\n' && f != e.font {
                    return Err((
                        "font",
                        format!("segment {ei} {:?} char {k} {c:?} is set in {f:?}, the segment style needs {:?} (document {doc:?})", e.text, e.font),
                    ));
                }
            }
            pos = end;
            ei += 1;
            if pos == b.text.len() {
                break;
            }
            // more text lines before the next control line: the next segment must start on a new line
            if b.text[pos].1 != '\n' {
                return Err(("text-mismatch", format!("segment {}: the document continues with {:?} on the same line (document {doc:?})", ei - 1, b.text[pos..].iter().map(|&(_, c)| c).collect::<String>())));
            }
            pos += 1;
        }
    }
    if ei != expected.len() {
        return Err((
            "segment-count",
            format!(
                "the input has {} non-empty segment(s) {:?}, the document carries only {ei} of them: {:?} (document {doc:?})",
                expected.len(),
                expected.iter().map(|e| e.text.as_str()).collect::<Vec<_>>(),
                doc_texts()
            ),
        ));
    }
    Ok(())
}

fn render(input: &[u8]) -> Result<String, Viol> {
    let s = std::str::from_utf8(input).expect("generated inputs are UTF-8").to_string();
    std::panic::catch_unwind(move || anstyle_roff::to_roff(&s).to_roff()).map_err(|p| {
        let m = p.downcast_ref::<String>().cloned().or_else(|| p.downcast_ref::<&str>().map(|s| s.to_string())).unwrap_or_default();
        ("panic", format!("to_roff panicked: {m}"))
    })
}

fn run_case(input: &[u8]) -> (Result<(), Viol>, u64) {
    match render(input) {
        Err(v) => (Err(v), 0),
        Ok(doc) => (check_roff(input, &doc), hash_of(&doc)),
    }
}

// ---------------------------------------------------------------- driver

struct Acc {
    evals: AtomicU64,
    distinct: Mutex<HashSet<u64>>,
    viol: Mutex<Vec<Finding>>,
    clause_counts: Mutex<HashMap<&'static str, u64>>,
}

impl Acc {
    fn case(&self, part: &str, input: &[u8], describe: impl Fn() -> Vec<String>, local: &mut Vec<u64>) {
        self.evals.fetch_add(1, Ordering::Relaxed);
        let (res, h) = run_case(input);
        local.push(h);
        if let Err((clause, msg)) = res {
            *self.clause_counts.lock().unwrap().entry(clause).or_insert(0) += 1;
            let mut v = self.viol.lock().unwrap();
            v.push(Finding {
                system: SYSTEM.into(),
                clause: clause.into(),
                case: describe(),
                message: msg,
                replay: json!({"kind":"roff","input":hex(input),"part":part}),
            });
            if v.len() > 20_000 {
                v.sort_by_key(order_key);
                v.truncate(5_000);
            }
        }
    }
    fn flush(&self, local: Vec<u64>) {
        self.distinct.lock().unwrap().extend(local);
    }
}

fn order_key(f: &Finding) -> (usize, String) {
    (f.replay["input"].as_str().map_or(0, |s| s.len()), f.key())
}

fn describe(input: &[u8]) -> Vec<String> {
    vec![show(input)]
}

fn main_check(ctx: &Ctx) -> Outcome {
    let mut out = Outcome::default();
    // the functions under test must not consult the environment: a few representative inputs under a cleared and two
    // hostile settings of the colour-related variables (before any worker thread exists)
    fn env_digest() -> Vec<String> {
        ["\x1b[0;31;44mtest", "\x1b[0mplain", "\x1b[0;1ma\x1b[0;3;92mb", "\x1b[0m.x\n'y\\z-w", "\x1b[0;7;35;46mq r"].iter().map(|t| anstyle_roff::to_roff(t).to_roff()).collect::<Vec<String>>()
    }
    if let Err(m) = vexplore::util::env_independence(env_digest) {
        out.findings.push(Finding {
            system: "anstyle_roff::to_roff".into(),
            clause: "environment-dependence".into(),
            case: vec!["representative inputs".into()],
            message: m.chars().take(900).collect(),
            replay: serde_json::json!({"kind":"env"}),
        });
    }
    let quick = ctx.quick();
    let acc = Acc { evals: AtomicU64::new(0), distinct: Default::default(), viol: Default::default(), clause_counts: Default::default() };

    // (S) single segment, every style
    let styles = all_styles();
    let s_texts: Vec<String> = if quick {
        ["a", ".a", "'a", "\\-", "a\n.", " \n'", "-"].iter().map(|s| s.to_string()).collect()
    } else {
        texts_upto(3).into_iter().filter(|t| !t.is_empty()).collect()
    };
    let s_texts_more: Vec<String> = if quick { texts_upto(2).into_iter().filter(|t| !t.is_empty()).collect() } else { vec![] };
    styles.par_iter().for_each(|st| {
        let mut local = vec![];
        for rev in [false, true] {
            let seq = st.sequence(rev);
            for t in s_texts.iter().chain(s_texts_more.iter().filter(|_| !rev)) {
                let input = format!("{seq}{t}");
                acc.case("single-segment", input.as_bytes(), || describe(input.as_bytes()), &mut local);
            }
        }
        acc.flush(local);
    });
    out.push_part(json!({"part":"single segment","styles":styles.len(),"colour_pairs":17*17,"effect_subsets":styles.len()/(17*17),
                         "parameter_orders":2,"texts":s_texts.len(),"further_texts_first_order_only":s_texts_more.len()}));

    // (T) every text of <= n characters x representative styles
    let reps = rep_styles();
    let n_text = if quick { 3 } else { 5 };
    let texts = texts_upto(n_text);
    texts.par_iter().for_each(|t| {
        let mut local = vec![];
        for st in &reps {
            let input = format!("{}{t}", st.sequence(false));
            acc.case("texts", input.as_bytes(), || describe(input.as_bytes()), &mut local);
        }
        acc.flush(local);
    });
    out.push_part(json!({"part":"texts x representative styles","max_chars":n_text,"texts":texts.len(),"styles":reps.len()}));

    // (A) every printable ASCII character (and TAB) alone, at the start of a line, inline and at the end, in four
    //     styles: escaping must not depend on the character being in the text alphabet above.  (Other control
    //     characters are outside the statement's domain: the delegated segmenter keeps them as text.)
    {
        let styles4 = [reps[0], reps[1], reps[4], reps[10]];
        let chars: Vec<u8> = (0x20u8..0x7f).chain([0x09]).collect();
        chars.par_iter().for_each(|&c| {
            let c = c as char;
            let mut local = vec![];
            for t in [format!("{c}"), format!("{c}x"), format!("x{c}"), format!("x{c}y"), format!("x\n{c}y"), format!("{c}{c}"), format!("x\n{c}")] {
                for st in &styles4 {
                    let input = format!("{}{t}", st.sequence(false));
                    acc.case("ascii", input.as_bytes(), || describe(input.as_bytes()), &mut local);
                }
            }
            acc.flush(local);
        });
        out.push_part(json!({"part":"every printable ASCII character (and TAB) in 7 positions x 4 styles","characters":chars.len()}));
        // non-ASCII characters (2-, 3-, 4-byte; code points whose low byte is a control code) next to ASCII text and
        // next to a CRLF line end
        let wide: Vec<char> = vec!['\u{e9}', '\u{2019}', '\u{2014}', '\u{2713}', '\u{2500}', '\u{4e16}', '\u{1f600}', '\u{11f}', '\u{10d}'];
        wide.par_iter().for_each(|&c| {
            let mut local = vec![];
            for t in [format!("{c}"), format!("{c}x"), format!("x{c}y"), format!("It{c}s done\r\nnext{c}"), format!("{c}\r\n{c}"), format!("a\r\n.{c}")] {
                for st in &styles4 {
                    let input = format!("{}{t}", st.sequence(false));
                    acc.case("non-ascii", input.as_bytes(), || describe(input.as_bytes()), &mut local);
                }
            }
            acc.flush(local);
        });
        out.push_part(json!({"part":"non-ASCII characters in 6 texts (with CRLF line ends) x 4 styles","characters":wide.len()}));
    }

    // (L) long segments (around 1 / 4 / 8 / 64 KiB) without a line break, made of ASCII, of 2-, 3- and 4-byte characters,
    //     and of ASCII with one multi-byte character at every offset near the 4 KiB mark; and very many short segments
    {
        let styles4 = [reps[0], reps[1], reps[4], reps[10]];
        let mut texts: Vec<String> = vec![];
        for n in [1000usize, 4095, 4096, 4097, 8193, 70000] {
            texts.push("x".repeat(n));
            for c in ['\u{e9}', '\u{4e16}', '\u{1f600}'] {
                texts.push(format!("x{}", c.to_string().repeat(n / c.len_utf8())));
                texts.push(format!("{}\ny", c.to_string().repeat(n / c.len_utf8())));
            }
        }
        for off in 4090..=4100usize {
            texts.push(format!("{}\u{e9}{}", "a".repeat(off), "b".repeat(50)));
        }
        texts.par_iter().for_each(|t| {
            let mut local = vec![];
            for st in &styles4 {
                let input = format!("{}{t}", st.sequence(false));
                acc.case("long segments", input.as_bytes(), || vec![format!("{} bytes starting {:?}", input.len(), input.chars().take(24).collect::<String>())], &mut local);
            }
            acc.flush(local);
        });
        // many short segments
        for n in [100usize, 1000, 5000] {
            let mut input = String::new();
            for i in 0..n {
                input.push_str(&styles4[i % 4].sequence(false));
                input.push_str(["a", "bc", ".d", "e\nf"][i % 4]);
            }
            let mut local = vec![];
            acc.case("long segments", input.as_bytes(), || vec![format!("{n} short segments")], &mut local);
            acc.flush(local);
        }
        out.push_part(json!({"part":"long segments and many short segments","texts":texts.len(),"styles":4}));
    }

    // (D) documents of <= k segments
    let (k, d_styles, d_len) = if quick { (2usize, 8usize, 2usize) } else { (3, 6, 2) };
    let d_texts = texts_upto(d_len);
    let seg_alpha: Vec<String> = reps[..d_styles].iter().flat_map(|st| d_texts.iter().map(move |t| format!("{}{t}", st.sequence(false)))).collect();
    let total: u64 = (0..=k).map(|l| (seg_alpha.len() as u64).pow(l as u32)).sum();
    (0..total)
        .into_par_iter()
        .fold(Vec::new, |mut local: Vec<u64>, mut idx| {
            let mut len = 0usize;
            loop {
                let c = (seg_alpha.len() as u64).pow(len as u32);
                if idx < c {
                    break;
                }
                idx -= c;
                len += 1;
            }
            let mut parts = vec![""; len];
            for slot in (0..len).rev() {
                parts[slot] = seg_alpha[(idx % seg_alpha.len() as u64) as usize].as_str();
                idx /= seg_alpha.len() as u64;
            }
            let input: String = parts.concat();
            acc.case("documents", input.as_bytes(), || describe(input.as_bytes()), &mut local);
            if local.len() > 4096 {
                acc.flush(std::mem::take(&mut local));
            }
            local
        })
        .for_each(|local| acc.flush(local));
    out.push_part(json!({"part":"documents","max_segments":k,"segment_alphabet":seg_alpha.len(),"styles":d_styles,"segment_texts":d_texts.len(),"documents":total}));

    let mut v = acc.viol.into_inner().unwrap();
    v.sort_by_key(order_key);
    let total_v = v.len();
    let mut kept: Vec<Finding> = vec![];
    for f in v {
        // at most 25 (shortest) cases are listed per violated clause, the rest is counted
        if kept.len() < 200 && kept.iter().filter(|k| k.clause == f.clause).count() < 25 {
            kept.push(f);
        }
    }
    out.set("violating_cases_not_listed_individually", json!(total_v - kept.len()));
    out.findings.extend(kept);
    let cc = acc.clause_counts.into_inner().unwrap();
    out.set("violations_by_clause", json!(cc.iter().map(|(k, v)| (k.to_string(), *v)).collect::<HashMap<String, u64>>()));
    out.set("evaluations", json!(acc.evals.load(Ordering::Relaxed)));
    out.set("distinct_nontrivial", json!(acc.distinct.lock().unwrap().len()));
    out.set("rule", json!("evaluations = inputs rendered, read back and compared; distinct_nontrivial = distinct rendered roff documents"));
    out.set("exhaustive", json!(true));
    out.set("explanation", json!("single segment: all 17x17 colour pairs x all 192 effect subsets; texts and documents: complete up to the stated bounds; bounded, not sampled"));
    for inp in [&b"\x1b[0;1;31;44m.a-b\\"[..], &b"\x1b[0;3;92ma\n'b\x1b[0m c"[..]] {
        let doc = render(inp).unwrap_or_else(|e| e.1);
        out.push_sample(json!({"input": show(inp), "document": doc, "model_segments": model_segments(inp).iter().map(|e| format!("{e:?}")).collect::<Vec<_>>(),
                               "holds": run_case(inp).0.is_ok()}));
    }
    out.assume("inside the stated domain only: every segment is introduced by one sequence that starts with a reset; codes without leading zeros; bold and dim never in the same segment; no 256/RGB colours (a .defcolor request is understood by the reader but never expected here)");
    out.assume("a segment with empty text produces nothing; the newline that ends each emitted text line is roff's line end, not text");
    out.assume("bright colours are named like their normal counterparts (roff has eight colour names); brightness of the foreground is expressed by the bold font as the statement says, brightness of the background is not expressed");
    out.assume("the reader understands \\\\, \\e, \\-, \\&, \\f? font escapes; any other escape or a trailing backslash in the output counts as unescaped input");
    out.assume("the order of the foreground and background requests and extra colour requests before a segment are not constrained; the last one before the text counts");
    out
}

fn replay(v: &serde_json::Value) -> Result<(), String> {
    match v["kind"].as_str().unwrap_or("") {
        "roff" => {
            let input = unhex(v["input"].as_str().ok_or("replay without input")?);
            run_case(&input).0.map_err(|(c, m)| format!("{c}: {m}"))
        }
        "env" => Err("environment-dependence findings are replayed by re-running the check".into()),
        k => Err(format!("unknown replay kind {k}")),
    }
}

fn main() {
    run_check("C15", "exploration", main_check, replay);
}
