//! C20 worker: built once per anstyle-parse feature set.  Runs the product BFS
//! Parser x M-VT (model configured with this build's limits) over a 7-bit alphabet plus
//! OSC macro tokens, and writes one digest of the callback list per explored transition.

use anstyle_parse::Parser;
use std::io::Write;
use vexplore::bfs::{self, Limits, System};
use vexplore::util::*;
use vmodel::vt::{Ev, Vt, VtCfg};

#[derive(Default)]
struct Recorder(Vec<Ev>);
fn pv(p: &anstyle_parse::Params) -> Vec<Vec<u16>> {
    p.iter().map(|g| g.to_vec()).collect()
}
impl anstyle_parse::Perform for Recorder {
    fn print(&mut self, c: char) {
        self.0.push(Ev::Print(c));
    }
    fn execute(&mut self, b: u8) {
        self.0.push(Ev::Execute(b));
    }
    fn hook(&mut self, p: &anstyle_parse::Params, i: &[u8], ignore: bool, a: u8) {
        self.0.push(Ev::Hook { params: pv(p), inter: i.to_vec(), ignore, byte: a });
    }
    fn put(&mut self, b: u8) {
        self.0.push(Ev::Put(b));
    }
    fn unhook(&mut self) {
        self.0.push(Ev::Unhook);
    }
    fn osc_dispatch(&mut self, params: &[&[u8]], bell: bool) {
        self.0.push(Ev::Osc { params: params.iter().map(|p| p.to_vec()).collect(), bell });
    }
    fn csi_dispatch(&mut self, p: &anstyle_parse::Params, i: &[u8], ignore: bool, a: u8) {
        self.0.push(Ev::Csi { params: pv(p), inter: i.to_vec(), ignore, byte: a });
    }
    fn esc_dispatch(&mut self, i: &[u8], ignore: bool, b: u8) {
        self.0.push(Ev::Esc { inter: i.to_vec(), ignore, byte: b });
    }
}

fn cfg() -> VtCfg {
    VtCfg { osc_raw_cap: if cfg!(feature = "core") { Some(1024) } else { None }, utf8: cfg!(feature = "utf8") }
}

fn cfg_name() -> &'static str {
    match (cfg!(feature = "core"), cfg!(feature = "utf8")) {
        (false, false) => "none",
        (true, false) => "core",
        (true, true) => "core+utf8",
        (false, true) => "utf8",
    }
}

#[derive(Clone, Debug)]
struct PState {
    imp: Parser,
    model: Vt,
    canon: Vt,
    trace: Vec<u8>,
}
impl PartialEq for PState {
    fn eq(&self, o: &Self) -> bool {
        self.canon == o.canon
    }
}
impl Eq for PState {}

struct Sys {
    tokens: Vec<(String, Vec<u8>)>,
    digests: std::sync::Mutex<Vec<(Vec<u8>, u64, bool)>>,
}

/// When the model says the OSC lost bytes to the storage cap, only the stored payload bytes and
/// the terminator kind are compared (what happens to separators after the cap is not specified).
fn normalise(evs: Vec<Ev>, capped: bool) -> Vec<Ev> {
    if !capped {
        return evs;
    }
    evs.into_iter()
        .map(|e| match e {
            Ev::Osc { params, bell } => Ev::Osc { params: vec![params.concat()], bell },
            e => e,
        })
        .collect()
}

impl System for Sys {
    type State = PState;
    fn name(&self) -> String {
        format!("Parser[{}]::advance/7-bit+osc-macros", cfg_name())
    }
    fn alphabet_len(&self) -> usize {
        self.tokens.len()
    }
    fn token_label(&self, t: usize) -> String {
        self.tokens[t].0.clone()
    }
    fn init(&self) -> Vec<PState> {
        let model = Vt::new(cfg());
        vec![PState { imp: Parser::<anstyle_parse::DefaultCharAccumulator>::new(), canon: model.canon(), model, trace: vec![] }]
    }
    fn key(&self, s: &PState) -> u64 {
        hash_of(&s.canon)
    }
    fn step(&self, s: &PState, t: usize) -> Result<(PState, u64), String> {
        let mut imp = s.imp.clone();
        let mut model = s.model.clone();
        let mut rec = Recorder::default();
        for &b in &self.tokens[t].1 {
            imp.advance(&mut rec, b);
        }
        let mut exp = vec![];
        let mut capped = false;
        for &b in &self.tokens[t].1 {
            let e = model.advance(b);
            if e.iter().any(|e| matches!(e, Ev::Osc { .. })) && model.last_osc_capped {
                capped = true;
            }
            exp.extend(e);
        }
        let real = normalise(rec.0, capped);
        let exp = normalise(exp, capped);
        if real != exp {
            let n = real.iter().zip(&exp).take_while(|(a, b)| a == b).count();
            return Err(format!(
                "[{}] callbacks differ for token {}: event #{n}: parser {}, model {}",
                cfg_name(),
                self.tokens[t].0,
                short(real.get(n)),
                short(exp.get(n))
            ));
        }
        let mut trace = s.trace.clone();
        trace.push(t as u8);
        let d = hash_of(&real);
        self.digests.lock().unwrap().push((trace.clone(), d, capped));
        let canon = model.canon();
        Ok((PState { imp, model, canon, trace }, d))
    }
}

fn short(e: Option<&Ev>) -> String {
    let s = format!("{e:?}");
    if s.len() > 300 {
        format!("{}...({} chars)", &s[..300], s.len())
    } else {
        s
    }
}

fn tokens() -> Vec<(String, Vec<u8>)> {
    let mut t: Vec<(String, Vec<u8>)> = vec![];
    for (n, b) in [
        ("ESC", vec![0x1bu8]),
        ("[", b"[".to_vec()),
        ("]", b"]".to_vec()),
        ("P", b"P".to_vec()),
        ("\\", b"\\".to_vec()),
        ("1", b"1".to_vec()),
        (";", b";".to_vec()),
        (":", b":".to_vec()),
        ("m", b"m".to_vec()),
        ("a", b"a".to_vec()),
        ("SP", b" ".to_vec()),
        ("BEL", vec![7]),
        ("CAN", vec![0x18]),
        ("LF", vec![0x0a]),
        ("DEL", vec![0x7f]),
        ("?", b"?".to_vec()),
        ("ESC]", b"\x1b]".to_vec()),
        ("a*24", vec![b'a'; 24]),
        ("a*500", vec![b'a'; 500]),
        ("a*1000", vec![b'a'; 1000]),
        ("a*1030", vec![b'a'; 1030]),
        ("a*1100", vec![b'a'; 1100]),
        ("(a;)*20", b"a;".repeat(20)),
        ("(1;)*16", b"1;".repeat(16)),
        // complete OSC strings that exactly fill / overflow the fixed buffer (state after them matters)
        ("OSC[a*1024]BEL", [b"\x1b]".to_vec(), vec![b'a'; 1024], vec![7]].concat()),
        ("OSC[0;a*1100]ST", [b"\x1b]0;".to_vec(), vec![b'a'; 1100], b"\x1b\\".to_vec()].concat()),
        ("OSC[(a;)*15 b]BEL", [b"\x1b]".to_vec(), b"a;".repeat(15), b"b\x07".to_vec()].concat()),
    ] {
        t.push((n.to_string(), b));
    }
    t
}

/// Boundary sweeps from the initial state (no BFS): (label, input).
///  * an OSC whose payload has every 7-bit byte value in the slots around the fixed buffer's end
///    (payload lengths 1022..=1026 and 1100; BEL and ST terminated);
///  * every parameter / sub-parameter value 0..=70000 (and some larger ones) in CSI and DCS position.
fn sweep_inputs() -> Vec<(String, Vec<u8>)> {
    let mut v = vec![];
    for len in [1022usize, 1023, 1024, 1025, 1026, 1100] {
        for pos in [len - 1, 1021, 1022, 1023, 1024] {
            if pos >= len {
                continue;
            }
            for b in 0x20u8..=0x7f {
                if b == b'a' {
                    continue;
                }
                let mut payload = vec![b'a'; len];
                payload[pos] = b;
                for (tn, term) in [("BEL", &b"\x07"[..]), ("ST", &b"\x1b\\"[..])] {
                    v.push((format!("OSC[a*{len},byte{pos}=0x{b:02x}]{tn}"), [b"\x1b]", &payload[..], term, b"z"].concat()));
                }
            }
        }
    }
    // separators straddling the end of the buffer
    for k in [510usize, 511, 512, 513] {
        v.push((format!("OSC[(a;)*{k}]BEL"), [b"\x1b]".to_vec(), b"a;".repeat(k), b"\x07z".to_vec()].concat()));
        v.push((format!("OSC[0;(ab)*{k}]ST"), [b"\x1b]0;".to_vec(), b"ab".repeat(k), b"\x1b\\z".to_vec()].concat()));
    }
    // CSI headers that reach the ignore state (private marker after a digit, parameter after an intermediate), then text
    for h in ["1?", "1<", "1;?", " 1", "1 2", "?1?", "1:?", "$1"] {
        for f in ["h", "m", "q"] {
            v.push((format!("CSI {h} {f} then text"), format!("\x1b[{h}{f}AB\x1b[1mC").into_bytes()));
        }
    }
    // two and three OSC strings through one parser: what the first leaves in the offset table must not reach the next
    let oscs: [&[u8]; 8] = [b"0;title", b"112", b"", b"8;;http://x", b"1337;a;b;c;d", b"52;c;QQ==", b"a;b;c;d;e;f;g;h;i;j;k;l;m;n;o;p;q", b"104"];
    for a in oscs {
        for b in oscs {
            for (tn, term) in [("BEL", &b"\x07"[..]), ("ST", &b"\x1b\\"[..])] {
                v.push((format!("OSC[{}] OSC[{}] {tn}", String::from_utf8_lossy(a), String::from_utf8_lossy(b)), [b"\x1b]", a, term, b"x\x1b]", b, term, b"y"].concat()));
            }
            for c in [&b"112"[..], b"", b"0;t"] {
                v.push((format!("OSC[{}] OSC[{}] OSC[{}]", String::from_utf8_lossy(a), String::from_utf8_lossy(b), String::from_utf8_lossy(c)), [b"\x1b]", a, b"\x07\x1b]", b, b"\x1b\\\x1b]", c, b"\x07z"].concat()));
            }
        }
    }
    // long-lived parsers: the same short stream after thousands of earlier strings / sequences on one parser (a counter
    // or budget kept per parser lifetime instead of per string); the expectation is the model run over the whole history
    {
        let probe: &[u8] = b"\x1b]0;t\x07ok\x1b[1;31mz\x1bP1q#\x1b\\";
        let over = [b"\x1b]52;c;".to_vec(), vec![b'A'; 1097], b"\x07".to_vec()].concat();
        let mut h = vec![];
        for _ in 0..15000 {
            h.extend_from_slice(&over);
        }
        h.extend_from_slice(probe);
        v.push(("15000 oversize OSC strings, then a probe".to_string(), h));
        let mut h = vec![];
        for i in 0..70000u32 {
            h.extend_from_slice(format!("\x1b[{};{}m\x1b]{}\x07", i % 300, i % 7, i % 120).as_bytes());
        }
        h.extend_from_slice(probe);
        v.push(("70000 short CSI and OSC sequences, then a probe".to_string(), h));
        let mut h = b"\x1b]".to_vec();
        h.extend(std::iter::repeat(b'B').take((1 << 20) + 5));
        h.extend_from_slice(b"\x07\x18");
        h.extend_from_slice(probe);
        v.push(("one OSC of 2^20+5 bytes, CAN, then a probe".to_string(), h));
    }
    let mut values: Vec<u64> = (0..=70000).collect();
    values.extend([99999, 131071, 131072, 655359, 655360, 4294967295, 4294967296, 99999999999, 18446744073709551615]);
    for x in values {
        v.push((format!("CSI {x} m"), format!("\x1b[{x}mz").into_bytes()));
        v.push((format!("CSI 1:{x} m"), format!("\x1b[1:{x}mz").into_bytes()));
        v.push((format!("CSI {x};{x} H"), format!("\x1b[{x};{x}Hz").into_bytes()));
        v.push((format!("DCS {x};1 q"), format!("\x1bP{x};1qz\x1b\\").into_bytes()));
    }
    v
}

fn main() {
    let args: Vec<String> = std::env::args().collect();
    let depth: usize = args.get(1).and_then(|s| s.parse().ok()).unwrap_or(4);
    let out_path = args.get(2).cloned().unwrap_or_else(|| "/dev/null".into());
    let wall: f64 = args.get(3).and_then(|s| s.parse().ok()).unwrap_or(600.0);
    install_quiet_panic_hook();
    let sys = Sys { tokens: tokens(), digests: Default::default() };
    let mut lim = Limits::depth(depth);
    lim.max_wall_s = wall;
    lim.max_states = args.get(4).and_then(|s| s.parse().ok()).unwrap_or(1_500_000);
    lim.max_violations = 20;
    let rep = bfs::explore(&sys, &lim);
    let mut digests = sys.digests.into_inner().unwrap();
    digests.sort();
    digests.dedup();
    let mut f = std::io::BufWriter::new(std::fs::File::create(&out_path).expect("create digest file"));
    for (trace, d, capped) in &digests {
        writeln!(f, "{} {:016x} {}", hex(trace), d, *capped as u8).unwrap();
    }
    let mut viol: Vec<serde_json::Value> = rep
        .violations
        .iter()
        .map(|v| serde_json::json!({"trace": v.trace, "labels": v.labels, "message": v.message}))
        .collect();
    // boundary sweeps from the initial state
    let sweep = sweep_inputs();
    let mut sweep_bad = 0u64;
    let mut sweep_capped = 0u64;
    for (label, input) in &sweep {
        let r = guard(|| {
            let mut imp = Parser::<anstyle_parse::DefaultCharAccumulator>::new();
            let mut model = Vt::new(cfg());
            let mut rec = Recorder::default();
            for &b in input {
                imp.advance(&mut rec, b);
            }
            let mut exp = vec![];
            let mut capped = false;
            for &b in input {
                let e = model.advance(b);
                if e.iter().any(|e| matches!(e, Ev::Osc { .. })) && model.last_osc_capped {
                    capped = true;
                }
                exp.extend(e);
            }
            let real = normalise(rec.0, capped);
            let exp = normalise(exp, capped);
            if real != exp {
                let n = real.iter().zip(&exp).take_while(|(a, b)| a == b).count();
                return Err(format!("[{}] callbacks differ for {label}: event #{n}: parser {}, model {}", cfg_name(), short(real.get(n)), short(exp.get(n))));
            }
            Ok((hash_of(&real), capped))
        })
        .and_then(|r| r);
        match r {
            Ok((d, capped)) => {
                sweep_capped += capped as u64;
                writeln!(f, "S:{} {:016x} {}", label.replace(' ', "_"), d, capped as u8).unwrap();
            }
            Err(m) => {
                sweep_bad += 1;
                if viol.len() < 30 {
                    viol.push(serde_json::json!({"trace": [], "labels": [label], "message": m}));
                }
            }
        }
    }
    println!(
        "RESULT {}",
        serde_json::json!({
            "config": cfg_name(), "states": rep.states, "transitions": rep.transitions, "depth_completed": rep.depth_completed,
            "frontier_at_bound": rep.frontier_at_bound, "capped": rep.capped, "distinct_observations": rep.distinct_observations,
            "pruned_violating": rep.pruned_violating + sweep_bad, "violations": viol, "sweep_inputs": sweep.len(), "sweep_capped_osc": sweep_capped, "digests": digests.len(),
            "capped_osc_transitions": digests.iter().filter(|d| d.2).count(), "wall_s": rep.wall_s,
            "sample_traces": rep.sample_traces,
        })
    );
}
