//! Re-targets the working tree's colorchoice source at loom: exactly three textual rewrites
//! (atomics import, the static, `const fn new`).  If a pattern is missing the generated file
//! only defines `RETARGET_OK = false` and the loom part of C19 reports reduced coverage.
use std::{env, fs, path::Path};

fn main() {
    let src_path = "/repo/crates/colorchoice/src/lib.rs";
    println!("cargo:rerun-if-changed={src_path}");
    let out = Path::new(&env::var("OUT_DIR").unwrap()).join("colorchoice_loom.rs");
    let src = fs::read_to_string(src_path).unwrap_or_default();
    let pats = [
        ("use core::sync::atomic::{AtomicUsize, Ordering};", "use loom::sync::atomic::{AtomicUsize, Ordering};"),
        ("static USER: AtomicChoice = AtomicChoice::new();", "loom::lazy_static! { static ref USER: AtomicChoice = AtomicChoice::new(); }"),
        ("pub(crate) const fn new() -> Self {", "pub(crate) fn new() -> Self {"),
    ];
    let mut text = String::new();
    for line in src.lines() {
        let t = line.trim_start();
        if t.starts_with("#![") || t.starts_with("//!") {
            continue;
        }
        text.push_str(line);
        text.push('\n');
    }
    let mut ok = !src.is_empty();
    for (a, b) in pats {
        if text.matches(a).count() == 1 {
            text = text.replace(a, b);
        } else {
            ok = false;
        }
    }
    let generated = if ok {
        format!("pub const RETARGET_OK: bool = true;\n{text}")
    } else {
        "pub const RETARGET_OK: bool = false;\n#[derive(Copy, Clone, Debug, PartialEq, Eq)] pub enum ColorChoice { Auto, AlwaysAnsi, Always, Never }\nimpl ColorChoice { pub fn global() -> Self { Self::Auto } pub fn write_global(self) {} }\n".to_string()
    };
    fs::write(out, generated).unwrap();
}
