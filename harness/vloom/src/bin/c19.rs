//! C19 - output of one print call is never interleaved with another thread's; the global colour
//! choice is an atomic register.
//!
//! loom explores every interleaving (DPOR, preemption-bounded) of small multi-threaded
//! harnesses running the REAL anstream forwarding code (`AutoStream`/`StripStream` `write_fmt`,
//! `write_all`, `fmt::Adapter`, the strip machine) over a stream whose lock is a loom mutex
//! (same contract as `impl AsLockedWrite for Stdout { self.lock() }`), and the real colorchoice
//! source re-targeted at loom atomics by build.rs.
//!
//! Each scenario runs in a child process (a loom failure may abort the process).

use serde_json::{json, Value};
use std::collections::{BTreeMap, BTreeSet};
use std::io::{self, Write};
use std::sync::atomic::{AtomicU64, Ordering as StdOrdering};
use std::sync::Mutex as StdMutex;
use vexplore::evidence::*;

mod cc_loom {
    #![allow(dead_code, missing_docs, clippy::all)]
    include!(concat!(env!("OUT_DIR"), "/colorchoice_loom.rs"));
}

// ---- the shared sink behind a loom lock ----------------------------------------------------

/// `.1` = how many bytes one `write` call accepts at most (usize::MAX = everything): a short-writing
/// sink makes code that re-takes the lock between partial writes visible.
#[derive(Clone, Debug)]
struct SharedOut(loom::sync::Arc<loom::sync::Mutex<Vec<u8>>>, usize);

struct LockedOut<'a>(loom::sync::MutexGuard<'a, Vec<u8>>, usize);

impl Write for SharedOut {
    fn write(&mut self, buf: &[u8]) -> io::Result<usize> {
        // like `Stdout::write`: lock for this one call
        let n = buf.len().min(self.1);
        self.0.lock().unwrap().extend_from_slice(&buf[..n]);
        Ok(n)
    }
    fn flush(&mut self) -> io::Result<()> {
        Ok(())
    }
}

impl Write for LockedOut<'_> {
    fn write(&mut self, buf: &[u8]) -> io::Result<usize> {
        let n = buf.len().min(self.1);
        self.0.extend_from_slice(&buf[..n]);
        Ok(n)
    }
    fn flush(&mut self) -> io::Result<()> {
        Ok(())
    }
}

impl anstream::stream::VerifSealed for SharedOut {}
impl anstream::stream::VerifSealed for LockedOut<'_> {}
impl anstream::stream::IsTerminal for SharedOut {
    fn is_terminal(&self) -> bool {
        false
    }
}
impl anstream::stream::IsTerminal for LockedOut<'_> {
    fn is_terminal(&self) -> bool {
        false
    }
}
impl anstream::stream::RawStream for SharedOut {}
impl anstream::stream::RawStream for LockedOut<'_> {}
impl anstream::stream::AsLockedWrite for SharedOut {
    type Write<'w> = LockedOut<'w>;
    fn as_locked_write(&mut self) -> Self::Write<'_> {
        LockedOut(self.0.lock().unwrap(), self.1)
    }
}

// ---- scenarios -------------------------------------------------------------------------------

#[derive(Clone, Copy, Debug, PartialEq, Eq)]
enum Mode {
    Never,
    AlwaysAnsi,
    Strip, // StripStream directly
    /// the same streams built over `Box<SharedOut>` / `&mut SharedOut` (the forwarding impls of
    /// RawStream / AsLockedWrite for wrapper types)
    NeverBoxed,
    StripBoxed,
    AnsiMutRef,
}

#[derive(Clone, Copy, Debug)]
enum Op {
    /// write!(s, "{}{}", a, b) - what print! expands to, two fragments with an escape between
    Fmt2(&'static str, &'static str),
    /// writeln!(s, "{}", a) - what println! expands to
    Line(&'static str),
    /// write_all of bytes holding two printable runs
    All(&'static [u8]),
    /// write!/writeln! with a literal-only format string (no arguments: `Arguments::as_str()` is Some)
    Lit(u8),
}

const LIT0: &str = "k\x1b[1ml\x1b[0m";
const LIT1: &str = "n\x1b[4mo";

fn op_input(op: Op) -> Vec<u8> {
    match op {
        Op::Fmt2(a, b) => format!("{a}{b}").into_bytes(),
        Op::Line(a) => format!("{a}\n").into_bytes(),
        Op::All(b) => b.to_vec(),
        Op::Lit(0) => LIT0.as_bytes().to_vec(),
        Op::Lit(_) => format!("{LIT1}\n").into_bytes(),
    }
}

fn expected_output(mode: Mode, op: Op) -> Vec<u8> {
    let input = op_input(op);
    match mode {
        Mode::AlwaysAnsi | Mode::AnsiMutRef => input,
        Mode::Never | Mode::Strip | Mode::NeverBoxed | Mode::StripBoxed => vmodel::strip::StripModel::default().expected_exact(&input),
    }
}

enum AnyStream<'a> {
    Auto(anstream::AutoStream<SharedOut>),
    Strip(anstream::StripStream<SharedOut>),
    AutoBoxed(anstream::AutoStream<Box<SharedOut>>),
    StripBoxed(anstream::StripStream<Box<SharedOut>>),
    AutoRef(anstream::AutoStream<&'a mut SharedOut>),
}

fn run_op(s: &mut AnyStream<'_>, op: Op) {
    macro_rules! go {
        ($s:expr) => {
            match op {
                Op::Fmt2(a, b) => write!($s, "{}{}", a, b).unwrap(),
                Op::Line(a) => writeln!($s, "{}", a).unwrap(),
                Op::All(b) => $s.write_all(b).unwrap(),
                Op::Lit(0) => write!($s, "k\x1b[1ml\x1b[0m").unwrap(),
                Op::Lit(_) => writeln!($s, "n\x1b[4mo").unwrap(),
            }
        };
    }
    match s {
        AnyStream::Auto(s) => go!(s),
        AnyStream::Strip(s) => go!(s),
        AnyStream::AutoBoxed(s) => go!(s),
        AnyStream::StripBoxed(s) => go!(s),
        AnyStream::AutoRef(s) => go!(s),
    }
}

struct Scenario {
    name: &'static str,
    /// bytes accepted per inner write call
    chunk: usize,
    mode: Mode,
    threads: Vec<Vec<Op>>,
    preemptions: usize,
    thorough_only: bool,
}

fn scenarios() -> Vec<Scenario> {
    let f1 = Op::Fmt2("a\x1b[1m", "b\x1b[0m");
    let f2 = Op::Fmt2("c", "\x1b[31md");
    let l1 = Op::Line("e\x1b[mf");
    let w1 = Op::All(b"g\x1b[32mh");
    let w2 = Op::All(b"i\x1b[0mj\n");
    let w3 = Op::All(b"gggg\x1b[32mhhh");
    let w4 = Op::All(b"iii\x1b[0mjjjj\n");
    let f3 = Op::Fmt2("aaa\x1b[1m", "bbb\x1b[0m");
    let k0 = Op::Lit(0);
    let k1 = Op::Lit(1);
    // no ESC at all, but control bytes the stripper drops: still several printable runs in strip mode
    let c1 = Op::All(b"p\x08q\x07r\n");
    let c2 = Op::All(b"s\x7ft\x00u\n");
    // buffers beyond 64 KiB (a stream that hands its inner writer bounded pieces must hold the lock across all of them)
    // (two long printable runs around one escape: code that fails to hold the lock then still has only a handful of
    // lock acquisitions per call, which keeps the schedule space finite for the explorer)
    let big = |tag: u8, n: usize| -> Op {
        let half = vec![tag; n / 2];
        Op::All(Box::leak([&half[..], b"\x1b[1m", &half[..], b"\x1b[0m\n"].concat().into_boxed_slice()))
    };
    // one buffer made of very many tiny printable runs (a stream that batches runs must hold the lock across batches)
    let many = |tag: u8, runs: usize| -> Op {
        let unit = [&[tag][..], b"\x1b[1m"].concat();
        Op::All(Box::leak([unit.repeat(runs), b"\x1b[0m\n".to_vec()].concat().into_boxed_slice()))
    };
    let (m1, m2) = (many(b'M', 300), many(b'N', 1100));
    let (b1, b2, b3) = (big(b'A', 70_000), big(b'B', 65_537), big(b'C', 140_000));
    let mut v = vec![];
    for (mode, mn) in [
        (Mode::Never, "never"),
        (Mode::AlwaysAnsi, "always_ansi"),
        (Mode::Strip, "strip"),
        (Mode::NeverBoxed, "never-over-Box"),
        (Mode::StripBoxed, "strip-over-Box"),
        (Mode::AnsiMutRef, "always_ansi-over-&mut"),
    ] {
        v.push(Scenario { chunk: usize::MAX, name: leak(format!("{mn}/2x1/fmt-fmt")), mode, threads: vec![vec![f1], vec![f2]], preemptions: 3, thorough_only: false });
        v.push(Scenario { chunk: usize::MAX, name: leak(format!("{mn}/2x1/line-all")), mode, threads: vec![vec![l1], vec![w1]], preemptions: 3, thorough_only: false });
        v.push(Scenario { chunk: usize::MAX, name: leak(format!("{mn}/2x1/lit-lit")), mode, threads: vec![vec![k0], vec![k1]], preemptions: 3, thorough_only: false });
        v.push(Scenario { chunk: usize::MAX, name: leak(format!("{mn}/2x2/lit,fmt-line,lit")), mode, threads: vec![vec![k0, f2], vec![l1, k1]], preemptions: 2, thorough_only: false });
        v.push(Scenario { chunk: usize::MAX, name: leak(format!("{mn}/2x2/fmt,all-line,all")), mode, threads: vec![vec![f1, w1], vec![l1, w2]], preemptions: 2, thorough_only: false });
        v.push(Scenario { chunk: usize::MAX, name: leak(format!("{mn}/3x1/fmt-line-all")), mode, threads: vec![vec![f1], vec![l1], vec![w1]], preemptions: 2, thorough_only: false });
        v.push(Scenario { chunk: usize::MAX, name: leak(format!("{mn}/2x1/controls-all")), mode, threads: vec![vec![c1], vec![w1]], preemptions: 3, thorough_only: false });
        v.push(Scenario { chunk: usize::MAX, name: leak(format!("{mn}/2x2/controls,fmt-controls,line")), mode, threads: vec![vec![c1, f1], vec![c2, l1]], preemptions: 2, thorough_only: false });
        v.push(Scenario { chunk: usize::MAX, name: leak(format!("{mn}/2x1/big-big")), mode, threads: vec![vec![b1], vec![b2]], preemptions: 3, thorough_only: false });
        v.push(Scenario { chunk: usize::MAX, name: leak(format!("{mn}/2x2/big,fmt-line,big")), mode, threads: vec![vec![b3, f1], vec![l1, b2]], preemptions: 2, thorough_only: false });
        v.push(Scenario { chunk: usize::MAX, name: leak(format!("{mn}/2x1/many-runs")), mode, threads: vec![vec![m1], vec![m2]], preemptions: 2, thorough_only: false });
        // the same over a sink that accepts at most 2 bytes per write call
        v.push(Scenario { chunk: 2, name: leak(format!("{mn}/short-sink/2x1/all-all")), mode, threads: vec![vec![w3], vec![w4]], preemptions: 3, thorough_only: false });
        v.push(Scenario { chunk: 2, name: leak(format!("{mn}/short-sink/2x1/fmt-lit")), mode, threads: vec![vec![f3], vec![k1]], preemptions: 2, thorough_only: false });
        v.push(Scenario { chunk: 1, name: leak(format!("{mn}/short-sink1/2x2/all,line-fmt,all")), mode, threads: vec![vec![w3, l1], vec![f3, w4]], preemptions: 2, thorough_only: false });
        v.push(Scenario { chunk: usize::MAX, name: leak(format!("{mn}/3x1/fmt-line-all/p3")), mode, threads: vec![vec![f1], vec![l1], vec![w1]], preemptions: 3, thorough_only: false });
        v.push(Scenario { chunk: usize::MAX, name: leak(format!("{mn}/2x2/p3")), mode, threads: vec![vec![f1, w1], vec![l1, w2]], preemptions: 3, thorough_only: false });
        v.push(Scenario { chunk: usize::MAX, name: leak(format!("{mn}/3x2/p2")), mode, threads: vec![vec![f1, w1], vec![l1, w2], vec![f2, l1]], preemptions: 2, thorough_only: false });
        v.push(Scenario { chunk: usize::MAX, name: leak(format!("{mn}/2x1/unbounded")), mode, threads: vec![vec![f1], vec![w2]], preemptions: usize::MAX, thorough_only: false });
        v.push(Scenario { chunk: usize::MAX, name: leak(format!("{mn}/2x2/unbounded")), mode, threads: vec![vec![f1, w1], vec![l1, w2]], preemptions: usize::MAX, thorough_only: false });
        v.push(Scenario { chunk: usize::MAX, name: leak(format!("{mn}/3x1/unbounded")), mode, threads: vec![vec![f1], vec![l1], vec![w1]], preemptions: usize::MAX, thorough_only: false });
        v.push(Scenario { chunk: usize::MAX, name: leak(format!("{mn}/2x3/unbounded")), mode, threads: vec![vec![f1, w1, l1], vec![l1, w2, f2]], preemptions: usize::MAX, thorough_only: false });
        v.push(Scenario { chunk: 2, name: leak(format!("{mn}/short-sink/3x1/p2")), mode, threads: vec![vec![w3], vec![w4], vec![f3]], preemptions: 2, thorough_only: false });
        v.push(Scenario { chunk: usize::MAX, name: leak(format!("{mn}/3x2/unbounded")), mode, threads: vec![vec![f1, w1], vec![l1, w2], vec![f2, k1]], preemptions: usize::MAX, thorough_only: true });
        v.push(Scenario { chunk: usize::MAX, name: leak(format!("{mn}/4x1/p3")), mode, threads: vec![vec![f1], vec![l1], vec![w1], vec![k0]], preemptions: 3, thorough_only: true });
        v.push(Scenario { chunk: usize::MAX, name: leak(format!("{mn}/3x3/p2")), mode, threads: vec![vec![f1, w1, k0], vec![l1, w2, f2], vec![k1, f3, w3]], preemptions: 2, thorough_only: true });
        v.push(Scenario { chunk: 1, name: leak(format!("{mn}/short-sink1/3x1/p3")), mode, threads: vec![vec![w3], vec![w4], vec![f3]], preemptions: 3, thorough_only: true });
        v.push(Scenario { chunk: usize::MAX, name: leak(format!("{mn}/4x1/unbounded")), mode, threads: vec![vec![f1], vec![l1], vec![w1], vec![k0]], preemptions: usize::MAX, thorough_only: true });
        v.push(Scenario { chunk: usize::MAX, name: leak(format!("{mn}/3x3/p3")), mode, threads: vec![vec![f1, w1, k0], vec![l1, w2, f2], vec![k1, f3, w3]], preemptions: 3, thorough_only: true });
        v.push(Scenario { chunk: usize::MAX, name: leak(format!("{mn}/4x2/p2")), mode, threads: vec![vec![f1, w1], vec![l1, w2], vec![f2, k1], vec![c1, k0]], preemptions: 2, thorough_only: true });
        v.push(Scenario { chunk: usize::MAX, name: leak(format!("{mn}/2x4/unbounded")), mode, threads: vec![vec![f1, w1, l1, c1], vec![l1, w2, f2, k1]], preemptions: usize::MAX, thorough_only: true });
        // (loom supports at most four spawned threads next to the main one)
        v.push(Scenario { chunk: 2, name: leak(format!("{mn}/short-sink/2x2/p3")), mode, threads: vec![vec![w3, f3], vec![w4, k1]], preemptions: 3, thorough_only: true });
        v.push(Scenario { chunk: usize::MAX, name: leak(format!("{mn}/2x3/p3")), mode, threads: vec![vec![f1, w1, l1], vec![l1, w2, f2]], preemptions: 3, thorough_only: false });
        v.push(Scenario { chunk: usize::MAX, name: leak(format!("{mn}/4x1/p2")), mode, threads: vec![vec![f1], vec![l1], vec![w1], vec![f2]], preemptions: 2, thorough_only: false });
        v.push(Scenario { chunk: usize::MAX, name: leak(format!("{mn}/3x2/p3")), mode, threads: vec![vec![f1, w1], vec![l1, w2], vec![f2, l1]], preemptions: 3, thorough_only: false });
    }
    v
}

fn leak(s: String) -> &'static str {
    Box::leak(s.into_boxed_str())
}

/// every way of merging the per-thread sequences of whole-call outputs
fn allowed_outputs(per_thread: &[Vec<Vec<u8>>]) -> BTreeSet<Vec<u8>> {
    fn rec(per: &[Vec<Vec<u8>>], pos: &mut Vec<usize>, cur: &mut Vec<u8>, out: &mut BTreeSet<Vec<u8>>) {
        let mut done = true;
        for t in 0..per.len() {
            if pos[t] < per[t].len() {
                done = false;
                let piece = &per[t][pos[t]];
                let len = cur.len();
                cur.extend_from_slice(piece);
                pos[t] += 1;
                rec(per, pos, cur, out);
                pos[t] -= 1;
                cur.truncate(len);
            }
        }
        if done {
            out.insert(cur.clone());
        }
    }
    let mut out = BTreeSet::new();
    rec(per_thread, &mut vec![0; per_thread.len()], &mut vec![], &mut out);
    out
}

static EXECUTIONS: AtomicU64 = AtomicU64::new(0);
static OUTCOMES: StdMutex<BTreeMap<Vec<u8>, u64>> = StdMutex::new(BTreeMap::new());

fn run_stream_scenario(sc: &'static Scenario) -> Value {
    let per_thread: Vec<Vec<Vec<u8>>> = sc.threads.iter().map(|ops| ops.iter().map(|&op| expected_output(sc.mode, op)).collect()).collect();
    let allowed = allowed_outputs(&per_thread);
    let mut b = loom::model::Builder::new();
    b.preemption_bound = (sc.preemptions != usize::MAX).then_some(sc.preemptions);
    b.check(move || {
        let sink = SharedOut(loom::sync::Arc::new(loom::sync::Mutex::new(Vec::new())), sc.chunk);
        let handles: Vec<_> = sc
            .threads
            .iter()
            .map(|ops| {
                let out = sink.clone();
                loom::thread::spawn(move || {
                    // like `anstream::stdout()`: every print call builds its stream over the shared handle
                    let mut out = out;
                    let mut s = match sc.mode {
                        Mode::Never => AnyStream::Auto(anstream::AutoStream::never(out)),
                        Mode::AlwaysAnsi => AnyStream::Auto(anstream::AutoStream::always_ansi(out)),
                        Mode::Strip => AnyStream::Strip(anstream::StripStream::new(out)),
                        Mode::NeverBoxed => AnyStream::AutoBoxed(anstream::AutoStream::never(Box::new(out))),
                        Mode::StripBoxed => AnyStream::StripBoxed(anstream::StripStream::new(Box::new(out))),
                        Mode::AnsiMutRef => AnyStream::AutoRef(anstream::AutoStream::always_ansi(&mut out)),
                    };
                    for &op in ops {
                        run_op(&mut s, op);
                    }
                })
            })
            .collect();
        for h in handles {
            h.join().unwrap();
        }
        let got = sink.0.lock().unwrap().clone();
        EXECUTIONS.fetch_add(1, StdOrdering::Relaxed);
        *OUTCOMES.lock().unwrap().entry(got).or_insert(0) += 1;
    });
    let outcomes = OUTCOMES.lock().unwrap();
    // (outcomes of the big-buffer scenarios are abbreviated: head ... tail)
    let brief = |k: &Vec<u8>| -> String {
        let t = vexplore::util::show(k);
        if t.len() > 400 {
            let cs: Vec<char> = t.chars().collect();
            format!("{} ... ({} bytes) ... {}", cs[..150].iter().collect::<String>(), k.len(), cs[cs.len() - 150..].iter().collect::<String>())
        } else {
            t
        }
    };
    let bad: Vec<String> = outcomes.keys().filter(|k| !allowed.contains(*k)).map(brief).collect();
    json!({
        "scenario": sc.name, "kind": "stream", "executions": EXECUTIONS.load(StdOrdering::Relaxed),
        "distinct_outcomes": outcomes.len(), "allowed_outcomes": allowed.len(),
        "sink_accepts_per_write": if sc.chunk == usize::MAX { json!("everything") } else { json!(sc.chunk) },
        "preemption_bound": if sc.preemptions == usize::MAX { json!("none (full DPOR)") } else { json!(sc.preemptions) }, "threads": sc.threads.len(),
        "interleaved_outcomes": bad,
        "sample_outcome": outcomes.keys().next().map(brief),
    })
}

// ---- the global choice as an atomic register -------------------------------------------------

#[derive(Clone, Copy, Debug, PartialEq, Eq, PartialOrd, Ord)]
enum RegOp {
    W(u8),
    R(u8), // value read
}

fn choice_of(i: u8) -> cc_loom::ColorChoice {
    [cc_loom::ColorChoice::Auto, cc_loom::ColorChoice::AlwaysAnsi, cc_loom::ColorChoice::Always, cc_loom::ColorChoice::Never][i as usize]
}
fn index_of(c: cc_loom::ColorChoice) -> u8 {
    match c {
        cc_loom::ColorChoice::Auto => 0,
        cc_loom::ColorChoice::AlwaysAnsi => 1,
        cc_loom::ColorChoice::Always => 2,
        cc_loom::ColorChoice::Never => 3,
    }
}

/// is there an interleaving of the thread histories (program order kept) in which every read
/// returns the latest written value (initial value 0 = Auto), ending with `final_value`?
fn register_consistent(threads: &[Vec<RegOp>], final_value: u8) -> bool {
    fn rec(threads: &[Vec<RegOp>], pos: &mut Vec<usize>, cur: u8, final_value: u8) -> bool {
        let mut done = true;
        for t in 0..threads.len() {
            if pos[t] < threads[t].len() {
                done = false;
                let op = threads[t][pos[t]];
                let next = match op {
                    RegOp::W(v) => Some(v),
                    RegOp::R(v) => (v == cur).then_some(cur),
                };
                if let Some(n) = next {
                    pos[t] += 1;
                    let ok = rec(threads, pos, n, final_value);
                    pos[t] -= 1;
                    if ok {
                        return true;
                    }
                }
            }
        }
        done && cur == final_value
    }
    rec(threads, &mut vec![0; threads.len()], 0, final_value)
}

static REG_BAD: StdMutex<Vec<String>> = StdMutex::new(Vec::new());
static REG_OUTCOMES: StdMutex<BTreeSet<Vec<u8>>> = StdMutex::new(BTreeSet::new());

fn run_register_scenario(name: &'static str, writers: &'static [&'static [u8]], reads: usize, preemptions: usize) -> Value {
    if !cc_loom::RETARGET_OK {
        return json!({"scenario": name, "kind": "register", "skipped": "colorchoice source could not be re-targeted at loom (rewrite pattern missing)"});
    }
    let mut b = loom::model::Builder::new();
    b.preemption_bound = (preemptions != usize::MAX).then_some(preemptions);
    b.check(move || {
        let mut handles = vec![];
        for w in writers {
            handles.push(loom::thread::spawn(move || {
                let mut h = vec![];
                for &v in w.iter() {
                    choice_of(v).write_global();
                    h.push(RegOp::W(v));
                }
                h
            }));
        }
        handles.push(loom::thread::spawn(move || {
            let mut h = vec![];
            for _ in 0..reads {
                h.push(RegOp::R(index_of(cc_loom::ColorChoice::global())));
            }
            h
        }));
        let hist: Vec<Vec<RegOp>> = handles.into_iter().map(|h| h.join().unwrap()).collect();
        let fin = index_of(cc_loom::ColorChoice::global());
        EXECUTIONS.fetch_add(1, StdOrdering::Relaxed);
        let mut key: Vec<u8> = hist.last().unwrap().iter().map(|o| if let RegOp::R(v) = o { *v } else { 9 }).collect();
        key.push(fin);
        REG_OUTCOMES.lock().unwrap().insert(key);
        if !register_consistent(&hist, fin) {
            let mut bad = REG_BAD.lock().unwrap();
            if bad.len() < 5 {
                bad.push(format!("history {hist:?} final {fin}"));
            }
        }
    });
    json!({
        "scenario": name, "kind": "register", "executions": EXECUTIONS.load(StdOrdering::Relaxed),
        "distinct_outcomes": REG_OUTCOMES.lock().unwrap().len(), "preemption_bound": preemptions,
        "threads": writers.len() + 1,
        "inconsistent_histories": *REG_BAD.lock().unwrap(),
    })
}

struct RegScenario {
    name: &'static str,
    writers: &'static [&'static [u8]],
    reads: usize,
    preemptions: usize,
    thorough_only: bool,
}

fn reg_scenarios() -> Vec<RegScenario> {
    vec![
        RegScenario { name: "register/2w1-1r2", writers: &[&[2], &[3]], reads: 2, preemptions: 3, thorough_only: false },
        // values with disjoint bit patterns (01 / 10): read-modify-write implementations merge them into 11
        RegScenario { name: "register/2w1(1,2)-1r2", writers: &[&[1], &[2]], reads: 2, preemptions: 3, thorough_only: false },
        RegScenario { name: "register/2w1(2,1)-1r1/unbounded", writers: &[&[2], &[1]], reads: 1, preemptions: usize::MAX, thorough_only: false },
        RegScenario { name: "register/2w2-1r2", writers: &[&[1, 2], &[3, 0]], reads: 2, preemptions: 2, thorough_only: false },
        RegScenario { name: "register/2w2-1r3/p3", writers: &[&[1, 2], &[3, 1]], reads: 3, preemptions: 3, thorough_only: false },
        RegScenario { name: "register/3w2-1r2/p2", writers: &[&[1, 2], &[2, 1], &[3, 0]], reads: 2, preemptions: 2, thorough_only: true },
        RegScenario { name: "register/2w2-1r4/p3", writers: &[&[1, 2], &[2, 3]], reads: 4, preemptions: 3, thorough_only: true },
        RegScenario { name: "register/3w1-1r2/p3", writers: &[&[1], &[2], &[3]], reads: 2, preemptions: 3, thorough_only: false },
    ]
}

// ---- seam conformance: the real Stdout/Stderr impls of AsLockedWrite hold the std lock ---------------

/// While the guard returned by `as_locked_write()` on the real `Stdout` / `Stderr` is alive, no
/// other thread can take the std lock.  A second thread that DOES acquire it proves the guard does
/// not hold the lock (never a false alarm: if the lock is held the second thread blocks until we
/// release it).  Nothing is written to the streams.
fn seam_check() -> Vec<(String, String)> {
    use anstream::stream::AsLockedWrite;
    use std::sync::atomic::{AtomicBool, Ordering};
    use std::sync::Arc;
    let mut bad = vec![];
    for which in ["Stdout", "Stderr"] {
        let acquired = Arc::new(AtomicBool::new(false));
        let started = Arc::new(AtomicBool::new(false));
        let release = Arc::new(AtomicBool::new(false));
        let (a2, s2, r2) = (acquired.clone(), started.clone(), release.clone());
        let mut out = std::io::stdout();
        let mut err = std::io::stderr();
        // take the guard through the code under test
        let guard_out;
        let guard_err;
        if which == "Stdout" {
            guard_out = Some(out.as_locked_write());
            guard_err = None;
        } else {
            guard_out = None;
            guard_err = Some(err.as_locked_write());
        }
        let h = std::thread::spawn(move || {
            s2.store(true, Ordering::SeqCst);
            if which == "Stdout" {
                let _l = std::io::stdout().lock();
                a2.store(true, Ordering::SeqCst);
            } else {
                let _l = std::io::stderr().lock();
                a2.store(true, Ordering::SeqCst);
            }
            while !r2.load(Ordering::SeqCst) {
                std::thread::yield_now();
            }
        });
        while !started.load(Ordering::SeqCst) {
            std::thread::yield_now();
        }
        // give the other thread ample time to take the lock if it can
        std::thread::sleep(std::time::Duration::from_millis(150));
        let got = acquired.load(Ordering::SeqCst);
        drop(guard_out);
        drop(guard_err);
        release.store(true, Ordering::SeqCst);
        let _ = h.join();
        if got {
            bad.push((which.to_string(), format!("another thread acquired std::io::{}()'s lock while the guard returned by <{which} as AsLockedWrite>::as_locked_write() was alive", which.to_lowercase())));
        }
    }
    bad
}

// ---- driver ---------------------------------------------------------------------------------------

fn child(name: &str) -> ! {
    let scs: &'static Vec<Scenario> = Box::leak(Box::new(scenarios()));
    let v = if let Some(sc) = scs.iter().find(|s| s.name == name) {
        run_stream_scenario(sc)
    } else if let Some(r) = reg_scenarios().into_iter().find(|r| r.name == name) {
        run_register_scenario(r.name, r.writers, r.reads, r.preemptions)
    } else {
        eprintln!("unknown scenario {name}");
        std::process::exit(2);
    };
    println!("RESULT {v}");
    std::process::exit(0);
}

fn run_child(name: &str) -> Result<Value, String> {
    let exe = std::env::current_exe().map_err(|e| e.to_string())?;
    let out = std::process::Command::new(exe).arg("--scenario").arg(name).output().map_err(|e| e.to_string())?;
    let stdout = String::from_utf8_lossy(&out.stdout);
    if let Some(line) = stdout.lines().find(|l| l.starts_with("RESULT ")) {
        return serde_json::from_str(&line[7..]).map_err(|e| e.to_string());
    }
    let stderr = String::from_utf8_lossy(&out.stderr);
    if let Some(line) = stderr.lines().find(|l| l.contains("panicked at")) {
        let i = stderr.find(line).unwrap_or(0);
        let ctx: String = stderr[i..].chars().take(400).collect();
        return Err(format!("child for scenario {name}: {ctx}"));
    }
    Err(format!("child for scenario {name} ended with {:?} without a result; stderr tail: {}", out.status.code(), stderr.chars().rev().take(1500).collect::<String>().chars().rev().collect::<String>()))
}

fn main_check(ctx: &Ctx) -> Outcome {
    let mut out = Outcome::default();
    let quick = ctx.quick();
    let mut names: Vec<&'static str> = scenarios().iter().filter(|s| !(quick && s.thorough_only)).map(|s| s.name).collect();
    names.extend(reg_scenarios().iter().filter(|s| !(quick && s.thorough_only)).map(|s| s.name));
    // children in parallel (each is single threaded)
    let results: Vec<(&'static str, Result<Value, String>)> = std::thread::scope(|sc| {
        let hs: Vec<_> = names.iter().map(|&n| sc.spawn(move || (n, run_child(n)))).collect();
        hs.into_iter().map(|h| h.join().unwrap()).collect()
    });
    let mut executions = 0u64;
    let mut outcomes = 0u64;
    let mut reduced = false;
    for (name, r) in results {
        match r {
            Ok(v) => {
                executions += v["executions"].as_u64().unwrap_or(0);
                outcomes += v["distinct_outcomes"].as_u64().unwrap_or(0);
                if v.get("skipped").is_some() {
                    reduced = true;
                }
                for (field, clause) in [("interleaved_outcomes", "output-interleaved"), ("inconsistent_histories", "register-inconsistent")] {
                    if let Some(bad) = v[field].as_array() {
                        if let Some(first) = bad.first() {
                            out.findings.push(Finding {
                                system: format!("loom/{name}"),
                                clause: clause.into(),
                                case: vec![name.to_string()],
                                message: format!("{} outcome(s) not explained by whole-call ordering, e.g. {}", bad.len(), first),
                                replay: json!({"kind":"scenario","name":name}),
                            });
                        }
                    }
                }
                out.push_part(v.clone());
                out.push_sample(json!({"scenario": name, "sample_outcome": v["sample_outcome"], "executions": v["executions"]}));
            }
            Err(m) => {
                let low = m.to_lowercase();
                let model_failure = (low.contains("deadlock") || low.contains("panicked at")) && !low.contains("exceeded");
                if model_failure {
                    out.findings.push(Finding {
                        system: format!("loom/{name}"),
                        clause: if low.contains("deadlock") { "deadlock".into() } else { "panic-in-model".into() },
                        case: vec![name.to_string()],
                        message: m,
                        replay: json!({"kind":"scenario","name":name}),
                    });
                } else {
                    println!("MACHINERY ERROR: {m}");
                    std::process::exit(2);
                }
            }
        }
    }
    for (which, msg) in seam_check() {
        out.findings.push(Finding {
            system: format!("anstream::stream::AsLockedWrite for std::io::{which}"),
            clause: "guard-does-not-hold-the-lock".into(),
            case: vec![which.clone()],
            message: msg,
            replay: json!({"kind":"seam"}),
        });
    }
    out.push_part(json!({"system":"seam conformance: real Stdout/Stderr as_locked_write() guards exclude other threads","streams":2}));
    // sequential pass on the real crate: all write/read histories of length 2
    let before = colorchoice::ColorChoice::global();
    let all = [colorchoice::ColorChoice::Auto, colorchoice::ColorChoice::AlwaysAnsi, colorchoice::ColorChoice::Always, colorchoice::ColorChoice::Never];
    let mut seq = 0u64;
    for a in all {
        for b in all {
            a.write_global();
            let r1 = colorchoice::ColorChoice::global();
            b.write_global();
            let r2 = colorchoice::ColorChoice::global();
            let r3 = colorchoice::ColorChoice::global();
            seq += 1;
            if r1 != a || r2 != b || r3 != b {
                out.findings.push(Finding {
                    system: "colorchoice/sequential".into(),
                    clause: "register-inconsistent".into(),
                    case: vec![format!("{a:?}"), format!("{b:?}")],
                    message: format!("write {a:?}, read {r1:?}, write {b:?}, read {r2:?}, read {r3:?}"),
                    replay: json!({"kind":"sequential"}),
                });
            }
        }
    }
    before.write_global();
    out.set("states", json!(executions));
    out.set("transitions", json!(executions));
    out.set("traces_validated_against_impl", json!(executions));
    out.set("executions", json!(executions));
    out.set("distinct_outcomes_total", json!(outcomes));
    out.set("sequential_register_histories", json!(seq));
    out.set("evaluations", json!(executions + seq));
    out.set("distinct_nontrivial", json!(outcomes));
    out.set("rule", json!("states/transitions = complete loom executions (schedules) explored, run on the real forwarding code; distinct_nontrivial = distinct final outputs / read histories observed"));
    out.set("exhaustive", json!(!reduced));
    out.set("explanation", json!("loom DPOR explores every interleaving of the harness within the stated preemption bound; every execution runs the real anstream code over a loom-mutex sink"));
    out.assume("std::io::Stdout::lock() is a mutual-exclusion lock held by the returned guard (the loom sink has the same contract); libstd itself is not explored");
    out.assume("loom's preemption bound (2-3) and its memory model for SeqCst atomics");
    if reduced {
        out.assume("REDUCED COVERAGE: colorchoice could not be re-targeted at loom; the register part was decided by the sequential pass only");
    }
    out
}

fn replay(v: &Value) -> Result<(), String> {
    match v["kind"].as_str().unwrap_or("") {
        "scenario" => {
            let name = v["name"].as_str().unwrap_or("");
            let r = run_child(name)?;
            for field in ["interleaved_outcomes", "inconsistent_histories"] {
                if let Some(bad) = r[field].as_array() {
                    if let Some(first) = bad.first() {
                        return Err(format!("{}: {}", field, first));
                    }
                }
            }
            Ok(())
        }
        "seam" => match seam_check().first() {
            Some((_, m)) => Err(m.clone()),
            None => Ok(()),
        },
        _ => Ok(()),
    }
}

fn main() {
    let args: Vec<String> = std::env::args().collect();
    if args.len() >= 3 && args[1] == "--scenario" {
        child(&args[2]);
    }
    run_check("C19", "model_checking", main_check, replay);
}
