fn main() { eprintln!("C16 not built yet"); std::process::exit(2); }
