//! C16 - conversions to other styling crates preserve colours and effects.
//!
//! Per adapter (ansi_term, crossterm, owo-colors, termcolor, yansi) every style
//! of the enumerated domain is converted by the adapter from /repo, the
//! converted value is rendered BY THE THIRD-PARTY CRATE ITSELF, the bytes are
//! parsed by M-VT, the `CSI ... m` parameters drive M-SGR, and the terminal
//! state at the moment the content character is printed is compared with the
//! anstyle style - for every attribute the target library can express (the
//! expressibility table `TARGETS` below).  Public fields / getters of the
//! converted value and the adapters' public colour functions are read with
//! harness-side tables (written from the third-party crates' documentation) and
//! compared under the same rules.  syntect -> anstyle is compared field by
//! field.
//!
//! Domain: colours = None + 16 + 256 + RGB lattice {0,51,..,255}^3 (489 per
//! slot), effects = all 4096 sets.
//!   quick:    every colour per slot x 16 representative effect sets,
//!             all 4096 effect sets x 12 representative colours per slot,
//!             12^3 colour triples x 16 effect sets;
//!   thorough: every colour per slot x all 4096 effect sets, every fg x bg pair
//!             x 16 effect sets, 12^3 colour triples x all 4096 effect sets.

use rayon::prelude::*;
use serde_json::{json, Value};
use std::cell::RefCell;
use std::collections::{BTreeMap, HashMap};
use std::io::Write as _;
use vchecks::common::{color_from_col, effects_from_bits, style_tuple};
use vexplore::evidence::*;
use vexplore::util::*;
use vmodel::sgr::{fx, Col, Sgr};
use vmodel::vt::{Ev, St, Vt};

// ---------------------------------------------------------------------------
// style descriptions (model side)

#[derive(Clone, Copy, Debug, PartialEq, Eq, Hash, PartialOrd, Ord)]
struct Sty {
    fg: Col,
    bg: Col,
    ul: Col,
    fx: u16,
}

const NAMES16: [&str; 16] = [
    "Black", "Red", "Green", "Yellow", "Blue", "Magenta", "Cyan", "White", "BrightBlack", "BrightRed", "BrightGreen",
    "BrightYellow", "BrightBlue", "BrightMagenta", "BrightCyan", "BrightWhite",
];

fn col_str(c: Col) -> String {
    match c {
        Col::Default => "none".into(),
        Col::Ansi(i) => format!("ansi:{}/{}", i, NAMES16[i as usize & 15]),
        Col::Idx(n) => format!("idx:{n}"),
        Col::Rgb(r, g, b) => format!("rgb:{r},{g},{b}"),
    }
}

fn col_parse(s: &str) -> Result<Col, String> {
    let bad = || format!("bad colour {s:?}");
    if s == "none" {
        return Ok(Col::Default);
    }
    let (k, v) = s.split_once(':').ok_or_else(bad)?;
    let v = v.split('/').next().unwrap_or("");
    match k {
        "ansi" => v.parse::<u8>().ok().filter(|i| *i < 16).map(Col::Ansi).ok_or_else(bad),
        "idx" => v.parse::<u8>().ok().map(Col::Idx).ok_or_else(bad),
        "rgb" => {
            let p: Vec<u8> = v.split(',').filter_map(|x| x.parse().ok()).collect();
            if p.len() == 3 {
                Ok(Col::Rgb(p[0], p[1], p[2]))
            } else {
                Err(bad())
            }
        }
        _ => Err(bad()),
    }
}

fn fx_str(bits: u16) -> String {
    if bits == 0 {
        return "-".into();
    }
    let mut v = vec![];
    for (i, n) in fx::NAMES.iter().enumerate() {
        if bits & (1 << i) != 0 {
            v.push(*n);
        }
    }
    v.join("+")
}

impl Sty {
    const PLAIN: Sty = Sty { fg: Col::Default, bg: Col::Default, ul: Col::Default, fx: 0 };

    fn real(&self) -> anstyle::Style {
        anstyle::Style::new()
            .fg_color(color_from_col(self.fg))
            .bg_color(color_from_col(self.bg))
            .underline_color(color_from_col(self.ul))
            .effects(effects_from_bits(self.fx))
    }
    fn tokens(&self) -> Vec<String> {
        let mut v = vec![];
        if self.fg != Col::Default {
            v.push(format!("fg={}", col_str(self.fg)));
        }
        if self.bg != Col::Default {
            v.push(format!("bg={}", col_str(self.bg)));
        }
        if self.ul != Col::Default {
            v.push(format!("ul={}", col_str(self.ul)));
        }
        if self.fx != 0 {
            v.push(format!("fx={}", fx_str(self.fx)));
        }
        if v.is_empty() {
            v.push("plain".into());
        }
        v
    }
    fn to_json(&self) -> Value {
        json!({"fg": col_str(self.fg), "bg": col_str(self.bg), "ul": col_str(self.ul), "fx": self.fx})
    }
    fn from_json(v: &Value) -> Result<Sty, String> {
        Ok(Sty {
            fg: col_parse(v["fg"].as_str().unwrap_or(""))?,
            bg: col_parse(v["bg"].as_str().unwrap_or(""))?,
            ul: col_parse(v["ul"].as_str().unwrap_or(""))?,
            fx: v["fx"].as_u64().ok_or("bad fx")? as u16,
        })
    }
    /// number of non-default components (for "simplest first" ordering)
    fn weight(&self) -> u32 {
        (self.fg != Col::Default) as u32
            + (self.bg != Col::Default) as u32
            + (self.ul != Col::Default) as u32
            + self.fx.count_ones()
    }
    /// the single-component sub-styles of this style, in a fixed order
    fn singles(&self) -> Vec<Sty> {
        let mut v = vec![];
        if self.fg != Col::Default {
            v.push(Sty { fg: self.fg, ..Sty::PLAIN });
        }
        if self.bg != Col::Default {
            v.push(Sty { bg: self.bg, ..Sty::PLAIN });
        }
        if self.ul != Col::Default {
            v.push(Sty { ul: self.ul, ..Sty::PLAIN });
        }
        for i in 0..12 {
            if self.fx & (1 << i) != 0 {
                v.push(Sty { fx: 1 << i, ..Sty::PLAIN });
            }
        }
        v
    }
}

// ---------------------------------------------------------------------------
// expressibility table: what each target library can express

#[derive(Clone, Copy, Debug, PartialEq, Eq)]
enum Bright {
    /// the target colour type has dedicated bright variants: brightness must be kept
    Exact,
    /// the adapter's own convention (ansi_term foreground): base hue + bold; the exact bright colour is accepted too
    BoldConvention,
    /// the target's named colours have no per-slot bright variants: only the hue is required
    HueOnly,
}

struct Target {
    name: &'static str,
    /// effects the target library can express: must be preserved
    required: u16,
    /// effects only newer versions than the adapter's declared minimum can express: may be kept or dropped
    optional: u16,
    underline_colour: bool,
    bright_fg: Bright,
    bright_bg: Bright,
    brightness_note: &'static str,
}

const BASIC8: u16 =
    fx::BOLD | fx::DIMMED | fx::ITALIC | fx::UNDERLINE | fx::BLINK | fx::INVERT | fx::HIDDEN | fx::STRIKETHROUGH;

const TARGETS: [Target; 5] = [
    Target {
        name: "anstyle-ansi-term",
        required: BASIC8,
        optional: 0,
        underline_colour: false,
        bright_fg: Bright::BoldConvention,
        bright_bg: Bright::HueOnly,
        brightness_note: "ansi_term::Colour has 8 named hues, Fixed(n), RGB; bright foreground = hue + bold (adapter convention) or the exact bright colour; bright background: hue only",
    },
    Target {
        name: "anstyle-crossterm",
        required: 0x0fff,
        optional: 0,
        underline_colour: true,
        bright_fg: Bright::Exact,
        bright_bg: Bright::Exact,
        brightness_note: "crossterm::style::Color has Dark*/bright variants for all 16 colours; Attribute has Bold, Dim, Italic, Underlined, DoubleUnderlined, Undercurled, Underdotted, Underdashed, SlowBlink, Reverse, Hidden, CrossedOut; ContentStyle has underline_color",
    },
    Target {
        name: "anstyle-owo-colors",
        required: BASIC8,
        optional: 0,
        underline_colour: false,
        bright_fg: Bright::Exact,
        bright_bg: Bright::Exact,
        brightness_note: "owo_colors::AnsiColors has Bright* variants",
    },
    Target {
        name: "anstyle-termcolor",
        required: fx::BOLD | fx::DIMMED | fx::ITALIC | fx::UNDERLINE,
        optional: fx::STRIKETHROUGH,
        underline_colour: false,
        bright_fg: Bright::HueOnly,
        bright_bg: Bright::HueOnly,
        brightness_note: "termcolor::Color has 8 named hues, Ansi256, Rgb; ColorSpec::intense is one flag for both slots, so per-slot brightness is not expressible with named colours: hue only (the exact bright colour is accepted too)",
    },
    Target {
        name: "anstyle-yansi",
        required: BASIC8,
        optional: 0,
        underline_colour: false,
        bright_fg: Bright::Exact,
        bright_bg: Bright::Exact,
        brightness_note: "yansi::Color has Bright* variants",
    },
];

// ---------------------------------------------------------------------------
// read-outs of a converted value

#[derive(Clone, Debug, Default)]
struct Read {
    name: &'static str,
    fg: Option<Col>,
    bg: Option<Col>,
    ul: Option<Col>,
    fx: Option<u16>,
    /// attributes set on the converted value that are no anstyle effect at all
    foreign: Vec<String>,
    error: Option<String>,
    raw: String,
}

/// Parse bytes produced by a third-party renderer around the content "x":
/// only `CSI ... m` sequences and the single content character are allowed.
/// Returns the SGR state in force when "x" is printed.
fn interpret(name: &'static str, bytes: &[u8]) -> Read {
    let mut r = Read { name, raw: show(bytes), ..Default::default() };
    let mut vt = Vt::default();
    let mut sgr = Sgr::default();
    let mut at: Option<Sgr> = None;
    for ev in vt.feed(bytes) {
        match ev {
            Ev::Csi { params, inter, ignore: false, byte: b'm' } if inter.is_empty() => {
                let _ = sgr.apply(&params);
            }
            Ev::Print('x') if at.is_none() => at = Some(sgr),
            other => {
                r.error = Some(format!("rendered output contains something other than SGR sequences and the content: {other:?}"));
                return r;
            }
        }
    }
    if vt.st != St::Ground {
        r.error = Some("rendered output ends inside an escape sequence".into());
        return r;
    }
    match at {
        None => r.error = Some("content character was not printed".into()),
        Some(s) => {
            r.fg = Some(s.fg);
            r.bg = Some(s.bg);
            r.ul = Some(s.ul_color);
            r.fx = Some(s.seen);
        }
    }
    r
}

fn opt(c: Option<Col>) -> Col {
    c.unwrap_or(Col::Default)
}

// ---- ansi_term -------------------------------------------------------------

fn at_col(c: ansi_term::Colour) -> Col {
    use ansi_term::Colour as C;
    match c {
        C::Black => Col::Ansi(0),
        C::Red => Col::Ansi(1),
        C::Green => Col::Ansi(2),
        C::Yellow => Col::Ansi(3),
        C::Blue => Col::Ansi(4),
        C::Purple => Col::Ansi(5),
        C::Cyan => Col::Ansi(6),
        C::White => Col::Ansi(7),
        C::Fixed(n) => Col::Idx(n),
        C::RGB(r, g, b) => Col::Rgb(r, g, b),
    }
}

fn eval_ansi_term(sty: &Sty) -> Vec<Read> {
    let s = anstyle_ansi_term::to_ansi_term(sty.real());
    let painted = format!("{}", s.paint("x"));
    let affix = format!("{}x{}", s.prefix(), s.suffix());
    let mut bits = 0;
    for (on, b) in [
        (s.is_bold, fx::BOLD),
        (s.is_dimmed, fx::DIMMED),
        (s.is_italic, fx::ITALIC),
        (s.is_underline, fx::UNDERLINE),
        (s.is_blink, fx::BLINK),
        (s.is_reverse, fx::INVERT),
        (s.is_hidden, fx::HIDDEN),
        (s.is_strikethrough, fx::STRIKETHROUGH),
    ] {
        if on {
            bits |= b;
        }
    }
    let fields = Read {
        name: "ansi_term::Style fields",
        fg: Some(opt(s.foreground.map(at_col))),
        bg: Some(opt(s.background.map(at_col))),
        ul: None,
        fx: Some(bits),
        raw: format!("{s:?}"),
        ..Default::default()
    };
    vec![interpret("ansi_term Style::paint Display", painted.as_bytes()), interpret("ansi_term Style::prefix/suffix", affix.as_bytes()), fields]
}

// ---- crossterm -------------------------------------------------------------

fn ct_col(c: crossterm::style::Color) -> Result<Col, String> {
    use crossterm::style::Color as C;
    Ok(match c {
        C::Reset => Col::Default,
        C::Black => Col::Ansi(0),
        C::DarkRed => Col::Ansi(1),
        C::DarkGreen => Col::Ansi(2),
        C::DarkYellow => Col::Ansi(3),
        C::DarkBlue => Col::Ansi(4),
        C::DarkMagenta => Col::Ansi(5),
        C::DarkCyan => Col::Ansi(6),
        C::Grey => Col::Ansi(7),
        C::DarkGrey => Col::Ansi(8),
        C::Red => Col::Ansi(9),
        C::Green => Col::Ansi(10),
        C::Yellow => Col::Ansi(11),
        C::Blue => Col::Ansi(12),
        C::Magenta => Col::Ansi(13),
        C::Cyan => Col::Ansi(14),
        C::White => Col::Ansi(15),
        C::AnsiValue(n) => Col::Idx(n),
        C::Rgb { r, g, b } => Col::Rgb(r, g, b),
    })
}

fn eval_crossterm(sty: &Sty) -> Vec<Read> {
    use crossterm::style::Attribute as A;
    let cs = anstyle_crossterm::to_crossterm(sty.real());
    let rendered = format!("{}", crossterm::style::StyledContent::new(cs, "x"));
    let mut fields = Read { name: "crossterm ContentStyle fields", raw: format!("{cs:?}"), ..Default::default() };
    let mut bits = 0;
    for a in A::iterator() {
        if !cs.attributes.has(a) {
            continue;
        }
        match a {
            A::Bold => bits |= fx::BOLD,
            A::Dim => bits |= fx::DIMMED,
            A::Italic => bits |= fx::ITALIC,
            A::Underlined => bits |= fx::UNDERLINE,
            A::DoubleUnderlined => bits |= fx::DOUBLE_UNDERLINE,
            A::Undercurled => bits |= fx::CURLY_UNDERLINE,
            A::Underdotted => bits |= fx::DOTTED_UNDERLINE,
            A::Underdashed => bits |= fx::DASHED_UNDERLINE,
            A::SlowBlink | A::RapidBlink => bits |= fx::BLINK,
            A::Reverse => bits |= fx::INVERT,
            A::Hidden => bits |= fx::HIDDEN,
            A::CrossedOut => bits |= fx::STRIKETHROUGH,
            other => fields.foreign.push(format!("{other:?}")),
        }
    }
    fields.fx = Some(bits);
    let mut conv = |c: Option<crossterm::style::Color>| match c.map(ct_col) {
        None => Some(Col::Default),
        Some(Ok(c)) => Some(c),
        Some(Err(e)) => {
            fields.error = Some(e);
            None
        }
    };
    fields.fg = conv(cs.foreground_color);
    fields.bg = conv(cs.background_color);
    fields.ul = conv(cs.underline_color);
    vec![interpret("crossterm StyledContent Display", rendered.as_bytes()), fields]
}

// ---- owo-colors ------------------------------------------------------------

fn owo_col(c: owo_colors::DynColors) -> Result<Col, String> {
    use owo_colors::AnsiColors as A;
    use owo_colors::DynColors as D;
    Ok(match c {
        D::Ansi(a) => match a {
            A::Black => Col::Ansi(0),
            A::Red => Col::Ansi(1),
            A::Green => Col::Ansi(2),
            A::Yellow => Col::Ansi(3),
            A::Blue => Col::Ansi(4),
            A::Magenta => Col::Ansi(5),
            A::Cyan => Col::Ansi(6),
            A::White => Col::Ansi(7),
            A::Default => Col::Default,
            A::BrightBlack => Col::Ansi(8),
            A::BrightRed => Col::Ansi(9),
            A::BrightGreen => Col::Ansi(10),
            A::BrightYellow => Col::Ansi(11),
            A::BrightBlue => Col::Ansi(12),
            A::BrightMagenta => Col::Ansi(13),
            A::BrightCyan => Col::Ansi(14),
            A::BrightWhite => Col::Ansi(15),
        },
        D::Xterm(x) => Col::Idx(u8::from(x)),
        D::Rgb(r, g, b) => Col::Rgb(r, g, b),
        D::Css(c) => return Err(format!("unexpected CSS colour {c:?}")),
    })
}

fn eval_owo(sty: &Sty) -> Vec<Read> {
    let real = sty.real();
    let s = anstyle_owo_colors::to_owo_style(real);
    let rendered = format!("{}", s.style("x"));
    let mut f = Read { name: "anstyle_owo_colors::to_owo_colors value", ..Default::default() };
    let mut conv = |c: Option<anstyle::Color>| match c.map(|c| owo_col(anstyle_owo_colors::to_owo_colors(c))) {
        None => Some(Col::Default),
        Some(Ok(c)) => Some(c),
        Some(Err(e)) => {
            f.error = Some(e);
            None
        }
    };
    f.fg = conv(real.get_fg_color());
    f.bg = conv(real.get_bg_color());
    vec![interpret("owo_colors Style::style Display", rendered.as_bytes()), f]
}

// ---- termcolor -------------------------------------------------------------

fn tc_col(c: &termcolor::Color, intense: bool) -> Result<Col, String> {
    use termcolor::Color as C;
    let hue = |h: u8| Col::Ansi(if intense { h + 8 } else { h });
    Ok(match c {
        C::Black => hue(0),
        C::Red => hue(1),
        C::Green => hue(2),
        C::Yellow => hue(3),
        C::Blue => hue(4),
        C::Magenta => hue(5),
        C::Cyan => hue(6),
        C::White => hue(7),
        C::Ansi256(n) => Col::Idx(*n),
        C::Rgb(r, g, b) => Col::Rgb(*r, *g, *b),
        other => return Err(format!("unexpected termcolor colour {other:?}")),
    })
}

fn eval_termcolor(sty: &Sty) -> Vec<Read> {
    use termcolor::WriteColor as _;
    let real = sty.real();
    let spec = anstyle_termcolor::to_termcolor_spec(real);
    let mut w = termcolor::Ansi::new(Vec::new());
    let res = w.set_color(&spec).and_then(|_| w.write_all(b"x")).and_then(|_| w.reset());
    let bytes = w.into_inner();
    let mut rendered = interpret("termcolor Ansi::set_color", &bytes);
    if let Err(e) = res {
        rendered.error = Some(format!("termcolor returned an error: {e}"));
    }
    let mut fields = Read { name: "termcolor ColorSpec getters", raw: format!("{spec:?}"), ..Default::default() };
    let mut bits = 0;
    for (on, b) in [
        (spec.bold(), fx::BOLD),
        (spec.dimmed(), fx::DIMMED),
        (spec.italic(), fx::ITALIC),
        (spec.underline(), fx::UNDERLINE),
        (spec.strikethrough(), fx::STRIKETHROUGH),
    ] {
        if on {
            bits |= b;
        }
    }
    fields.fx = Some(bits);
    let mut ferr = None;
    let mut conv = |c: Option<Result<Col, String>>| match c {
        None => Some(Col::Default),
        Some(Ok(c)) => Some(c),
        Some(Err(e)) => {
            ferr = Some(e);
            None
        }
    };
    fields.fg = conv(spec.fg().map(|c| tc_col(c, spec.intense())));
    fields.bg = conv(spec.bg().map(|c| tc_col(c, spec.intense())));
    let mut f2 = Read { name: "anstyle_termcolor::to_termcolor_color value", ..Default::default() };
    f2.fg = conv(real.get_fg_color().map(|c| tc_col(&anstyle_termcolor::to_termcolor_color(c), false)));
    f2.bg = conv(real.get_bg_color().map(|c| tc_col(&anstyle_termcolor::to_termcolor_color(c), false)));
    fields.error = ferr;
    vec![rendered, fields, f2]
}

// ---- yansi -----------------------------------------------------------------

fn ya_col(c: yansi::Color) -> Col {
    use yansi::Color as C;
    match c {
        C::Primary => Col::Default,
        C::Fixed(n) => Col::Idx(n),
        C::Rgb(r, g, b) => Col::Rgb(r, g, b),
        C::Black => Col::Ansi(0),
        C::Red => Col::Ansi(1),
        C::Green => Col::Ansi(2),
        C::Yellow => Col::Ansi(3),
        C::Blue => Col::Ansi(4),
        C::Magenta => Col::Ansi(5),
        C::Cyan => Col::Ansi(6),
        C::White => Col::Ansi(7),
        C::BrightBlack => Col::Ansi(8),
        C::BrightRed => Col::Ansi(9),
        C::BrightGreen => Col::Ansi(10),
        C::BrightYellow => Col::Ansi(11),
        C::BrightBlue => Col::Ansi(12),
        C::BrightMagenta => Col::Ansi(13),
        C::BrightCyan => Col::Ansi(14),
        C::BrightWhite => Col::Ansi(15),
    }
}

fn eval_yansi(sty: &Sty) -> Vec<Read> {
    use yansi::Paint as _;
    let real = sty.real();
    let s = anstyle_yansi::to_yansi_style(real);
    let mut affix = String::new();
    let _ = s.fmt_prefix(&mut affix);
    affix.push('x');
    let _ = s.fmt_suffix(&mut affix);
    let painted = format!("{}", "x".paint(s));
    let fields = Read {
        name: "yansi::Style colour fields",
        fg: Some(opt(s.foreground.map(ya_col))),
        bg: Some(opt(s.background.map(ya_col))),
        raw: format!("{s:?}"),
        ..Default::default()
    };
    let f2 = Read {
        name: "anstyle_yansi::to_yansi_color value",
        fg: Some(opt(real.get_fg_color().map(|c| ya_col(anstyle_yansi::to_yansi_color(c))))),
        bg: Some(opt(real.get_bg_color().map(|c| ya_col(anstyle_yansi::to_yansi_color(c))))),
        ..Default::default()
    };
    vec![interpret("yansi Style::fmt_prefix/fmt_suffix", affix.as_bytes()), interpret("yansi Painted Display", painted.as_bytes()), fields, f2]
}

fn eval_reads(ai: usize, sty: &Sty) -> Vec<Read> {
    match ai {
        0 => eval_ansi_term(sty),
        1 => eval_crossterm(sty),
        2 => eval_owo(sty),
        3 => eval_termcolor(sty),
        4 => eval_yansi(sty),
        _ => unreachable!(),
    }
}

// ---------------------------------------------------------------------------
// the oracle

#[derive(Clone, Debug, PartialEq, Eq, Hash, PartialOrd, Ord)]
struct Mis {
    /// oracle clause incl. the component it concerns, e.g. "fg-colour", "effect-lost:STRIKETHROUGH"
    clause: String,
    detail: String,
}

/// (acceptable, bold is part of the colour's expression)
fn colour_ok(exp: Col, act: Col, mode: Bright, act_fx: Option<u16>) -> (bool, bool) {
    match exp {
        Col::Ansi(i) if i >= 8 => {
            if act.same_modulo_16(Col::Ansi(i)) {
                return (true, false);
            }
            let base = act.same_modulo_16(Col::Ansi(i - 8));
            match mode {
                Bright::Exact => (false, false),
                Bright::HueOnly => (base, false),
                Bright::BoldConvention => {
                    let bold = act_fx.map(|f| f & fx::BOLD != 0).unwrap_or(true);
                    (base && bold, base && bold)
                }
            }
        }
        _ => (exp.same_modulo_16(act), false),
    }
}

fn compare(t: &Target, sty: &Sty, reads: &[Read]) -> Vec<Mis> {
    let mut by_clause: BTreeMap<String, Vec<String>> = BTreeMap::new();
    let mut add = |clause: String, detail: String| by_clause.entry(clause).or_default().push(detail);
    for r in reads {
        if let Some(e) = &r.error {
            add("render-structure".into(), format!("[{}] {e} (raw {})", r.name, r.raw));
            continue;
        }
        // under the bold convention a bright foreground is allowed to bring BOLD along (even if the hue is
        // wrong: that is then reported once, as the colour mismatch)
        let bold_excused = t.bright_fg == Bright::BoldConvention && matches!(sty.fg, Col::Ansi(i) if i >= 8);
        if let Some(a) = r.fg {
            let (ok, _) = colour_ok(sty.fg, a, t.bright_fg, r.fx);
            if !ok {
                add("fg-colour".into(), format!("[{}] foreground {} came out as {} (raw {})", r.name, col_str(sty.fg), col_str(a), r.raw));
            }
        }
        if let Some(a) = r.bg {
            // bold never expresses background brightness
            let mode = if t.bright_bg == Bright::BoldConvention { Bright::HueOnly } else { t.bright_bg };
            let (ok, _) = colour_ok(sty.bg, a, mode, r.fx);
            if !ok {
                add("bg-colour".into(), format!("[{}] background {} came out as {} (raw {})", r.name, col_str(sty.bg), col_str(a), r.raw));
            }
        }
        if let Some(a) = r.ul {
            if t.underline_colour {
                let (ok, _) = colour_ok(sty.ul, a, Bright::Exact, r.fx);
                if !ok {
                    add("ul-colour".into(), format!("[{}] underline colour {} came out as {} (raw {})", r.name, col_str(sty.ul), col_str(a), r.raw));
                }
            }
        }
        if let Some(a) = r.fx {
            for i in 0..12 {
                let bit = 1u16 << i;
                let want = sty.fx & bit != 0;
                let have = a & bit != 0;
                if want && !have && t.required & bit != 0 {
                    add(format!("effect-lost:{}", fx::NAMES[i]), format!("[{}] effects {} came out as {} (raw {})", r.name, fx_str(sty.fx), fx_str(a), r.raw));
                }
                if have && !want && !(bit == fx::BOLD && bold_excused) {
                    add(format!("effect-added:{}", fx::NAMES[i]), format!("[{}] effects {} came out as {} (raw {})", r.name, fx_str(sty.fx), fx_str(a), r.raw));
                }
            }
        }
        for f in &r.foreign {
            add(format!("effect-added:foreign-{f}"), format!("[{}] attribute {f}, which is no effect of the style, is set (raw {})", r.name, r.raw));
        }
    }
    by_clause.into_iter().map(|(clause, d)| Mis { clause, detail: d.join(" ; ") }).collect()
}

fn evaluate(ai: usize, sty: &Sty) -> Vec<Mis> {
    let s = *sty;
    match std::panic::catch_unwind(move || eval_reads(ai, &s)) {
        Ok(reads) => compare(&TARGETS[ai], sty, &reads),
        Err(_) => vec![Mis { clause: "panic".into(), detail: "conversion or third-party rendering panicked".into() }],
    }
}

thread_local! {
    static CACHE: RefCell<HashMap<(usize, Sty), Vec<Mis>>> = RefCell::new(HashMap::new());
}

fn evaluate_cached(ai: usize, sty: &Sty) -> Vec<Mis> {
    if let Some(v) = CACHE.with(|c| c.borrow().get(&(ai, *sty)).cloned()) {
        return v;
    }
    let v = evaluate(ai, sty);
    CACHE.with(|c| {
        let mut c = c.borrow_mut();
        if c.len() > 100_000 {
            c.clear();
        }
        c.insert((ai, *sty), v.clone());
    });
    v
}

/// The minimal style that shows the same mismatch clause: a single-component
/// sub-style if one reproduces it, else the style itself.
fn attribute(ai: usize, sty: &Sty, m: &Mis) -> (Sty, String) {
    let singles = sty.singles();
    if singles.len() > 1 {
        for s in &singles {
            if let Some(m2) = evaluate_cached(ai, s).into_iter().find(|x| x.clause == m.clause) {
                return (*s, m2.detail);
            }
        }
    }
    if singles.len() > 2 {
        // two-component sub-styles (an interaction of two attributes)
        for i in 0..singles.len() {
            for j in i + 1..singles.len() {
                let (a, b) = (singles[i], singles[j]);
                let pick = |x: Col, y: Col| if x != Col::Default { x } else { y };
                let s = Sty { fg: pick(a.fg, b.fg), bg: pick(a.bg, b.bg), ul: pick(a.ul, b.ul), fx: a.fx | b.fx };
                if let Some(m2) = evaluate_cached(ai, &s).into_iter().find(|x| x.clause == m.clause) {
                    return (s, m2.detail);
                }
            }
        }
    }
    (*sty, m.detail.clone())
}

// ---------------------------------------------------------------------------
// domain

fn all_colours() -> Vec<Col> {
    let mut v = vec![Col::Default];
    for i in 0..16 {
        v.push(Col::Ansi(i));
    }
    for n in 0..=255u8 {
        v.push(Col::Idx(n));
    }
    for r in 0..6u16 {
        for g in 0..6u16 {
            for b in 0..6u16 {
                v.push(Col::Rgb((r * 51) as u8, (g * 51) as u8, (b * 51) as u8));
            }
        }
    }
    v
}

fn rep_colours() -> Vec<Col> {
    vec![
        Col::Default,
        Col::Ansi(1),
        Col::Ansi(4),
        Col::Ansi(8),
        Col::Ansi(12),
        Col::Ansi(15),
        Col::Idx(4),
        Col::Idx(12),
        Col::Idx(196),
        Col::Rgb(0, 0, 0),
        Col::Rgb(255, 255, 255),
        Col::Rgb(1, 2, 3),
    ]
}

fn rep_effects() -> Vec<u16> {
    let mut v = vec![0u16];
    for i in 0..12 {
        v.push(1 << i);
    }
    v.push(0x0fff);
    v.push(fx::BOLD | fx::ITALIC | fx::UNDERLINE);
    v.push(0x0fff & !fx::BOLD);
    v
}

struct Part {
    name: String,
    len: u64,
    get: Box<dyn Fn(u64) -> Sty + Sync + Send>,
}

fn slot_set(slot: usize, c: Col, fxs: u16) -> Sty {
    let mut s = Sty { fx: fxs, ..Sty::PLAIN };
    match slot {
        0 => s.fg = c,
        1 => s.bg = c,
        _ => s.ul = c,
    }
    s
}

fn parts(quick: bool) -> Vec<Part> {
    let all = all_colours();
    let rep = rep_colours();
    let repfx = rep_effects();
    let allfx: Vec<u16> = (0..4096).collect();
    let slots = ["fg", "bg", "underline-colour"];
    let mut v = vec![];
    let slot_part = |slot: usize, cols: &Vec<Col>, fxs: &Vec<u16>, label: &str| {
        let (cols, fxs) = (cols.clone(), fxs.clone());
        let (nc, nf) = (cols.len() as u64, fxs.len() as u64);
        Part {
            name: format!("{} slot: {label}", slots[slot]),
            len: nc * nf,
            get: Box::new(move |i| slot_set(slot, cols[(i / nf) as usize], fxs[(i % nf) as usize])),
        }
    };
    let triple_part = |cols: &Vec<Col>, fxs: &Vec<u16>, label: &str| {
        let (cols, fxs) = (cols.clone(), fxs.clone());
        let (nc, nf) = (cols.len() as u64, fxs.len() as u64);
        Part {
            name: format!("fg x bg x underline-colour: {label}"),
            len: nc * nc * nc * nf,
            get: Box::new(move |i| {
                let f = i % nf;
                let c = i / nf;
                Sty { fg: cols[(c / (nc * nc)) as usize], bg: cols[((c / nc) % nc) as usize], ul: cols[(c % nc) as usize], fx: fxs[f as usize] }
            }),
        }
    };
    if quick {
        for slot in 0..3 {
            v.push(slot_part(slot, &all, &repfx, "all 489 colours x 16 representative effect sets"));
            v.push(slot_part(slot, &rep, &allfx, "12 representative colours x all 4096 effect sets"));
        }
        v.push(triple_part(&rep, &repfx, "12^3 representative colours x 16 representative effect sets"));
    } else {
        for slot in 0..3 {
            v.push(slot_part(slot, &all, &allfx, "all 489 colours x all 4096 effect sets"));
        }
        {
            let (cols, fxs) = (all.clone(), repfx.clone());
            let (nc, nf) = (cols.len() as u64, fxs.len() as u64);
            v.push(Part {
                name: "fg x bg: all 489 x 489 colour pairs x 16 representative effect sets".into(),
                len: nc * nc * nf,
                get: Box::new(move |i| {
                    let c = i / nf;
                    Sty { fg: cols[(c / nc) as usize], bg: cols[(c % nc) as usize], ul: Col::Default, fx: fxs[(i % nf) as usize] }
                }),
            });
        }
        v.push(triple_part(&rep, &allfx, "12^3 representative colours x all 4096 effect sets"));
    }
    v
}

// ---------------------------------------------------------------------------
// syntect -> anstyle

fn syntect_case(fg: (u8, u8, u8), bg: (u8, u8, u8), alpha: u8, font: u8) -> Vec<Mis> {
    use syntect::highlighting::{Color, FontStyle, Style};
    let mut fs = FontStyle::empty();
    let mut want = 0u16;
    if font & 1 != 0 {
        fs |= FontStyle::BOLD;
        want |= fx::BOLD;
    }
    if font & 2 != 0 {
        fs |= FontStyle::ITALIC;
        want |= fx::ITALIC;
    }
    if font & 4 != 0 {
        fs |= FontStyle::UNDERLINE;
        want |= fx::UNDERLINE;
    }
    let st = Style {
        foreground: Color { r: fg.0, g: fg.1, b: fg.2, a: alpha },
        background: Color { r: bg.0, g: bg.1, b: bg.2, a: alpha },
        font_style: fs,
    };
    let got = style_tuple(&anstyle_syntect::to_anstyle(st));
    let mut v = vec![];
    let (efg, ebg) = (Col::Rgb(fg.0, fg.1, fg.2), Col::Rgb(bg.0, bg.1, bg.2));
    if got.0 != efg {
        v.push(Mis { clause: "fg-colour".into(), detail: format!("to_anstyle: foreground {} came out as {}", col_str(efg), col_str(got.0)) });
    }
    if got.1 != ebg {
        v.push(Mis { clause: "bg-colour".into(), detail: format!("to_anstyle: background {} came out as {}", col_str(ebg), col_str(got.1)) });
    }
    if got.2 != Col::Default {
        v.push(Mis { clause: "ul-colour".into(), detail: format!("to_anstyle: underline colour {} invented", col_str(got.2)) });
    }
    if got.3 != want {
        v.push(Mis { clause: "effects".into(), detail: format!("to_anstyle: font style {} came out as {}", fx_str(want), fx_str(got.3)) });
    }
    // the public component functions
    let c = anstyle_syntect::to_anstyle_color(st.foreground);
    if vchecks::common::col_of(Some(c)) != efg {
        v.push(Mis { clause: "fg-colour".into(), detail: format!("to_anstyle_color: {} came out as {c:?}", col_str(efg)) });
    }
    let e = vchecks::common::effects_bits(anstyle_syntect::to_anstyle_effects(fs));
    if e != want {
        v.push(Mis { clause: "effects".into(), detail: format!("to_anstyle_effects: font style {} came out as {}", fx_str(want), fx_str(e)) });
    }
    v
}

fn lattice() -> Vec<(u8, u8, u8)> {
    let mut v = vec![];
    for r in 0..6u16 {
        for g in 0..6u16 {
            for b in 0..6u16 {
                v.push(((r * 51) as u8, (g * 51) as u8, (b * 51) as u8));
            }
        }
    }
    v
}

// ---------------------------------------------------------------------------

fn setup_third_party() {
    // crossterm honours NO_COLOR through a memoised global; yansi has a global switch
    static ONCE: std::sync::Once = std::sync::Once::new();
    ONCE.call_once(|| {
        std::env::remove_var("NO_COLOR");
        crossterm::style::Colored::set_ansi_color_disabled(false);
        yansi::enable();
    });
}

type Key = (usize, String, Sty);

fn main_check(ctx: &Ctx) -> Outcome {
    let mut out = Outcome::default();
    let quick = ctx.quick();
    setup_third_party();
    let parts = parts(quick);

    // distinct styles of the domain (the same for every adapter)
    let mut distinct: Vec<Sty> = parts.par_iter().flat_map(|p| (0..p.len).into_par_iter().map(move |i| (p.get)(i))).collect();
    distinct.par_sort_unstable();
    distinct.dedup();
    let distinct_styles = distinct.len() as u64;
    let distinct_nonplain = distinct.iter().filter(|s| **s != Sty::PLAIN).count() as u64;
    drop(distinct);

    let mut evaluations = 0u64;
    let mut failing_styles = 0u64;
    let mut found: BTreeMap<Key, (String, u64)> = BTreeMap::new();
    for (ai, t) in TARGETS.iter().enumerate() {
        let mut adapter_fail = 0u64;
        for p in &parts {
            let (fails, map) = (0..p.len)
                .into_par_iter()
                .fold(
                    || (0u64, BTreeMap::<Key, (String, u64)>::new()),
                    |(mut fails, mut map), i| {
                        let sty = (p.get)(i);
                        let mis = evaluate(ai, &sty);
                        if !mis.is_empty() {
                            fails += 1;
                            for m in &mis {
                                let (case, detail) = attribute(ai, &sty, m);
                                let e = map.entry((ai, m.clause.clone(), case)).or_insert((detail, 0));
                                e.1 += 1;
                            }
                        }
                        (fails, map)
                    },
                )
                .reduce(
                    || (0, BTreeMap::new()),
                    |(fa, mut ma), (fb, mb)| {
                        for (k, (d, n)) in mb {
                            let e = ma.entry(k).or_insert((d, 0));
                            e.1 += n;
                        }
                        (fa + fb, ma)
                    },
                );
            evaluations += p.len;
            adapter_fail += fails;
            for (k, (d, n)) in map {
                let e = found.entry(k).or_insert((d, 0));
                e.1 += n;
            }
        }
        failing_styles += adapter_fail;
        out.push_part(json!({
            "system": t.name,
            "styles_evaluated": parts.iter().map(|p| p.len).sum::<u64>(),
            "styles_with_a_mismatch": adapter_fail,
            "parts": parts.iter().map(|p| json!({"part": p.name, "styles": p.len})).collect::<Vec<_>>(),
        }));
    }

    // findings, simplest case first
    let mut fl: Vec<(&Key, &(String, u64))> = found.iter().collect();
    fl.sort_by_key(|(k, _)| (k.0, k.2.weight(), k.1.clone(), k.2));
    // at most 25 findings per (adapter, clause), simplest first, so that a flood in one clause hides no other
    let mut per_clause: HashMap<(usize, String), usize> = HashMap::new();
    let mut kept = 0usize;
    for (k, (detail, n)) in fl.iter() {
        let c = per_clause.entry((k.0, k.1.clone())).or_insert(0);
        *c += 1;
        if *c > 25 || kept >= 400 {
            out.extra_violation_count += 1;
            continue;
        }
        kept += 1;
        out.findings.push(Finding {
            system: TARGETS[k.0].name.to_string(),
            clause: k.1.clone(),
            case: k.2.tokens(),
            message: format!("{detail} [{n} enumerated style(s) show this mismatch and reduce to this case]"),
            replay: json!({"kind": "style", "adapter": TARGETS[k.0].name, "style": k.2.to_json(), "clause": k.1}),
        });
    }

    // syntect -> anstyle
    let lat = lattice();
    let cases: Vec<((u8, u8, u8), (u8, u8, u8), u8, u8)> = lat
        .iter()
        .flat_map(|&f| lat.iter().map(move |&b| (f, b)))
        .flat_map(|(f, b)| [0u8, 255].into_iter().flat_map(move |a| (0..8u8).map(move |s| (f, b, a, s))))
        .collect();
    let syn: BTreeMap<(String, String), (String, u64)> = cases
        .par_iter()
        .fold(BTreeMap::new, |mut m: BTreeMap<(String, String), (String, u64)>, &(f, b, a, s)| {
            for mis in syntect_case(f, b, a, s) {
                let comp = match mis.clause.as_str() {
                    "fg-colour" => format!("fg=rgb:{},{},{}", f.0, f.1, f.2),
                    "bg-colour" => format!("bg=rgb:{},{},{}", b.0, b.1, b.2),
                    _ => format!("font-style-bits={s}"),
                };
                let payload =
                    json!({"kind":"syntect","fg":[f.0,f.1,f.2],"bg":[b.0,b.1,b.2],"alpha":a,"font":s,"detail":mis.detail}).to_string();
                let e = m.entry((mis.clause.clone(), comp)).or_insert((payload.clone(), 0));
                if payload < e.0 {
                    e.0 = payload;
                }
                e.1 += 1;
            }
            m
        })
        .reduce(BTreeMap::new, |mut a, b| {
            for (k, (d, n)) in b {
                match a.get_mut(&k) {
                    Some(e) => {
                        e.1 += n;
                        if d < e.0 {
                            e.0 = d;
                        }
                    }
                    None => {
                        a.insert(k, (d, n));
                    }
                }
            }
            a
        });
    evaluations += cases.len() as u64;
    for ((clause, comp), (payload, n)) in syn.iter().take(100) {
        let p: Value = serde_json::from_str(payload).unwrap();
        out.findings.push(Finding {
            system: "anstyle-syntect".into(),
            clause: clause.clone(),
            case: vec![comp.clone()],
            message: format!("{} [{n} enumerated case(s)]", p["detail"].as_str().unwrap_or("")),
            replay: p.clone(),
        });
    }
    out.push_part(json!({"system": "anstyle-syntect", "cases": cases.len(), "rule": "216 x 216 RGB lattice fg/bg pairs x alpha {0,255} x all 8 font-style subsets; to_anstyle, to_anstyle_color, to_anstyle_effects"}));

    // every finding must reproduce, twice, from its replay payload alone (else it is a machinery error, not a verdict)
    for f in &out.findings {
        for _ in 0..2 {
            if replay(&f.replay).is_ok() {
                eprintln!("MACHINERY ERROR: finding {} does not reproduce from its replay payload", f.key());
                std::process::exit(2);
            }
        }
    }

    out.set("evaluations", json!(evaluations));
    out.set("distinct_nontrivial", json!(distinct_nonplain * TARGETS.len() as u64));
    out.set("distinct_styles_per_adapter", json!(distinct_styles));
    out.set("styles_with_a_mismatch", json!(failing_styles));
    out.set(
        "rule",
        json!("evaluations = (adapter, style) conversions rendered by the third-party crate and read back, plus syntect cases; distinct_nontrivial = distinct non-plain styles of the domain x 5 adapters; a mismatch is reduced to the single-component sub-style that reproduces it (else reported with the full style)"),
    );
    out.set("exhaustive", json!(true));
    out.set(
        "expressibility",
        json!(TARGETS
            .iter()
            .map(|t| json!({
                "target": t.name,
                "effects_required": fx_str(t.required),
                "effects_optional": fx_str(t.optional),
                "effects_not_expressible": fx_str(0x0fff & !(t.required | t.optional)),
                "underline_colour": t.underline_colour,
                "bright_foreground": format!("{:?}", t.bright_fg),
                "bright_background": format!("{:?}", t.bright_bg),
                "note": t.brightness_note,
            }))
            .collect::<Vec<_>>()),
    );
    let sample = Sty { fg: Col::Ansi(9), bg: Col::Idx(200), ul: Col::Rgb(1, 2, 3), fx: fx::BOLD | fx::UNDERLINE };
    for ai in 0..TARGETS.len() {
        let reads = eval_reads(ai, &sample);
        out.push_sample(json!({
            "adapter": TARGETS[ai].name, "style": sample.tokens(), "third_party_output": reads[0].raw,
            "read_back": {"fg": col_str(opt(reads[0].fg)), "bg": col_str(opt(reads[0].bg)), "ul": col_str(opt(reads[0].ul)), "effects": fx_str(reads[0].fx.unwrap_or(0))},
        }));
    }
    out.assume("the reference SGR machine (vmodel::sgr) interprets the third-party output the way a terminal does; codes it does not know (e.g. 53 overline) denote no anstyle effect");
    out.assume("brightness: ansi_term foreground may be expressed as hue + bold (the extra bold is then not counted as an added effect) and ansi_term background / termcolor colours need only keep the hue, although Fixed(8..15) / Ansi256(8..15) / ColorSpec::intense could express brightness (DESIGN section 6: required only where the target colour type has bright variants)");
    out.assume("termcolor STRIKETHROUGH is optional: ColorSpec::set_strikethrough exists in the locked 1.4.1 but not in the adapter's declared minimum 1.1.3");
    out.assume("indices 0-15 of the 256-colour palette and the 16-colour palette are the same colour (crossterm renders named colours as 38;5;n)");
    out.assume("the state after the third-party crate's own suffix/reset is not part of the statement and is not checked");
    out.assume("crossterm's global NO_COLOR switch and yansi's global enable flag are forced on by the check");
    out
}

fn replay(v: &Value) -> Result<(), String> {
    setup_third_party();
    match v["kind"].as_str().unwrap_or("") {
        "style" => {
            let name = v["adapter"].as_str().unwrap_or("");
            let ai = TARGETS.iter().position(|t| t.name == name).ok_or(format!("unknown adapter {name}"))?;
            let sty = Sty::from_json(&v["style"])?;
            let mis = evaluate(ai, &sty);
            if mis.is_empty() {
                Ok(())
            } else {
                Err(mis.iter().map(|m| format!("{}: {}", m.clause, m.detail)).collect::<Vec<_>>().join(" | "))
            }
        }
        "syntect" => {
            let t = |k: &str| -> (u8, u8, u8) {
                let a: Vec<u8> = v[k].as_array().map(|a| a.iter().map(|x| x.as_u64().unwrap_or(0) as u8).collect()).unwrap_or_default();
                (a.first().copied().unwrap_or(0), a.get(1).copied().unwrap_or(0), a.get(2).copied().unwrap_or(0))
            };
            let mis = syntect_case(t("fg"), t("bg"), v["alpha"].as_u64().unwrap_or(0) as u8, v["font"].as_u64().unwrap_or(0) as u8);
            if mis.is_empty() {
                Ok(())
            } else {
                Err(mis.iter().map(|m| format!("{}: {}", m.clause, m.detail)).collect::<Vec<_>>().join(" | "))
            }
        }
        k => Err(format!("unknown replay kind {k}")),
    }
}

fn main() {
    run_check("C16", "exploration", main_check, replay);
}
