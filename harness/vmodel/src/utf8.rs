//! M-UTF8: RFC 3629 well-formedness as a small DFA (Table 3-7 of the Unicode
//! standard).  Independent of the utf8parse crate.

#[derive(Clone, Copy, Debug, PartialEq, Eq, Hash, Default)]
pub struct Utf8Dfa {
    /// continuation bytes still expected (0 = idle)
    need: u8,
    /// allowed range for the next continuation byte
    lo: u8,
    hi: u8,
    acc: u32,
}

#[derive(Clone, Copy, Debug, PartialEq, Eq)]
pub enum Utf8Step {
    More,
    Char(char),
    Reject,
}

impl Utf8Dfa {
    pub fn idle(&self) -> bool {
        self.need == 0
    }

    /// Feed one byte.  In the idle state an ASCII byte yields itself, a valid
    /// lead byte starts a sequence, anything else is rejected.  Inside a
    /// sequence a byte outside the allowed continuation range is rejected
    /// (and consumed); the decoder returns to idle.
    pub fn step(&mut self, b: u8) -> Utf8Step {
        if self.need == 0 {
            let (need, lo, hi, acc) = match b {
                0x00..=0x7f => return Utf8Step::Char(b as char),
                0xc2..=0xdf => (1, 0x80, 0xbf, (b & 0x1f) as u32),
                0xe0 => (2, 0xa0, 0xbf, (b & 0x0f) as u32),
                0xe1..=0xec | 0xee..=0xef => (2, 0x80, 0xbf, (b & 0x0f) as u32),
                0xed => (2, 0x80, 0x9f, (b & 0x0f) as u32),
                0xf0 => (3, 0x90, 0xbf, (b & 0x07) as u32),
                0xf1..=0xf3 => (3, 0x80, 0xbf, (b & 0x07) as u32),
                0xf4 => (3, 0x80, 0x8f, (b & 0x07) as u32),
                _ => return Utf8Step::Reject,
            };
            *self = Utf8Dfa { need, lo, hi, acc };
            return Utf8Step::More;
        }
        if b < self.lo || b > self.hi {
            *self = Utf8Dfa::default();
            return Utf8Step::Reject;
        }
        self.acc = (self.acc << 6) | (b & 0x3f) as u32;
        self.need -= 1;
        self.lo = 0x80;
        self.hi = 0xbf;
        if self.need == 0 {
            let c = char::from_u32(self.acc).expect("DFA only accepts scalar values");
            *self = Utf8Dfa::default();
            Utf8Step::Char(c)
        } else {
            Utf8Step::More
        }
    }
}

/// Length of the well-formed UTF-8 character at the start of `s`, if any.
pub fn wellformed_len(s: &[u8]) -> Option<usize> {
    let mut d = Utf8Dfa::default();
    for (i, &b) in s.iter().enumerate() {
        match d.step(b) {
            Utf8Step::More => {}
            Utf8Step::Char(_) => return Some(i + 1),
            Utf8Step::Reject => return None,
        }
    }
    None
}

#[cfg(test)]
mod tests {
    use super::*;
    #[test]
    fn agrees_with_std_on_all_short_sequences() {
        // every 1- and 2-byte string, plus 3-byte strings over an interesting alphabet
        for a in 0..=255u8 {
            for b in 0..=255u8 {
                let s = [a, b];
                let std_ok = std::str::from_utf8(&s).is_ok();
                let mut d = Utf8Dfa::default();
                let mut ok = true;
                for &x in &s {
                    if d.step(x) == Utf8Step::Reject {
                        ok = false;
                    }
                }
                ok &= d.idle();
                assert_eq!(std_ok, ok, "{:x?}", s);
            }
        }
    }
}
