//! Reference models for the anstyle verification harness.
//! Nothing in this crate depends on the code under test.
pub mod color;
pub mod sgr;
pub mod strip;
pub mod utf8;
pub mod vt;
