//! Reference models for the anstyle verification harness.
//! Nothing in this crate depends on the code under test.
pub mod color;
pub mod env;
pub mod git;
pub mod ls;
pub mod roff;
pub mod runs;
pub mod sgr;
pub mod strip;
pub mod utf8;
pub mod vt;
pub mod xml;
