//! Styled-run model: M-VT events + M-SGR state -> (style, text) runs.
//! Neighbouring runs with equal style are merged; empty runs are dropped.

use crate::sgr::Sgr;
use crate::vt::{Ev, Vt};

#[derive(Clone, Debug, PartialEq, Eq, Hash, Default)]
pub struct RunModel {
    pub vt: Vt,
    pub sgr: Sgr,
    /// set (sticky) when an SGR sequence outside the well-formed grammar was met:
    /// its meaning is not defined by the property, the product cannot be followed further
    pub ill_formed: bool,
}

pub type Run = (Sgr, String);

pub fn merge(runs: Vec<Run>) -> Vec<Run> {
    let mut out: Vec<Run> = vec![];
    for (s, t) in runs {
        if t.is_empty() {
            continue;
        }
        match out.last_mut() {
            Some((ls, lt)) if *ls == s => lt.push_str(&t),
            _ => out.push((s, t)),
        }
    }
    out
}

impl RunModel {
    /// Feed a chunk; returns the merged runs of visible text printed by this chunk.
    pub fn feed(&mut self, bytes: &[u8]) -> Vec<Run> {
        let mut runs: Vec<Run> = vec![];
        for &b in bytes {
            for ev in self.vt.advance(b) {
                match ev {
                    Ev::Print(c) => runs.push((self.sgr, c.to_string())),
                    Ev::Execute(b) if matches!(b, 0x09 | 0x0a | 0x0c | 0x0d) => {
                        runs.push((self.sgr, (b as char).to_string()))
                    }
                    Ev::Csi { byte: b'm', ignore: true, inter, .. } if inter.is_empty() => {
                        // more than 32 parameters: outside what the statement defines
                        self.ill_formed = true;
                    }
                    Ev::Csi { params, inter, ignore, byte: b'm' } if inter.is_empty() && !ignore => {
                        // codes the extractor properties do not list (blink, 22-29, 59) have no defined expectation
                        if Sgr::uses_unlisted_codes(&params) {
                            self.ill_formed = true;
                        }
                        if !self.sgr.apply(&params) {
                            self.ill_formed = true;
                        }
                    }
                    _ => {}
                }
            }
        }
        merge(runs)
    }

    pub fn canon(&self) -> RunModel {
        RunModel { vt: self.vt.canon(), sgr: self.sgr, ill_formed: self.ill_formed }
    }
}
