//! M-SGR: terminal graphic-rendition machine (ECMA-48 8.3.117 + xterm/kitty
//! extensions) driven by the parameter groups of a `CSI ... m` sequence.
//! Independent of the code under test.

#[derive(Clone, Copy, Debug, PartialEq, Eq, Hash, PartialOrd, Ord)]
pub enum Col {
    Default,
    /// 16-colour palette: 0..=7 normal, 8..=15 bright
    Ansi(u8),
    Idx(u8),
    Rgb(u8, u8, u8),
}

impl Col {
    /// colours equal modulo "indices 0-15 of the 256 palette are the 16 palette"
    pub fn same_modulo_16(self, other: Col) -> bool {
        let n = |c: Col| match c {
            Col::Idx(i) if i < 16 => Col::Ansi(i),
            c => c,
        };
        n(self) == n(other)
    }
}

#[derive(Clone, Copy, Debug, PartialEq, Eq, Hash, PartialOrd, Ord)]
pub enum Ul {
    None,
    Single,
    Double,
    Curly,
    Dotted,
    Dashed,
}

/// effect indices in the order anstyle declares them
pub mod fx {
    pub const BOLD: u16 = 1 << 0;
    pub const DIMMED: u16 = 1 << 1;
    pub const ITALIC: u16 = 1 << 2;
    pub const UNDERLINE: u16 = 1 << 3;
    pub const DOUBLE_UNDERLINE: u16 = 1 << 4;
    pub const CURLY_UNDERLINE: u16 = 1 << 5;
    pub const DOTTED_UNDERLINE: u16 = 1 << 6;
    pub const DASHED_UNDERLINE: u16 = 1 << 7;
    pub const BLINK: u16 = 1 << 8;
    pub const INVERT: u16 = 1 << 9;
    pub const HIDDEN: u16 = 1 << 10;
    pub const STRIKETHROUGH: u16 = 1 << 11;
    pub const ALL_UNDERLINES: u16 =
        UNDERLINE | DOUBLE_UNDERLINE | CURLY_UNDERLINE | DOTTED_UNDERLINE | DASHED_UNDERLINE;
    pub const NAMES: [&str; 12] = [
        "BOLD",
        "DIMMED",
        "ITALIC",
        "UNDERLINE",
        "DOUBLE_UNDERLINE",
        "CURLY_UNDERLINE",
        "DOTTED_UNDERLINE",
        "DASHED_UNDERLINE",
        "BLINK",
        "INVERT",
        "HIDDEN",
        "STRIKETHROUGH",
    ];
}

#[derive(Clone, Copy, Debug, PartialEq, Eq, Hash, PartialOrd, Ord)]
pub struct Sgr {
    pub fg: Col,
    pub bg: Col,
    pub ul_color: Col,
    pub bold: bool,
    pub dim: bool,
    pub italic: bool,
    pub ul: Ul,
    pub blink: bool,
    pub inverse: bool,
    pub hidden: bool,
    pub strike: bool,
    /// the set of anstyle effects denoted by the codes seen since the last
    /// reset (a terminal has one underline style, the style type five bits)
    pub seen: u16,
}

impl Default for Sgr {
    fn default() -> Self {
        Sgr {
            fg: Col::Default,
            bg: Col::Default,
            ul_color: Col::Default,
            bold: false,
            dim: false,
            italic: false,
            ul: Ul::None,
            blink: false,
            inverse: false,
            hidden: false,
            strike: false,
            seen: 0,
        }
    }
}

#[derive(Clone, Copy, Debug, PartialEq, Eq)]
enum Slot {
    Fg,
    Bg,
    Ul,
}

fn byte(v: u16) -> Option<u8> {
    u8::try_from(v).ok()
}

impl Sgr {
    pub fn is_default(&self) -> bool {
        let mut d = *self;
        d.seen = 0;
        d == Sgr::default()
    }

    /// Effects of the terminal state expressed as an anstyle effect set
    /// (exactly one underline bit at most).
    pub fn terminal_effects(&self) -> u16 {
        let mut e = 0;
        if self.bold {
            e |= fx::BOLD;
        }
        if self.dim {
            e |= fx::DIMMED;
        }
        if self.italic {
            e |= fx::ITALIC;
        }
        e |= match self.ul {
            Ul::None => 0,
            Ul::Single => fx::UNDERLINE,
            Ul::Double => fx::DOUBLE_UNDERLINE,
            Ul::Curly => fx::CURLY_UNDERLINE,
            Ul::Dotted => fx::DOTTED_UNDERLINE,
            Ul::Dashed => fx::DASHED_UNDERLINE,
        };
        if self.blink {
            e |= fx::BLINK;
        }
        if self.inverse {
            e |= fx::INVERT;
        }
        if self.hidden {
            e |= fx::HIDDEN;
        }
        if self.strike {
            e |= fx::STRIKETHROUGH;
        }
        e
    }

    fn set_col(&mut self, slot: Slot, c: Col) {
        match slot {
            Slot::Fg => self.fg = c,
            Slot::Bg => self.bg = c,
            Slot::Ul => self.ul_color = c,
        }
    }

    fn set_ul(&mut self, ul: Ul) {
        self.ul = ul;
        match ul {
            Ul::None => self.seen &= !fx::ALL_UNDERLINES,
            Ul::Single => self.seen |= fx::UNDERLINE,
            Ul::Double => self.seen |= fx::DOUBLE_UNDERLINE,
            Ul::Curly => self.seen |= fx::CURLY_UNDERLINE,
            Ul::Dotted => self.seen |= fx::DOTTED_UNDERLINE,
            Ul::Dashed => self.seen |= fx::DASHED_UNDERLINE,
        }
    }

    fn simple(&mut self, code: u16) {
        match code {
            0 => *self = Sgr::default(),
            1 => {
                self.bold = true;
                self.seen |= fx::BOLD;
            }
            2 => {
                self.dim = true;
                self.seen |= fx::DIMMED;
            }
            3 => {
                self.italic = true;
                self.seen |= fx::ITALIC;
            }
            4 => self.set_ul(Ul::Single),
            5 | 6 => {
                self.blink = true;
                self.seen |= fx::BLINK;
            }
            7 => {
                self.inverse = true;
                self.seen |= fx::INVERT;
            }
            8 => {
                self.hidden = true;
                self.seen |= fx::HIDDEN;
            }
            9 => {
                self.strike = true;
                self.seen |= fx::STRIKETHROUGH;
            }
            21 => self.set_ul(Ul::Double),
            22 => {
                self.bold = false;
                self.dim = false;
                self.seen &= !(fx::BOLD | fx::DIMMED);
            }
            23 => {
                self.italic = false;
                self.seen &= !fx::ITALIC;
            }
            24 => self.set_ul(Ul::None),
            25 => {
                self.blink = false;
                self.seen &= !fx::BLINK;
            }
            27 => {
                self.inverse = false;
                self.seen &= !fx::INVERT;
            }
            28 => {
                self.hidden = false;
                self.seen &= !fx::HIDDEN;
            }
            29 => {
                self.strike = false;
                self.seen &= !fx::STRIKETHROUGH;
            }
            30..=37 => self.fg = Col::Ansi((code - 30) as u8),
            39 => self.fg = Col::Default,
            40..=47 => self.bg = Col::Ansi((code - 40) as u8),
            49 => self.bg = Col::Default,
            59 => self.ul_color = Col::Default,
            90..=97 => self.fg = Col::Ansi((code - 90 + 8) as u8),
            100..=107 => self.bg = Col::Ansi((code - 100 + 8) as u8),
            _ => {}
        }
    }

    /// Apply the parameter groups of one `CSI ... m`.  A group with more than
    /// one element was written with ':' separators.
    pub fn apply(&mut self, groups: &[Vec<u16>]) -> bool {
        let mut well_formed = true;
        let mut i = 0;
        while i < groups.len() {
            let g = &groups[i];
            i += 1;
            if g.is_empty() {
                continue;
            }
            if g.len() > 1 {
                // colon form
                match g[0] {
                    4 => {
                        if g.len() == 2 {
                            let ul = match g[1] {
                                0 => Some(Ul::None),
                                1 => Some(Ul::Single),
                                2 => Some(Ul::Double),
                                3 => Some(Ul::Curly),
                                4 => Some(Ul::Dotted),
                                5 => Some(Ul::Dashed),
                                _ => None,
                            };
                            if let Some(ul) = ul {
                                self.set_ul(ul);
                            } else {
                                well_formed = false;
                            }
                        } else {
                            well_formed = false;
                        }
                    }
                    38 | 48 | 58 => {
                        let slot = match g[0] {
                            38 => Slot::Fg,
                            48 => Slot::Bg,
                            _ => Slot::Ul,
                        };
                        match (g.get(1), g.len()) {
                            (Some(5), 3) => {
                                if let Some(n) = byte(g[2]) {
                                    self.set_col(slot, Col::Idx(n));
                                } else {
                                    well_formed = false;
                                }
                            }
                            (Some(2), 5) => {
                                if let (Some(r), Some(gg), Some(b)) = (byte(g[2]), byte(g[3]), byte(g[4])) {
                                    self.set_col(slot, Col::Rgb(r, gg, b));
                                } else {
                                    well_formed = false;
                                }
                            }
                            (Some(2), 6) => {
                                if let (Some(r), Some(gg), Some(b)) = (byte(g[3]), byte(g[4]), byte(g[5])) {
                                    self.set_col(slot, Col::Rgb(r, gg, b));
                                } else {
                                    well_formed = false;
                                }
                            }
                            _ => well_formed = false,
                        }
                    }
                    _ => well_formed = false,
                }
                continue;
            }
            let code = g[0];
            match code {
                38 | 48 | 58 => {
                    let slot = match code {
                        38 => Slot::Fg,
                        48 => Slot::Bg,
                        _ => Slot::Ul,
                    };
                    // ';' form: the following groups must be single values
                    let single = |k: usize| groups.get(k).filter(|g| g.len() == 1).map(|g| g[0]);
                    match single(i) {
                        Some(5) => {
                            if let Some(n) = single(i + 1) {
                                if let Some(n) = byte(n) {
                                    self.set_col(slot, Col::Idx(n));
                                } else {
                                    well_formed = false;
                                }
                                i += 2;
                            } else {
                                well_formed = false;
                                i = groups.len();
                            }
                        }
                        Some(2) => {
                            if let (Some(r), Some(g), Some(b)) = (single(i + 1), single(i + 2), single(i + 3)) {
                                if let (Some(r), Some(g), Some(b)) = (byte(r), byte(g), byte(b)) {
                                    self.set_col(slot, Col::Rgb(r, g, b));
                                } else {
                                    well_formed = false;
                                }
                                i += 4;
                            } else {
                                well_formed = false;
                                i = groups.len();
                            }
                        }
                        _ => {
                            // malformed extended colour: xterm abandons the rest
                            well_formed = false;
                            i = groups.len();
                        }
                    }
                }
                c => self.simple(c),
            }
        }
        well_formed
    }

    /// Does the parameter list use, as a plain code, one of the codes that several property
    /// statements leave out (blink 5/6, the resets 22-29, 59)?  Extended-colour arguments
    /// (`38;5;n`, `38;2;r;g;b`) are skipped.
    pub fn uses_unlisted_codes(groups: &[Vec<u16>]) -> bool {
        let mut i = 0;
        while i < groups.len() {
            let g = &groups[i];
            i += 1;
            if g.len() != 1 {
                continue;
            }
            match g[0] {
                38 | 48 | 58 => {
                    let single = |k: usize| groups.get(k).filter(|g| g.len() == 1).map(|g| g[0]);
                    match single(i) {
                        Some(5) => i += 2,
                        Some(2) => i += 4,
                        _ => return false, // malformed: reported by `apply`
                    }
                }
                5 | 6 | 22..=29 | 59 => return true,
                _ => {}
            }
        }
        false
    }

    /// Parse the text between `CSI` and `m` the way the VT parser groups it.
    pub fn parse_params(s: &str) -> Vec<Vec<u16>> {
        s.split(';')
            .map(|f| {
                f.split(':')
                    .map(|v| {
                        let mut acc: u32 = 0;
                        for ch in v.bytes() {
                            acc = (acc * 10 + (ch - b'0') as u32).min(65535);
                        }
                        acc as u16
                    })
                    .collect()
            })
            .collect()
    }
}

#[cfg(test)]
mod tests {
    use super::*;
    #[test]
    fn basics() {
        let mut s = Sgr::default();
        s.apply(&Sgr::parse_params("1;31;48;5;10;58:2::1:2:3;4:3"));
        assert!(s.bold);
        assert_eq!(s.fg, Col::Ansi(1));
        assert_eq!(s.bg, Col::Idx(10));
        assert_eq!(s.ul_color, Col::Rgb(1, 2, 3));
        assert_eq!(s.ul, Ul::Curly);
        s.apply(&Sgr::parse_params(""));
        assert!(s.is_default());
    }
}
