//! M-ENV: colour auto-detection as a pure function.
//!
//! Written from the property statement (C09) and the published conventions of
//! the individual variables, not from the code under test:
//!
//!   NO_COLOR        (no-color.org)            on  <=> set and not empty
//!   CLICOLOR_FORCE  (bixense.com/clicolors)   on  <=> set and not empty
//!   CLICOLOR        (bixense.com/clicolors)   unset -> no opinion; set -> on unless the value is exactly "0"
//!   TERM            supports colour <=> set to anything other than "dumb"
//!                   (non-Windows; on Windows an unset TERM does not rule colour out)
//!   COLORTERM       (termstandard/colors)     truecolor <=> exactly "truecolor" or "24bit"
//!   CI              on <=> set (any value, the empty one included)
//!
//! Precedence of the automatic decision:
//!   1. an explicit global choice (anything but Auto) wins;
//!   2. otherwise a non-empty NO_COLOR disables colour;
//!   3. otherwise a non-empty CLICOLOR_FORCE enables it;
//!   4. otherwise CLICOLOR=0 disables it;
//!   5. otherwise colour is enabled exactly when the stream is a terminal and
//!      (TERM supports colour, or CLICOLOR is set to something other than "0", or CI is set).

/// The four values of the process-wide colour choice.
#[derive(Clone, Copy, Debug, PartialEq, Eq, Hash, PartialOrd, Ord)]
pub enum Choice {
    Auto,
    AlwaysAnsi,
    Always,
    Never,
}

pub const ALL_CHOICES: [Choice; 4] = [Choice::Auto, Choice::AlwaysAnsi, Choice::Always, Choice::Never];

/// What the automatic decision must be.
#[derive(Clone, Copy, Debug, PartialEq, Eq, Hash, PartialOrd, Ord)]
pub enum Decision {
    /// the explicit global choice, returned as is
    Explicit(Choice),
    /// colour on (the statement does not say which of the two "on" values is reported)
    Enabled,
    /// colour off
    Disabled,
}

/// Which rule of the chain decided (for coverage reporting).
#[derive(Clone, Copy, Debug, PartialEq, Eq, Hash, PartialOrd, Ord)]
pub enum Rule {
    GlobalChoice,
    NoColor,
    ClicolorForce,
    ClicolorZero,
    TerminalAndSupport,
    NotTerminal,
    TerminalNoSupport,
}

/// The environment as seen by the decision (values as text; `None` = unset).
#[derive(Clone, Debug, Default, PartialEq, Eq, Hash)]
pub struct Env {
    pub no_color: Option<String>,
    pub clicolor_force: Option<String>,
    pub clicolor: Option<String>,
    pub term: Option<String>,
    pub ci: Option<String>,
    pub colorterm: Option<String>,
}

pub fn set_and_non_empty(v: Option<&str>) -> bool {
    match v {
        None => false,
        Some(s) => !s.is_empty(),
    }
}

pub fn no_color(v: Option<&str>) -> bool {
    set_and_non_empty(v)
}

pub fn clicolor_force(v: Option<&str>) -> bool {
    set_and_non_empty(v)
}

/// `None` = no opinion (unset); `Some(false)` only for exactly "0".
pub fn clicolor(v: Option<&str>) -> Option<bool> {
    v.map(|s| s != "0")
}

pub fn term_supports_color(v: Option<&str>, windows: bool) -> bool {
    match v {
        None => windows,
        Some(s) => s != "dumb",
    }
}

/// TERM allows ANSI escape codes (same as colour support off Windows; on
/// Windows an unset TERM or "cygwin" rules ANSI out).
pub fn term_supports_ansi_color(v: Option<&str>, windows: bool) -> bool {
    if !windows {
        return term_supports_color(v, false);
    }
    match v {
        None => false,
        Some(s) => s != "dumb" && s != "cygwin",
    }
}

pub fn truecolor(v: Option<&str>) -> bool {
    matches!(v, Some("truecolor") | Some("24bit"))
}

pub fn is_ci(v: Option<&str>) -> bool {
    v.is_some()
}

impl Env {
    pub fn decide(&self, global: Choice, is_terminal: bool, windows: bool) -> (Decision, Rule) {
        if global != Choice::Auto {
            return (Decision::Explicit(global), Rule::GlobalChoice);
        }
        if no_color(self.no_color.as_deref()) {
            return (Decision::Disabled, Rule::NoColor);
        }
        if clicolor_force(self.clicolor_force.as_deref()) {
            return (Decision::Enabled, Rule::ClicolorForce);
        }
        let cli = clicolor(self.clicolor.as_deref());
        if cli == Some(false) {
            return (Decision::Disabled, Rule::ClicolorZero);
        }
        if !is_terminal {
            return (Decision::Disabled, Rule::NotTerminal);
        }
        let support =
            term_supports_color(self.term.as_deref(), windows) || cli == Some(true) || is_ci(self.ci.as_deref());
        if support {
            (Decision::Enabled, Rule::TerminalAndSupport)
        } else {
            (Decision::Disabled, Rule::TerminalNoSupport)
        }
    }
}

impl Decision {
    /// May the decision function (which never answers Auto) report `got`?
    pub fn admits_choice(&self, got: Choice) -> bool {
        match *self {
            Decision::Explicit(c) => got == c,
            Decision::Enabled => matches!(got, Choice::Always | Choice::AlwaysAnsi),
            Decision::Disabled => got == Choice::Never,
        }
    }

    /// Is colour on after the decision (escape codes reach the writer)?
    pub fn colour_on(&self) -> bool {
        match *self {
            Decision::Explicit(c) => matches!(c, Choice::Always | Choice::AlwaysAnsi),
            Decision::Enabled => true,
            Decision::Disabled => false,
        }
    }
}

#[cfg(test)]
mod tests {
    use super::*;
    fn e(nc: Option<&str>, cf: Option<&str>, cc: Option<&str>, term: Option<&str>, ci: Option<&str>) -> Env {
        let s = |o: Option<&str>| o.map(|x| x.to_string());
        Env { no_color: s(nc), clicolor_force: s(cf), clicolor: s(cc), term: s(term), ci: s(ci), colorterm: None }
    }
    #[test]
    fn chain() {
        use Decision::*;
        assert_eq!(e(Some("1"), Some("1"), None, None, None).decide(Choice::Auto, true, false).0, Disabled);
        assert_eq!(e(Some(""), Some("1"), Some("0"), None, None).decide(Choice::Auto, false, false).0, Enabled);
        assert_eq!(e(None, Some(""), Some("0"), Some("xterm"), Some("1")).decide(Choice::Auto, true, false).0, Disabled);
        assert_eq!(e(None, None, None, Some("dumb"), None).decide(Choice::Auto, true, false).0, Disabled);
        assert_eq!(e(None, None, Some(""), Some("dumb"), None).decide(Choice::Auto, true, false).0, Enabled);
        assert_eq!(e(None, None, None, Some("dumb"), Some("")).decide(Choice::Auto, true, false).0, Enabled);
        assert_eq!(e(None, None, None, Some(""), None).decide(Choice::Auto, true, false).0, Enabled);
        assert_eq!(e(None, None, None, Some("xterm"), None).decide(Choice::Auto, false, false).0, Disabled);
        assert_eq!(e(Some("1"), None, None, None, None).decide(Choice::Always, false, false).0, Explicit(Choice::Always));
        assert_eq!(e(None, None, None, None, None).decide(Choice::Auto, true, false).0, Disabled);
        assert_eq!(e(None, None, None, None, None).decide(Choice::Auto, true, true).0, Enabled);
    }
}
