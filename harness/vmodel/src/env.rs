//! reference model stub (to be written)
