//! M-STRIP: which input bytes are "visible text" according to M-VT.
//!
//! Per input byte the model answers KEEP / DROP / MAYBE:
//!   KEEP  - bytes printed in Ground except DEL, whole well-formed UTF-8
//!           characters begun in Ground, TAB/LF/FF/CR wherever the VT model
//!           executes them (Ground, ESC and CSI states),
//!   DROP  - every other byte below 0x80, and every byte inside an
//!           ESC/CSI/DCS/OSC/SOS/PM/APC sequence,
//!   MAYBE - bytes >= 0x80 met in Ground that are not (yet) known to form a
//!           well-formed character: a lead byte is MAYBE until its character
//!           completes (then every byte of it must have been kept); once a run
//!           of high bytes is malformed the rest of the run (up to the next
//!           ASCII byte) is unconstrained.  ASCII bytes are never MAYBE: after
//!           a malformed run the model is in Ground.

use crate::utf8::{Utf8Dfa, Utf8Step};
use crate::vt::{table, Act, St};

#[derive(Clone, Copy, Debug, PartialEq, Eq, Hash)]
pub enum Mode {
    /// ordinary VT state (never `St::Utf8`)
    Vt(St),
    /// inside a character started in Ground; `all` = every byte so far was emitted
    InChar { dfa: Utf8Dfa, all: bool },
    /// Ground, but the current run of bytes >= 0x80 is malformed
    Garbage,
}

#[derive(Clone, Copy, Debug, PartialEq, Eq, Hash)]
pub struct StripModel {
    pub mode: Mode,
}

impl Default for StripModel {
    fn default() -> Self {
        StripModel { mode: Mode::Vt(St::Ground) }
    }
}

#[derive(Clone, Copy, Debug, PartialEq, Eq, Hash)]
pub enum Class {
    Keep,
    Drop,
    Maybe,
}

pub const FORBIDDEN: fn(u8) -> bool = |b| matches!(b, 0x00..=0x08 | 0x0b | 0x0e..=0x1f | 0x7f);

fn is_ws(b: u8) -> bool {
    matches!(b, 0x09 | 0x0a | 0x0c | 0x0d)
}

impl StripModel {
    pub fn ground() -> Self {
        Self::default()
    }

    /// True when the model is at a point where a fresh stripper would behave identically.
    pub fn is_ground(&self) -> bool {
        matches!(self.mode, Mode::Vt(St::Ground) | Mode::Garbage)
    }

    /// VT state for an ASCII byte processed now.
    fn vt_state(&self) -> St {
        match self.mode {
            Mode::Vt(s) => s,
            _ => St::Ground,
        }
    }

    fn ascii_step(st: St, b: u8) -> (Class, St) {
        let (next, act) = table(st, b);
        let class = match act {
            Act::Print if b != 0x7f => Class::Keep,
            Act::Execute if is_ws(b) => Class::Keep,
            // SPACE is printed in Ground; inside sequences it is an intermediate (dropped)
            _ => Class::Drop,
        };
        (class, next.unwrap_or(st))
    }

    /// Classify byte `b` and, given whether the implementation emitted it,
    /// check it and advance.  Returns Err(description) on a violation.
    pub fn step(&mut self, b: u8, emitted: bool) -> Result<Class, String> {
        let class;
        match self.mode {
            Mode::InChar { mut dfa, all } => match dfa.step(b) {
                Utf8Step::More => {
                    class = Class::Maybe;
                    self.mode = Mode::InChar { dfa, all: all && emitted };
                }
                Utf8Step::Char(c) => {
                    class = Class::Keep;
                    self.mode = Mode::Vt(St::Ground);
                    if !(all && emitted) {
                        return Err(format!(
                            "well-formed character {c:?} (U+{:04X}) was not kept whole",
                            c as u32
                        ));
                    }
                }
                Utf8Step::Reject => {
                    if b < 0x80 {
                        self.mode = Mode::Vt(St::Ground);
                        return self.step(b, emitted);
                    }
                    class = Class::Maybe;
                    self.mode = Mode::Garbage;
                }
            },
            Mode::Garbage if b >= 0x80 => {
                class = Class::Maybe;
            }
            Mode::Garbage | Mode::Vt(_) => {
                let st = self.vt_state();
                if b >= 0x80 && st == St::Ground {
                    let mut dfa = Utf8Dfa::default();
                    match dfa.step(b) {
                        Utf8Step::More => {
                            self.mode = Mode::InChar { dfa, all: emitted };
                        }
                        _ => {
                            self.mode = Mode::Garbage;
                        }
                    }
                    class = Class::Maybe;
                } else {
                    let (c, next) = Self::ascii_step(st, b);
                    class = c;
                    self.mode = Mode::Vt(next);
                }
            }
        }
        match class {
            Class::Keep if !emitted => Err(format!("visible byte 0x{b:02x} was dropped")),
            Class::Drop if emitted => Err(format!("byte 0x{b:02x} that is not visible text was emitted")),
            _ => Ok(class),
        }
    }

    /// Check a chunk where we know exactly which input bytes were emitted.
    pub fn check_flags(&mut self, input: &[u8], emitted: &[bool]) -> Result<(), String> {
        assert_eq!(input.len(), emitted.len());
        for (i, (&b, &e)) in input.iter().zip(emitted).enumerate() {
            self.step(b, e).map_err(|m| format!("at input offset {i}: {m}"))?;
        }
        Ok(())
    }

    /// Check a chunk where only the concatenated output is known: search for
    /// an emitted/not-emitted assignment the model accepts (emission preferred).
    pub fn check_output(&mut self, input: &[u8], output: &[u8]) -> Result<(), String> {
        if let Some(&b) = output.iter().find(|&&b| FORBIDDEN(b)) {
            return Err(format!("output contains forbidden control byte 0x{b:02x}"));
        }
        // candidates (model state, output bytes matched so far), in priority order (emission preferred);
        // iterative so that inputs of any length are fine, duplicates are merged (first occurrence wins)
        let mut cands: Vec<(StripModel, usize)> = vec![(*self, 0)];
        for &b in input {
            let mut next: Vec<(StripModel, usize)> = Vec::with_capacity(cands.len() + 1);
            for &(m, pos) in &cands {
                if output.get(pos) == Some(&b) {
                    let mut m2 = m;
                    if m2.step(b, true).is_ok() && !next.contains(&(m2, pos + 1)) {
                        next.push((m2, pos + 1));
                    }
                }
                let mut m2 = m;
                if m2.step(b, false).is_ok() && !next.contains(&(m2, pos)) {
                    next.push((m2, pos));
                }
            }
            cands = next;
            if cands.is_empty() {
                break;
            }
        }
        if let Some(&(m, _)) = cands.iter().find(|c| c.1 == output.len()) {
            *self = m;
            return Ok(());
        }
        // no assignment is accepted: explain along the preferred path (emit whenever the output has the byte)
        let mut first_err: Option<String> = None;
        let (mut m, mut pos) = (*self, 0usize);
        for (i, &b) in input.iter().enumerate() {
            if output.get(pos) == Some(&b) {
                let mut m2 = m;
                match m2.step(b, true) {
                    Ok(_) => {
                        m = m2;
                        pos += 1;
                        continue;
                    }
                    Err(e) => {
                        first_err.get_or_insert(format!("at input offset {i}: {e}"));
                    }
                }
            }
            if let Err(e) = m.step(b, false) {
                first_err.get_or_insert(format!("at input offset {i}: {e}"));
                break;
            }
        }
        Err(first_err.unwrap_or_else(|| format!("output has {} surplus byte(s) {:02x?}", output.len() - pos, &output[pos..output.len().min(pos + 16)])))
    }

    /// Is `output` what the model allows for SOME prefix of `input` (one pass; used after a failed write, where how
    /// far the stream got is unspecified)?
    pub fn output_of_some_prefix(&self, input: &[u8], output: &[u8]) -> bool {
        if output.iter().any(|&b| FORBIDDEN(b)) {
            return false;
        }
        let mut cands: Vec<(StripModel, usize)> = vec![(*self, 0)];
        if output.is_empty() {
            return true;
        }
        for &b in input {
            let mut next: Vec<(StripModel, usize)> = Vec::with_capacity(cands.len() + 1);
            for &(m, pos) in &cands {
                if output.get(pos) == Some(&b) {
                    let mut m2 = m;
                    if m2.step(b, true).is_ok() && !next.contains(&(m2, pos + 1)) {
                        next.push((m2, pos + 1));
                    }
                }
                let mut m2 = m;
                if m2.step(b, false).is_ok() && !next.contains(&(m2, pos)) {
                    next.push((m2, pos));
                }
            }
            cands = next;
            if cands.iter().any(|c| c.1 == output.len()) {
                return true;
            }
            if cands.is_empty() {
                return false;
            }
        }
        false
    }

    /// The strictly expected output for input that is known to be well-formed
    /// UTF-8 (every MAYBE resolves to KEEP): returns None if a MAYBE byte does not.
    pub fn expected_exact(&mut self, input: &[u8]) -> Vec<u8> {
        let mut out = vec![];
        for &b in input {
            let mut probe = *self;
            // try "emitted": accepted for Keep and Maybe, rejected for Drop
            if probe.step(b, true).is_ok() {
                *self = probe;
                out.push(b);
            } else {
                let _ = self.step(b, false);
            }
        }
        out
    }
}

#[cfg(test)]
mod tests {
    use super::*;
    #[test]
    fn some_prefix_equals_brute_force() {
        // every input of <= 5 symbols, every sub-sequence of it as the claimed output
        let syms = [b'a', 0x1b, b'[', b'm', 0xc3, 0xa9, 0x0a];
        let mut n = 0u32;
        for len in 0..=5usize {
            for i in 0..(syms.len() as u32).pow(len as u32) {
                let mut k = i;
                let input: Vec<u8> = (0..len).map(|_| { let b = syms[(k % syms.len() as u32) as usize]; k /= syms.len() as u32; b }).collect();
                for mask in 0u32..(1 << len) {
                    let output: Vec<u8> = (0..len).filter(|j| mask & (1 << j) != 0).map(|j| input[j]).collect();
                    let brute = (0..=len).any(|p| StripModel::default().check_output(&input[..p], &output).is_ok());
                    let fast = StripModel::default().output_of_some_prefix(&input, &output);
                    assert_eq!(brute, fast, "input {input:02x?} output {output:02x?}");
                    n += 1;
                }
            }
        }
        assert!(n > 500_000);
    }
    #[test]
    fn basic() {
        let mut m = StripModel::default();
        assert!(m.check_output(b"\x1b[32mfoo\x1b[m bar", b"foo bar").is_ok());
        assert!(m.is_ground());
        let mut m = StripModel::default();
        assert!(m.check_output(b"\x1b[3\n2mx", b"\nx").is_ok());
        let mut m = StripModel::default();
        assert!(m.check_output(b"\x1b[3\n2mx", b"\n2mx").is_err());
        let mut m = StripModel::default();
        assert!(m.check_output(b"\xc3\x1b[mx", b"\xc3x").is_ok());
        let mut m = StripModel::default();
        assert!(m.check_output(b"\xc3\x1b[mx", b"x").is_ok());
        let mut m = StripModel::default();
        assert!(m.check_output(b"\xc3\x1b[mx", b"\xc3\x1b[mx").is_err());
        let mut m = StripModel::default();
        assert!(m.check_output("é".as_bytes(), b"").is_err());
        let mut m = StripModel::default();
        assert!(m.check_output("é".as_bytes(), "é".as_bytes()).is_ok());
    }
}
