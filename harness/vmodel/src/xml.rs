//! M-SVG part 1: a strict XML 1.0 (Fifth Edition) well-formedness reader that
//! returns a small DOM.  Written from the W3C recommendation, independent of
//! the code under test and of any XML crate.
//!
//! Covered productions / well-formedness constraints:
//!   [1] document, [2] Char (checked on every character of the entity),
//!   [3] S, [4]/[4a]/[5] Name, [10] AttValue, [14] CharData (no `]]>`),
//!   [15] Comment (no `--`), [16]/[17] PI (target != xml), [18]-[21] CDSect,
//!   [22]-[27] prolog / XMLDecl / Misc, [32] SDDecl, [39]-[44] element, tags,
//!   attributes, [66]-[68] references, [80]/[81] EncodingDecl;
//!   WFC: element type match, unique att spec, no `<` in attribute values,
//!   legal character (character references), entity declared (only the five
//!   predefined entities exist because there is no DTD);
//!   2.11 end-of-line handling (CRLF / CR -> LF before parsing),
//!   3.3.3 attribute-value normalisation (CDATA type).
//! Not supported (reported as an error, never silently accepted): DOCTYPE
//! declarations.  `check_namespaces` adds the "Namespaces in XML 1.0"
//! constraints on prefixes (separately callable).

#[derive(Clone, Debug, PartialEq, Eq)]
pub enum Node {
    Element(Element),
    Text(String),
}

#[derive(Clone, Debug, PartialEq, Eq, Default)]
pub struct Element {
    pub name: String,
    /// attributes in document order, values normalised
    pub attrs: Vec<(String, String)>,
    pub children: Vec<Node>,
}

#[derive(Clone, Debug, PartialEq, Eq)]
pub struct Document {
    pub root: Element,
    /// true if an XML declaration was present
    pub has_decl: bool,
}

#[derive(Clone, Debug, PartialEq, Eq)]
pub struct XmlError {
    /// character offset in the line-end-normalised input
    pub pos: usize,
    pub msg: String,
}

impl std::fmt::Display for XmlError {
    fn fmt(&self, f: &mut std::fmt::Formatter<'_>) -> std::fmt::Result {
        write!(f, "not well-formed at char {}: {}", self.pos, self.msg)
    }
}

impl Element {
    pub fn attr(&self, name: &str) -> Option<&str> {
        self.attrs.iter().find(|(k, _)| k == name).map(|(_, v)| v.as_str())
    }
    /// child elements, in order
    pub fn elements(&self) -> impl Iterator<Item = &Element> {
        self.children.iter().filter_map(|n| match n {
            Node::Element(e) => Some(e),
            Node::Text(_) => None,
        })
    }
    /// concatenated character data of all descendants, in document order
    pub fn text_content(&self) -> String {
        let mut s = String::new();
        self.collect_text(&mut s);
        s
    }
    fn collect_text(&self, s: &mut String) {
        for c in &self.children {
            match c {
                Node::Text(t) => s.push_str(t),
                Node::Element(e) => e.collect_text(s),
            }
        }
    }
    /// character data that is a direct child of this element
    pub fn own_text(&self) -> String {
        let mut s = String::new();
        for c in &self.children {
            if let Node::Text(t) = c {
                s.push_str(t);
            }
        }
        s
    }
    /// first descendant-or-self child element with this name (depth first)
    pub fn find(&self, name: &str) -> Option<&Element> {
        if self.name == name {
            return Some(self);
        }
        self.elements().find_map(|e| e.find(name))
    }
}

/// production [2]
pub fn is_char(c: char) -> bool {
    matches!(c as u32, 0x9 | 0xA | 0xD | 0x20..=0xD7FF | 0xE000..=0xFFFD | 0x10000..=0x10FFFF)
}

/// production [4]
pub fn is_name_start(c: char) -> bool {
    matches!(c as u32,
        0x3A | 0x41..=0x5A | 0x5F | 0x61..=0x7A | 0xC0..=0xD6 | 0xD8..=0xF6 | 0xF8..=0x2FF
        | 0x370..=0x37D | 0x37F..=0x1FFF | 0x200C..=0x200D | 0x2070..=0x218F | 0x2C00..=0x2FEF
        | 0x3001..=0xD7FF | 0xF900..=0xFDCF | 0xFDF0..=0xFFFD | 0x10000..=0xEFFFF)
}

/// production [4a]
pub fn is_name_char(c: char) -> bool {
    is_name_start(c) || matches!(c as u32, 0x2D | 0x2E | 0x30..=0x39 | 0xB7 | 0x300..=0x36F | 0x203F..=0x2040)
}

fn is_s(c: char) -> bool {
    matches!(c, ' ' | '\t' | '\n' | '\r')
}

struct P {
    s: Vec<char>,
    i: usize,
}

type R<T> = Result<T, XmlError>;

impl P {
    fn err<T>(&self, msg: impl Into<String>) -> R<T> {
        Err(XmlError { pos: self.i, msg: msg.into() })
    }
    fn peek(&self) -> Option<char> {
        self.s.get(self.i).copied()
    }
    fn at(&self, lit: &str) -> bool {
        let mut k = self.i;
        for c in lit.chars() {
            if self.s.get(k) != Some(&c) {
                return false;
            }
            k += 1;
        }
        true
    }
    fn eat(&mut self, lit: &str) -> bool {
        if self.at(lit) {
            self.i += lit.chars().count();
            true
        } else {
            false
        }
    }
    fn expect(&mut self, lit: &str) -> R<()> {
        if self.eat(lit) {
            Ok(())
        } else {
            self.err(format!("expected {lit:?}"))
        }
    }
    fn skip_s(&mut self) -> usize {
        let st = self.i;
        while self.peek().map_or(false, is_s) {
            self.i += 1;
        }
        self.i - st
    }
    fn name(&mut self) -> R<String> {
        let st = self.i;
        match self.peek() {
            Some(c) if is_name_start(c) => self.i += 1,
            _ => return self.err("expected a Name"),
        }
        while self.peek().map_or(false, is_name_char) {
            self.i += 1;
        }
        Ok(self.s[st..self.i].iter().collect())
    }

    /// Reference ::= EntityRef | CharRef, positioned at '&'; returns the replacement character
    /// and whether it came from a character reference.
    fn reference(&mut self) -> R<(char, bool)> {
        self.expect("&")?;
        if self.eat("#") {
            let hex = self.eat("x");
            let st = self.i;
            let mut v: u32 = 0;
            while let Some(c) = self.peek() {
                let d = if hex { c.to_digit(16) } else { c.to_digit(10) };
                // to_digit accepts only ASCII digits/letters for radix <= 36
                match d {
                    Some(d) => {
                        v = v.saturating_mul(if hex { 16 } else { 10 }).saturating_add(d);
                        self.i += 1;
                    }
                    None => break,
                }
            }
            if self.i == st {
                return self.err("character reference without digits");
            }
            if !self.eat(";") {
                return self.err("character reference not terminated by ';'");
            }
            match char::from_u32(v) {
                Some(c) if is_char(c) => Ok((c, true)),
                _ => self.err(format!("character reference to #x{v:X}, which is not a legal Char")),
            }
        } else {
            let n = match self.name() {
                Ok(n) => n,
                Err(_) => return self.err("bare '&' (neither an entity nor a character reference)"),
            };
            if !self.eat(";") {
                return self.err("entity reference not terminated by ';'");
            }
            let c = match n.as_str() {
                "lt" => '<',
                "gt" => '>',
                "amp" => '&',
                "apos" => '\'',
                "quot" => '"',
                _ => return self.err(format!("reference to undeclared entity &{n};")),
            };
            Ok((c, false))
        }
    }

    fn att_value(&mut self) -> R<String> {
        let q = match self.peek() {
            Some(c @ ('"' | '\'')) => c,
            _ => return self.err("attribute value must be quoted"),
        };
        self.i += 1;
        let mut v = String::new();
        loop {
            match self.peek() {
                None => return self.err("unterminated attribute value"),
                Some(c) if c == q => {
                    self.i += 1;
                    return Ok(v);
                }
                Some('<') => return self.err("'<' in attribute value"),
                Some('&') => {
                    let (c, _) = self.reference()?;
                    v.push(c);
                }
                Some(c) if is_s(c) => {
                    v.push(' ');
                    self.i += 1;
                }
                Some(c) => {
                    v.push(c);
                    self.i += 1;
                }
            }
        }
    }

    fn comment(&mut self) -> R<()> {
        self.expect("<!--")?;
        loop {
            if self.at("--") {
                if self.at("-->") {
                    self.i += 3;
                    return Ok(());
                }
                return self.err("'--' inside a comment");
            }
            if self.peek().is_none() {
                return self.err("unterminated comment");
            }
            self.i += 1;
        }
    }

    fn pi(&mut self) -> R<()> {
        self.expect("<?")?;
        let target = self.name()?;
        if target.eq_ignore_ascii_case("xml") {
            return self.err("processing instruction target 'xml' is reserved");
        }
        if self.eat("?>") {
            return Ok(());
        }
        if self.skip_s() == 0 {
            return self.err("white space required after the PI target");
        }
        loop {
            if self.eat("?>") {
                return Ok(());
            }
            if self.peek().is_none() {
                return self.err("unterminated processing instruction");
            }
            self.i += 1;
        }
    }

    fn eq(&mut self) -> R<()> {
        self.skip_s();
        self.expect("=")?;
        self.skip_s();
        Ok(())
    }

    fn quoted(&mut self) -> R<String> {
        let q = match self.peek() {
            Some(c @ ('"' | '\'')) => c,
            _ => return self.err("expected a quoted literal"),
        };
        self.i += 1;
        let st = self.i;
        while let Some(c) = self.peek() {
            if c == q {
                let v: String = self.s[st..self.i].iter().collect();
                self.i += 1;
                return Ok(v);
            }
            self.i += 1;
        }
        self.err("unterminated literal")
    }

    fn xml_decl(&mut self) -> R<()> {
        self.expect("<?xml")?;
        if self.skip_s() == 0 {
            return self.err("white space required after '<?xml'");
        }
        self.expect("version")?;
        self.eq()?;
        let v = self.quoted()?;
        let ok = v.strip_prefix("1.").map_or(false, |r| !r.is_empty() && r.bytes().all(|b| b.is_ascii_digit()));
        if !ok {
            return self.err(format!("bad VersionNum {v:?}"));
        }
        let mut had_s = self.skip_s() > 0;
        if self.at("encoding") {
            if !had_s {
                return self.err("white space required before 'encoding'");
            }
            self.expect("encoding")?;
            self.eq()?;
            let e = self.quoted()?;
            let mut it = e.chars();
            let ok = it.next().map_or(false, |c| c.is_ascii_alphabetic())
                && it.all(|c| c.is_ascii_alphanumeric() || matches!(c, '.' | '_' | '-'));
            if !ok {
                return self.err(format!("bad EncName {e:?}"));
            }
            had_s = self.skip_s() > 0;
        }
        if self.at("standalone") {
            if !had_s {
                return self.err("white space required before 'standalone'");
            }
            self.expect("standalone")?;
            self.eq()?;
            let e = self.quoted()?;
            if e != "yes" && e != "no" {
                return self.err(format!("bad standalone value {e:?}"));
            }
            self.skip_s();
        }
        if !self.eat("?>") {
            return self.err("malformed XML declaration");
        }
        Ok(())
    }

    /// Misc* ; returns Err on anything that is neither Misc nor the start of something else
    fn misc(&mut self) -> R<()> {
        loop {
            self.skip_s();
            if self.at("<!--") {
                self.comment()?;
            } else if self.at("<?") {
                self.pi()?;
            } else {
                return Ok(());
            }
        }
    }

    fn push_text(children: &mut Vec<Node>, c: char) {
        if let Some(Node::Text(t)) = children.last_mut() {
            t.push(c);
        } else {
            children.push(Node::Text(c.to_string()));
        }
    }

    /// element, positioned at '<' of the start tag.  Iterative over an explicit stack so that
    /// deeply nested documents cannot overflow the call stack.
    fn element(&mut self) -> R<Element> {
        let mut stack: Vec<Element> = vec![];
        loop {
            // --- start tag ---
            self.expect("<")?;
            let name = self.name()?;
            let mut el = Element { name, attrs: vec![], children: vec![] };
            let mut empty = false;
            loop {
                let had_s = self.skip_s() > 0;
                if self.eat(">") {
                    break;
                }
                if self.eat("/>") {
                    empty = true;
                    break;
                }
                if self.peek().is_none() {
                    return self.err("unterminated start tag");
                }
                if !had_s {
                    return self.err("white space required between attributes");
                }
                let an = self.name()?;
                self.eq()?;
                let av = self.att_value()?;
                if el.attrs.iter().any(|(k, _)| *k == an) {
                    return self.err(format!("duplicate attribute {an:?}"));
                }
                el.attrs.push((an, av));
            }
            if !empty {
                stack.push(el);
            } else {
                match stack.last_mut() {
                    Some(p) => p.children.push(Node::Element(el)),
                    None => return Ok(el),
                }
            }
            // --- content of the innermost open element, until the next start tag ---
            'content: loop {
                let Some(cur) = stack.last_mut() else { unreachable!() };
                match self.peek() {
                    None => return self.err(format!("end of input inside element <{}>", cur.name)),
                    Some('<') => {
                        if self.at("</") {
                            self.i += 2;
                            let n = self.name()?;
                            self.skip_s();
                            if !self.eat(">") {
                                return self.err("malformed end tag");
                            }
                            let done = stack.pop().unwrap();
                            if n != done.name {
                                return self.err(format!("end tag </{n}> does not match start tag <{}>", done.name));
                            }
                            match stack.last_mut() {
                                Some(p) => p.children.push(Node::Element(done)),
                                None => return Ok(done),
                            }
                        } else if self.at("<!--") {
                            self.comment()?;
                        } else if self.at("<![CDATA[") {
                            self.i += 9;
                            loop {
                                if self.eat("]]>") {
                                    break;
                                }
                                match self.peek() {
                                    None => return self.err("unterminated CDATA section"),
                                    Some(c) => {
                                        let cur = stack.last_mut().unwrap();
                                        Self::push_text(&mut cur.children, c);
                                        self.i += 1;
                                    }
                                }
                            }
                        } else if self.at("<?") {
                            self.pi()?;
                        } else if self.at("<!") {
                            return self.err("markup declaration inside content");
                        } else {
                            break 'content; // a child start tag
                        }
                    }
                    Some('&') => {
                        let (c, _) = self.reference()?;
                        let cur = stack.last_mut().unwrap();
                        Self::push_text(&mut cur.children, c);
                    }
                    Some(c) => {
                        if self.at("]]>") {
                            return self.err("']]>' in character data");
                        }
                        Self::push_text(&mut cur.children, c);
                        self.i += 1;
                    }
                }
            }
        }
    }
}

/// 2.11: translate CRLF and lone CR to LF.
pub fn normalize_line_ends(input: &str) -> String {
    let mut out = String::with_capacity(input.len());
    let mut it = input.chars().peekable();
    while let Some(c) = it.next() {
        if c == '\r' {
            if it.peek() == Some(&'\n') {
                it.next();
            }
            out.push('\n');
        } else {
            out.push(c);
        }
    }
    out
}

/// Parse a complete document entity.
pub fn parse(input: &str) -> Result<Document, XmlError> {
    let text = normalize_line_ends(input);
    let s: Vec<char> = text.chars().collect();
    // a byte order mark may precede the document entity
    let start = if s.first() == Some(&'\u{FEFF}') { 1 } else { 0 };
    for (k, &c) in s.iter().enumerate().skip(start) {
        if !is_char(c) {
            return Err(XmlError { pos: k, msg: format!("U+{:04X} is not a legal XML Char", c as u32) });
        }
    }
    let mut p = P { s, i: start };
    let mut has_decl = false;
    if p.at("<?xml") && p.s.get(p.i + 5).map_or(false, |&c| is_s(c)) {
        p.xml_decl()?;
        has_decl = true;
    }
    p.misc()?;
    if p.at("<!DOCTYPE") {
        return p.err("DOCTYPE declarations are not supported by this reader");
    }
    if p.peek() != Some('<') {
        return p.err(if p.peek().is_none() { "no root element" } else { "content before the root element" });
    }
    let root = p.element()?;
    p.misc()?;
    if p.peek().is_some() {
        return p.err("content after the root element");
    }
    Ok(Document { root, has_decl })
}

/// "Namespaces in XML 1.0": every prefix used on an element or attribute name is declared in
/// scope (`xml` is predeclared), names have at most one colon with non-empty parts, `xmlns`
/// is not used as a prefix of an element, no prefix is bound to the empty string.
pub fn check_namespaces(root: &Element) -> Result<(), String> {
    fn split(name: &str) -> Result<(Option<&str>, &str), String> {
        let mut it = name.split(':');
        let a = it.next().unwrap();
        match (it.next(), it.next()) {
            (None, _) => Ok((None, a)),
            (Some(b), None) if !a.is_empty() && !b.is_empty() => Ok((Some(a), b)),
            _ => Err(format!("{name:?} is not a QName")),
        }
    }
    fn walk(e: &Element, scope: &mut Vec<String>) -> Result<(), String> {
        let mark = scope.len();
        for (k, v) in &e.attrs {
            if let Some(p) = k.strip_prefix("xmlns:") {
                if v.is_empty() {
                    return Err(format!("prefix {p:?} bound to the empty namespace name"));
                }
                if p == "xmlns" {
                    return Err("the prefix xmlns must not be declared".into());
                }
                scope.push(p.to_string());
            }
        }
        let (p, _) = split(&e.name)?;
        if let Some(p) = p {
            if p == "xmlns" {
                return Err("element name uses the xmlns prefix".into());
            }
            if p != "xml" && !scope.iter().any(|s| s == p) {
                return Err(format!("undeclared namespace prefix {p:?} on element <{}>", e.name));
            }
        }
        let mut seen: Vec<(Option<&str>, &str)> = vec![];
        for (k, _) in &e.attrs {
            let (p, l) = split(k)?;
            if let Some(p) = p {
                if p != "xml" && p != "xmlns" && !scope.iter().any(|s| s == p) {
                    return Err(format!("undeclared namespace prefix {p:?} on attribute {k:?}"));
                }
            }
            seen.push((p, l));
        }
        for c in e.elements() {
            walk(c, scope)?;
        }
        scope.truncate(mark);
        Ok(())
    }
    walk(root, &mut vec![])
}

#[cfg(test)]
mod tests {
    use super::*;

    fn ok(s: &str) -> Document {
        parse(s).unwrap_or_else(|e| panic!("{s:?} should be well-formed: {e}"))
    }
    fn bad(s: &str) {
        assert!(parse(s).is_err(), "{s:?} should be rejected");
    }

    #[test]
    fn accepts() {
        let d = ok("<a/>");
        assert_eq!(d.root.name, "a");
        ok("<?xml version=\"1.0\" encoding='UTF-8' standalone=\"yes\"?>\n<!-- c --><?pi x?><a b='1' c=\"2\"> t <b/>&lt;&#65;&#x42;<![CDATA[<&]]></a>\n<!-- d -->\n");
        let d = ok("<a x=' p\tq\n'>&amp;&apos;&quot;&gt;]]&gt;</a>");
        assert_eq!(d.root.attr("x"), Some(" p q "));
        assert_eq!(d.root.text_content(), "&'\">]]>");
        let d = ok("<a>x\r\ny\rz&#13;</a>");
        assert_eq!(d.root.text_content(), "x\ny\nz\r");
        let d = ok("<t xml:space=\"preserve\"><s class=\"k\">\u{4e16}\u{200b}\u{301}</s>\n</t>");
        assert_eq!(d.root.elements().next().unwrap().text_content(), "\u{4e16}\u{200b}\u{301}");
        assert_eq!(d.root.own_text(), "\n");
        ok("<a>></a>");
        ok("<a>\"'</a>");
        ok("<a b=\"'\" c='\"'/>");
        ok("<a b=\">\"/>");
        ok("<a\n b = 'x'\n/>");
        ok("<a></a >");
        ok("\u{feff}<a/>");
        ok("<a><?p?></a>");
        ok("<_a.b-c:d\u{b7}/>");
    }

    #[test]
    fn rejects() {
        for s in [
            "", " ", "x", "<a>", "</a>", "<a></b>", "<a/><b/>", "<a/>x", "x<a/>", "<a><b></a></b>",
            "<a>&</a>", "<a>&lt</a>", "<a>&foo;</a>", "<a>&#0;</a>", "<a>&#x1F;</a>", "<a>&#xFFFE;</a>",
            "<a>&#;</a>", "<a>&#x;</a>", "<a>&#xD800;</a>", "<a>&#1114112;</a>", "<a><</a>", "<a>]]></a>",
            "<a b=\"<\"/>", "<a b=\"&\"/>", "<a b=c/>", "<a b/>", "<a b='1' b='2'/>", "<a b='1'c='2'/>",
            "<a b='1/>", "<a>\u{c}</a>", "<a>\u{1}</a>", "<a>\u{ffff}</a>", "<a>\u{fffe}</a>", "<a b='\u{b}'/>",
            "<1a/>", "<-a/>", "< a/>", "<a><!-- -- --></a>", "<a><!-- x ---></a>", "<a><!-- x</a>",
            "<a><?xml x?></a>", "<a><?XmL?></a>", "<a><?p</a>", "<a><![CDATA[x</a>", "<a><!DOCTYPE x></a>",
            "<!DOCTYPE a><a/>", "<?xml version='2.0'?><a/>", "<?xml?><a/>", " <?xml version='1.0'?><a/>",
            "<?xml version='1.0' standalone='maybe'?><a/>", "<?xml version='1.0'encoding='x'?><a/>",
            "<a/><?xml version='1.0'?>", "<a", "<a b='x'", "<a></a", "<a/ >", "<a>&#x110000;</a>",
            "<a>&#xFFFFFFFFFF;</a>", "<a>&#-1;</a>", "<a>&# 1;</a>", "<a>& amp;</a>", "<a>&amp ;</a>",
        ] {
            bad(s);
        }
    }

    #[test]
    fn namespaces() {
        let d = ok("<svg xmlns=\"u\"><text xml:space=\"preserve\"/></svg>");
        assert!(check_namespaces(&d.root).is_ok());
        let d = ok("<svg><x:a/></svg>");
        assert!(check_namespaces(&d.root).is_err());
        let d = ok("<svg xmlns:x='u'><x:a x:b='1'/></svg>");
        assert!(check_namespaces(&d.root).is_ok());
        let d = ok("<svg><a y:b='1'/></svg>");
        assert!(check_namespaces(&d.root).is_err());
        let d = ok("<a:b:c/>");
        assert!(check_namespaces(&d.root).is_err());
    }
}
