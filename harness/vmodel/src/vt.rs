//! M-VT: Paul Williams' DEC ANSI parser (https://vt100.net/emu/dec_ansi_parser)
//! written as an explicit match over (state, byte), with the deviations the
//! anstyle-parse crate documents:
//!   * UTF-8 text in Ground (lead bytes C2..F4 start a character, decoded by
//!     an RFC 3629 DFA; a rejected sequence prints U+FFFD and consumes the
//!     rejecting byte),
//!   * OSC may be terminated by BEL; OSC payload is 0x20..=0xFF,
//!   * only 7-bit controls are "anywhere" transitions (CAN, SUB, ESC); of the
//!     8-bit controls only C1 `execute` in Ground and 0x9C (ST) ending
//!     DCS-passthrough / DCS-ignore / SOS-PM-APC strings survive; every other
//!     byte >= 0x80 outside Ground/OSC is ignored,
//!   * ':' is a parameter byte introducing sub-parameters.
//! Limits: 32 (sub)parameters, 2 intermediates, 16 OSC fields, values
//! saturate at 65535.
//!
//! This file must not depend on the code under test.

use crate::utf8::{Utf8Dfa, Utf8Step};

#[derive(Clone, Copy, Debug, PartialEq, Eq, Hash, PartialOrd, Ord)]
pub enum St {
    Ground,
    Escape,
    EscapeIntermediate,
    CsiEntry,
    CsiParam,
    CsiIntermediate,
    CsiIgnore,
    DcsEntry,
    DcsParam,
    DcsIntermediate,
    DcsPassthrough,
    DcsIgnore,
    OscString,
    SosPmApcString,
    Utf8,
}

pub const ALL_STATES: [St; 15] = [
    St::Ground,
    St::Escape,
    St::EscapeIntermediate,
    St::CsiEntry,
    St::CsiParam,
    St::CsiIntermediate,
    St::CsiIgnore,
    St::DcsEntry,
    St::DcsParam,
    St::DcsIntermediate,
    St::DcsPassthrough,
    St::DcsIgnore,
    St::OscString,
    St::SosPmApcString,
    St::Utf8,
];

/// The primitive actions of Williams' diagram.
#[derive(Clone, Copy, Debug, PartialEq, Eq, Hash)]
pub enum Act {
    None,
    Ignore,
    Print,
    Execute,
    Clear,
    Collect,
    Param,
    EscDispatch,
    CsiDispatch,
    Hook,
    Put,
    Unhook,
    OscStart,
    OscPut,
    OscEnd,
    BeginUtf8,
}

#[derive(Clone, Debug, PartialEq, Eq, Hash)]
pub enum Ev {
    Print(char),
    Execute(u8),
    Hook { params: Vec<Vec<u16>>, inter: Vec<u8>, ignore: bool, byte: u8 },
    Put(u8),
    Unhook,
    Osc { params: Vec<Vec<u8>>, bell: bool },
    Csi { params: Vec<Vec<u16>>, inter: Vec<u8>, ignore: bool, byte: u8 },
    Esc { inter: Vec<u8>, ignore: bool, byte: u8 },
}

/// Pure transition table: (state, byte) -> (next state or None = stay, transition action).
/// `Utf8` is handled out of band by `Vt::advance`.
pub fn table(st: St, b: u8) -> (Option<St>, Act) {
    use Act as A;
    use St::*;
    // anywhere transitions (7-bit only)
    match b {
        0x18 | 0x1a => return (Some(Ground), A::Execute),
        0x1b => return (Some(Escape), A::None),
        _ => {}
    }
    let c0 = matches!(b, 0x00..=0x17 | 0x19 | 0x1c..=0x1f);
    match st {
        Ground => match b {
            _ if c0 => (None, A::Execute),
            0x20..=0x7f => (None, A::Print),
            0x80..=0x8f | 0x91..=0x9a | 0x9c => (None, A::Execute),
            0xc2..=0xf4 => (Some(Utf8), A::BeginUtf8),
            _ => (None, A::None),
        },
        Escape => match b {
            _ if c0 => (None, A::Execute),
            0x7f => (None, A::Ignore),
            0x20..=0x2f => (Some(EscapeIntermediate), A::Collect),
            0x5b => (Some(CsiEntry), A::None),
            0x5d => (Some(OscString), A::None),
            0x50 => (Some(DcsEntry), A::None),
            0x58 | 0x5e | 0x5f => (Some(SosPmApcString), A::None),
            0x30..=0x4f | 0x51..=0x57 | 0x59 | 0x5a | 0x5c | 0x60..=0x7e => {
                (Some(Ground), A::EscDispatch)
            }
            _ => (None, A::None),
        },
        EscapeIntermediate => match b {
            _ if c0 => (None, A::Execute),
            0x20..=0x2f => (None, A::Collect),
            0x7f => (None, A::Ignore),
            0x30..=0x7e => (Some(Ground), A::EscDispatch),
            _ => (None, A::None),
        },
        CsiEntry => match b {
            _ if c0 => (None, A::Execute),
            0x7f => (None, A::Ignore),
            0x20..=0x2f => (Some(CsiIntermediate), A::Collect),
            0x30..=0x3b => (Some(CsiParam), A::Param),
            0x3c..=0x3f => (Some(CsiParam), A::Collect),
            0x40..=0x7e => (Some(Ground), A::CsiDispatch),
            _ => (None, A::None),
        },
        CsiParam => match b {
            _ if c0 => (None, A::Execute),
            0x30..=0x3b => (None, A::Param),
            0x7f => (None, A::Ignore),
            0x3c..=0x3f => (Some(CsiIgnore), A::None),
            0x20..=0x2f => (Some(CsiIntermediate), A::Collect),
            0x40..=0x7e => (Some(Ground), A::CsiDispatch),
            _ => (None, A::None),
        },
        CsiIntermediate => match b {
            _ if c0 => (None, A::Execute),
            0x20..=0x2f => (None, A::Collect),
            0x7f => (None, A::Ignore),
            0x30..=0x3f => (Some(CsiIgnore), A::None),
            0x40..=0x7e => (Some(Ground), A::CsiDispatch),
            _ => (None, A::None),
        },
        CsiIgnore => match b {
            _ if c0 => (None, A::Execute),
            0x20..=0x3f | 0x7f => (None, A::Ignore),
            0x40..=0x7e => (Some(Ground), A::None),
            _ => (None, A::None),
        },
        DcsEntry => match b {
            _ if c0 => (None, A::Ignore),
            0x7f => (None, A::Ignore),
            0x20..=0x2f => (Some(DcsIntermediate), A::Collect),
            0x30..=0x3b => (Some(DcsParam), A::Param),
            0x3c..=0x3f => (Some(DcsParam), A::Collect),
            0x40..=0x7e => (Some(DcsPassthrough), A::None),
            _ => (None, A::None),
        },
        DcsParam => match b {
            _ if c0 => (None, A::Ignore),
            0x30..=0x3b => (None, A::Param),
            0x7f => (None, A::Ignore),
            0x3c..=0x3f => (Some(DcsIgnore), A::None),
            0x20..=0x2f => (Some(DcsIntermediate), A::Collect),
            0x40..=0x7e => (Some(DcsPassthrough), A::None),
            _ => (None, A::None),
        },
        DcsIntermediate => match b {
            _ if c0 => (None, A::Ignore),
            0x20..=0x2f => (None, A::Collect),
            0x7f => (None, A::Ignore),
            0x30..=0x3f => (Some(DcsIgnore), A::None),
            0x40..=0x7e => (Some(DcsPassthrough), A::None),
            _ => (None, A::None),
        },
        DcsPassthrough => match b {
            _ if c0 => (None, A::Put),
            0x20..=0x7e => (None, A::Put),
            0x7f => (None, A::Ignore),
            0x9c => (Some(Ground), A::None),
            _ => (None, A::None),
        },
        DcsIgnore | SosPmApcString => match b {
            _ if c0 => (None, A::Ignore),
            0x20..=0x7f => (None, A::Ignore),
            0x9c => (Some(Ground), A::None),
            _ => (None, A::None),
        },
        OscString => match b {
            0x07 => (Some(Ground), A::None),
            _ if c0 => (None, A::Ignore),
            0x20..=0xff => (None, A::OscPut),
            _ => (None, A::None),
        },
        Utf8 => (None, A::None),
    }
}

#[derive(Clone, Debug, PartialEq, Eq, Hash)]
pub struct VtCfg {
    /// `Some(n)`: OSC payload storage is capped at n bytes (the `core` feature).
    pub osc_raw_cap: Option<usize>,
    /// whether UTF-8 decoding is available (the `utf8` feature)
    pub utf8: bool,
}

impl Default for VtCfg {
    fn default() -> Self {
        VtCfg { osc_raw_cap: None, utf8: true }
    }
}

pub const MAX_PARAMS: usize = 32;
pub const MAX_INTERMEDIATES: usize = 2;
pub const MAX_OSC_PARAMS: usize = 16;

#[derive(Clone, Debug, PartialEq, Eq, Hash)]
pub struct Vt {
    pub st: St,
    pub cfg: VtCfg,
    // parameter bookkeeping (only meaningful between Clear and dispatch)
    groups: Vec<Vec<u16>>,
    open: Vec<u16>,
    cur: u16,
    inter: Vec<u8>,
    ignoring: bool,
    // osc bookkeeping (only meaningful inside OscString)
    osc_fields: Vec<Vec<u8>>, // completed fields (at most 16)
    osc_cur: Vec<u8>,         // bytes since the last accepted separator
    osc_stored: usize,        // bytes stored so far (for the cap)
    osc_capped: bool,         // a byte of the current OSC was dropped because of the cap
    /// the OSC dispatched last lost bytes to the storage cap
    pub last_osc_capped: bool,
    utf8: Utf8Dfa,
}

impl Default for Vt {
    fn default() -> Self {
        Vt::new(VtCfg::default())
    }
}

impl Vt {
    pub fn new(cfg: VtCfg) -> Self {
        Vt {
            st: St::Ground,
            cfg,
            groups: vec![],
            open: vec![],
            cur: 0,
            inter: vec![],
            ignoring: false,
            osc_fields: vec![],
            osc_cur: vec![],
            osc_stored: 0,
            osc_capped: false,
            last_osc_capped: false,
            utf8: Utf8Dfa::default(),
        }
    }

    /// Canonical form for state matching: drops bookkeeping the future cannot observe.
    pub fn canon(&self) -> Vt {
        let mut c = self.clone();
        match self.st {
            St::CsiEntry | St::CsiParam | St::CsiIntermediate | St::DcsEntry | St::DcsParam
            | St::DcsIntermediate | St::EscapeIntermediate | St::Escape => {}
            _ => {
                c.groups.clear();
                c.open.clear();
                c.cur = 0;
                c.inter.clear();
                c.ignoring = false;
            }
        }
        if self.st != St::OscString {
            c.osc_fields.clear();
            c.osc_cur.clear();
            c.osc_stored = 0;
            c.osc_capped = false;
        }
        c.last_osc_capped = false;
        if self.st != St::Utf8 {
            c.utf8 = Utf8Dfa::default();
        }
        c
    }

    fn flat_len(&self) -> usize {
        self.groups.iter().map(|g| g.len()).sum::<usize>() + self.open.len()
    }

    fn finish_params(&mut self) -> Vec<Vec<u16>> {
        if self.flat_len() == MAX_PARAMS {
            self.ignoring = true;
        } else {
            self.open.push(self.cur);
            let g = std::mem::take(&mut self.open);
            self.groups.push(g);
        }
        let mut out = self.groups.clone();
        if !self.open.is_empty() {
            out.push(self.open.clone());
        }
        out
    }

    fn act(&mut self, a: Act, b: u8, out: &mut Vec<Ev>) {
        match a {
            Act::None | Act::Ignore => {}
            Act::Print => out.push(Ev::Print(b as char)),
            Act::Execute => out.push(Ev::Execute(b)),
            Act::Clear => {
                self.groups.clear();
                self.open.clear();
                self.cur = 0;
                self.inter.clear();
                self.ignoring = false;
            }
            Act::Collect => {
                if self.inter.len() == MAX_INTERMEDIATES {
                    self.ignoring = true;
                } else {
                    self.inter.push(b);
                }
            }
            Act::Param => {
                if self.flat_len() == MAX_PARAMS {
                    self.ignoring = true;
                    return;
                }
                match b {
                    b';' => {
                        self.open.push(self.cur);
                        let g = std::mem::take(&mut self.open);
                        self.groups.push(g);
                        self.cur = 0;
                    }
                    b':' => {
                        self.open.push(self.cur);
                        self.cur = 0;
                    }
                    _ => {
                        let d = (b - b'0') as u32;
                        let v = (self.cur as u32) * 10 + d;
                        self.cur = if v > 65535 { 65535 } else { v as u16 };
                    }
                }
            }
            Act::EscDispatch => out.push(Ev::Esc {
                inter: self.inter.clone(),
                ignore: self.ignoring,
                byte: b,
            }),
            Act::CsiDispatch => {
                let params = self.finish_params();
                out.push(Ev::Csi { params, inter: self.inter.clone(), ignore: self.ignoring, byte: b });
            }
            Act::Hook => {
                let params = self.finish_params();
                out.push(Ev::Hook { params, inter: self.inter.clone(), ignore: self.ignoring, byte: b });
            }
            Act::Put => out.push(Ev::Put(b)),
            Act::Unhook => out.push(Ev::Unhook),
            Act::OscStart => {
                self.osc_fields.clear();
                self.osc_cur.clear();
                self.osc_stored = 0;
                self.osc_capped = false;
            }
            Act::OscPut => {
                if let Some(cap) = self.cfg.osc_raw_cap {
                    if self.osc_stored >= cap {
                        self.osc_capped = true;
                        return;
                    }
                }
                if b == b';' {
                    if self.osc_fields.len() == MAX_OSC_PARAMS {
                        return;
                    }
                    let f = std::mem::take(&mut self.osc_cur);
                    self.osc_fields.push(f);
                } else {
                    self.osc_cur.push(b);
                    self.osc_stored += 1;
                }
            }
            Act::OscEnd => {
                let mut params = self.osc_fields.clone();
                if params.len() < MAX_OSC_PARAMS {
                    params.push(self.osc_cur.clone());
                }
                self.last_osc_capped = self.osc_capped;
                out.push(Ev::Osc { params, bell: b == 0x07 });
            }
            Act::BeginUtf8 => {
                self.utf8 = Utf8Dfa::default();
                self.utf8_feed(b, out);
            }
        }
    }

    fn utf8_feed(&mut self, b: u8, out: &mut Vec<Ev>) -> bool {
        match self.utf8.step(b) {
            Utf8Step::More => false,
            Utf8Step::Char(c) => {
                out.push(Ev::Print(c));
                true
            }
            Utf8Step::Reject => {
                out.push(Ev::Print('\u{FFFD}'));
                true
            }
        }
    }

    /// Feed one byte, return the events it causes, in order.
    pub fn advance(&mut self, b: u8) -> Vec<Ev> {
        let mut out = vec![];
        if self.st == St::Utf8 {
            if self.utf8_feed(b, &mut out) {
                self.st = St::Ground;
            }
            return out;
        }
        let (next, a) = table(self.st, b);
        match next {
            None => self.act(a, b, &mut out),
            Some(n) => {
                // exit action of the old state
                match self.st {
                    St::DcsPassthrough => self.act(Act::Unhook, b, &mut out),
                    St::OscString => self.act(Act::OscEnd, b, &mut out),
                    _ => {}
                }
                // transition action
                self.act(a, b, &mut out);
                // entry action of the new state
                match n {
                    St::Escape | St::CsiEntry | St::DcsEntry => self.act(Act::Clear, b, &mut out),
                    St::DcsPassthrough => self.act(Act::Hook, b, &mut out),
                    St::OscString => self.act(Act::OscStart, b, &mut out),
                    _ => {}
                }
                self.st = n;
            }
        }
        out
    }

    pub fn feed(&mut self, bytes: &[u8]) -> Vec<Ev> {
        let mut out = vec![];
        for &b in bytes {
            out.extend(self.advance(b));
        }
        out
    }
}

#[cfg(test)]
mod tests {
    use super::*;
    #[test]
    fn csi_basic() {
        let mut vt = Vt::default();
        let ev = vt.feed(b"\x1b[1;38:5:10m");
        assert_eq!(
            ev,
            vec![Ev::Csi { params: vec![vec![1], vec![38, 5, 10]], inter: vec![], ignore: false, byte: b'm' }]
        );
        assert_eq!(vt.canon(), Vt::default().canon());
    }
    #[test]
    fn osc_basic() {
        let mut vt = Vt::default();
        let ev = vt.feed(b"\x1b]0;hi\x07x");
        assert_eq!(
            ev,
            vec![Ev::Osc { params: vec![b"0".to_vec(), b"hi".to_vec()], bell: true }, Ev::Print('x')]
        );
    }
    #[test]
    fn can_resets() {
        let mut vt = Vt::default();
        vt.feed(b"\x1bP1;2q abc");
        let ev = vt.advance(0x18);
        assert_eq!(ev, vec![Ev::Unhook, Ev::Execute(0x18)]);
        assert_eq!(vt.canon(), Vt::default().canon());
    }
}
