//! M-COLOR: the xterm 256 palette and brute-force nearest-colour search with
//! the red-mean weighted integer metric, ties to the lowest index.

pub type Rgb = (u8, u8, u8);

pub const VGA: [Rgb; 16] = [
    (0, 0, 0), (170, 0, 0), (0, 170, 0), (170, 85, 0), (0, 0, 170), (170, 0, 170), (0, 170, 170),
    (170, 170, 170), (85, 85, 85), (255, 85, 85), (85, 255, 85), (255, 255, 85), (85, 85, 255),
    (255, 85, 255), (85, 255, 255), (255, 255, 255),
];

pub const WIN10: [Rgb; 16] = [
    (12, 12, 12), (197, 15, 31), (19, 161, 14), (193, 156, 0), (0, 55, 218), (136, 23, 152),
    (58, 150, 221), (204, 204, 204), (118, 118, 118), (231, 72, 86), (22, 198, 12), (249, 241, 165),
    (59, 120, 255), (180, 0, 158), (97, 214, 214), (242, 242, 242),
];

/// The fixed part of the xterm palette: 6x6x6 cube (16..=231), grey ramp (232..=255).
pub fn xterm_fixed(index: u8) -> Option<Rgb> {
    const LEVELS: [u8; 6] = [0, 95, 135, 175, 215, 255];
    match index {
        0..=15 => None,
        16..=231 => {
            let i = index - 16;
            Some((LEVELS[(i / 36) as usize], LEVELS[((i / 6) % 6) as usize], LEVELS[(i % 6) as usize]))
        }
        232..=255 => {
            let v = 8 + 10 * (index - 232);
            Some((v, v, v))
        }
    }
}

/// Red-mean weighted squared distance, as stated by the crate:
/// (1024 + r1 + r2) dr^2 + 1024 dg^2 + (1534 - (r1 + r2)) db^2
pub fn distance(a: Rgb, b: Rgb) -> i64 {
    let rsum = a.0 as i64 + b.0 as i64;
    let dr = a.0 as i64 - b.0 as i64;
    let dg = a.1 as i64 - b.1 as i64;
    let db = a.2 as i64 - b.2 as i64;
    (1024 + rsum) * dr * dr + 1024 * dg * dg + (1534 - rsum) * db * db
}

/// arg-min over `candidates` (index, colour), lowest index on ties.
pub fn nearest(c: Rgb, candidates: impl Iterator<Item = (usize, Rgb)>) -> usize {
    let mut best: Option<(i64, usize)> = None;
    for (i, k) in candidates {
        let d = distance(c, k);
        match best {
            None => best = Some((d, i)),
            Some((bd, bi)) => {
                if d < bd || (d == bd && i < bi) {
                    best = Some((d, i));
                }
            }
        }
    }
    best.expect("non-empty candidates").1
}

pub fn rgb_to_ansi(c: Rgb, palette: &[Rgb; 16]) -> usize {
    nearest(c, palette.iter().copied().enumerate())
}

pub fn rgb_to_xterm(c: Rgb) -> usize {
    nearest(c, (16..=255usize).map(|i| (i, xterm_fixed(i as u8).unwrap())))
}

pub fn xterm_to_rgb(i: u8, palette: &[Rgb; 16]) -> Rgb {
    xterm_fixed(i).unwrap_or_else(|| palette[i as usize])
}
