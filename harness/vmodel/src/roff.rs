//! M-ROFF: a reader for the subset of roff input that `anstyle-roff` (through
//! the `roff` crate) is expected to emit, written from groff(7)/roff(7):
//!
//!   * a line whose first character is the control character `.` or the
//!     no-break control character `'` is a *control line* (request or macro
//!     call): optional blanks, a name, blank-separated arguments, an argument
//!     in double quotes may contain blanks (`""` inside quotes is a quote);
//!   * every other line is a *text line*; inside it `\` introduces an escape.
//!     Escapes understood (everything else is an error, because an escape the
//!     reader does not know could do anything):
//!       `\\` and `\e`  a backslash        `\-`  a minus / hyphen
//!       `\&`           zero-width non-printing character (protects a leading
//!                      `.` or `'`, recorded so the caller can see it)
//!       `\fB` `\fI` `\fR` `\fP`, `\f1`..`\f3`, `\f(XX`, `\f[name]`  font change
//!     a `\` as the last character of a line is an error (line continuation).
//!   * the font selected by `\f` persists over line ends until changed.
//!
//! Independent of the code under test and of the `roff` crate.

#[derive(Clone, Copy, Debug, PartialEq, Eq, Hash)]
pub enum Font {
    Roman,
    Bold,
    Italic,
    BoldItalic,
}

#[derive(Clone, Debug, PartialEq, Eq)]
pub enum Line {
    Control {
        /// `.` or `'`
        cc: char,
        name: String,
        args: Vec<String>,
    },
    /// the characters of a text line with the font each is set in
    Text(Vec<(Font, char)>),
}

/// Reader state that survives line ends.
#[derive(Clone, Debug)]
pub struct Reader {
    pub font: Font,
    prev_font: Font,
}

impl Default for Reader {
    fn default() -> Self {
        Reader { font: Font::Roman, prev_font: Font::Roman }
    }
}

fn font_by_name(n: &str) -> Option<Font> {
    match n {
        "R" | "1" => Some(Font::Roman),
        "I" | "2" => Some(Font::Italic),
        "B" | "3" => Some(Font::Bold),
        "BI" | "4" => Some(Font::BoldItalic),
        _ => None,
    }
}

impl Reader {
    fn set_font(&mut self, name: &str) -> Result<(), String> {
        if name == "P" || name.is_empty() {
            std::mem::swap(&mut self.font, &mut self.prev_font);
            return Ok(());
        }
        match font_by_name(name) {
            Some(f) => {
                self.prev_font = self.font;
                self.font = f;
                Ok(())
            }
            None => Err(format!("font escape selects unknown font {name:?}")),
        }
    }

    pub fn control_line(&self, line: &str) -> Result<Line, String> {
        let mut it = line.chars();
        let cc = it.next().unwrap();
        let rest: Vec<char> = it.collect();
        let mut i = 0;
        while i < rest.len() && (rest[i] == ' ' || rest[i] == '\t') {
            i += 1;
        }
        let st = i;
        while i < rest.len() && rest[i] != ' ' && rest[i] != '\t' {
            i += 1;
        }
        let name: String = rest[st..i].iter().collect();
        let mut args = vec![];
        loop {
            while i < rest.len() && rest[i] == ' ' {
                i += 1;
            }
            if i >= rest.len() {
                break;
            }
            let mut a = String::new();
            if rest[i] == '"' {
                i += 1;
                loop {
                    if i >= rest.len() {
                        break; // an unterminated quoted argument extends to the end of the line
                    }
                    if rest[i] == '"' {
                        if rest.get(i + 1) == Some(&'"') {
                            a.push('"');
                            i += 2;
                            continue;
                        }
                        i += 1;
                        break;
                    }
                    a.push(rest[i]);
                    i += 1;
                }
            } else {
                while i < rest.len() && rest[i] != ' ' {
                    a.push(rest[i]);
                    i += 1;
                }
            }
            args.push(a);
        }
        Ok(Line::Control { cc, name, args })
    }

    pub fn text_line(&mut self, line: &str) -> Result<(Vec<(Font, char)>, usize), String> {
        let cs: Vec<char> = line.chars().collect();
        let mut out = vec![];
        let mut zero_width = 0usize;
        let mut i = 0;
        while i < cs.len() {
            let c = cs[i];
            if c != '\\' {
                out.push((self.font, c));
                i += 1;
                continue;
            }
            let Some(&e) = cs.get(i + 1) else {
                return Err("backslash at the end of a line (line continuation)".into());
            };
            match e {
                '\\' | 'e' => {
                    out.push((self.font, '\\'));
                    i += 2;
                }
                '-' => {
                    out.push((self.font, '-'));
                    i += 2;
                }
                '&' => {
                    zero_width += 1;
                    i += 2;
                }
                'f' => match cs.get(i + 2) {
                    Some('(') => {
                        if cs.len() < i + 5 {
                            return Err("truncated \\f( escape".into());
                        }
                        let n: String = cs[i + 3..i + 5].iter().collect();
                        self.set_font(&n)?;
                        i += 5;
                    }
                    Some('[') => {
                        let Some(close) = cs[i + 3..].iter().position(|&c| c == ']') else {
                            return Err("unterminated \\f[ escape".into());
                        };
                        let n: String = cs[i + 3..i + 3 + close].iter().collect();
                        self.set_font(&n)?;
                        i += 3 + close + 1;
                    }
                    Some(&n) => {
                        self.set_font(&n.to_string())?;
                        i += 3;
                    }
                    None => return Err("truncated \\f escape".into()),
                },
                other => return Err(format!("escape \\{other} is not one the renderer may emit")),
            }
        }
        Ok((out, zero_width))
    }
}

/// Read a whole document.  The document must end with a newline (every roff input line is
/// newline terminated); the empty document is allowed.
pub fn read(doc: &str) -> Result<Vec<Line>, String> {
    if doc.is_empty() {
        return Ok(vec![]);
    }
    let Some(body) = doc.strip_suffix('\n') else {
        return Err("document does not end with a newline".into());
    };
    let mut rd = Reader::default();
    let mut out = vec![];
    for (n, line) in body.split('\n').enumerate() {
        let l = if line.starts_with('.') || line.starts_with('\'') {
            rd.control_line(line)
        } else {
            rd.text_line(line).map(|(t, _)| Line::Text(t))
        };
        out.push(l.map_err(|m| format!("line {}: {m}: {line:?}", n + 1))?);
    }
    Ok(out)
}

/// A block of the document: the control lines that precede a stretch of text lines, and
/// that text (lines joined by LF; the LF that terminates the last text line is the line end
/// of the roff source, not text).
#[derive(Clone, Debug, PartialEq, Eq, Default)]
pub struct Block {
    pub requests: Vec<(String, Vec<String>)>,
    pub text: Vec<(Font, char)>,
    pub has_text: bool,
}

impl Block {
    pub fn text_string(&self) -> String {
        self.text.iter().map(|&(_, c)| c).collect()
    }
}

pub fn blocks(lines: &[Line]) -> Vec<Block> {
    let mut out: Vec<Block> = vec![];
    let mut cur = Block::default();
    for l in lines {
        match l {
            Line::Control { name, args, .. } => {
                if cur.has_text {
                    out.push(std::mem::take(&mut cur));
                }
                cur.requests.push((name.clone(), args.clone()));
            }
            Line::Text(t) => {
                if cur.has_text {
                    let f = cur.text.last().map(|&(f, _)| f).or(t.first().map(|&(f, _)| f)).unwrap_or(Font::Roman);
                    cur.text.push((f, '\n'));
                }
                cur.has_text = true;
                cur.text.extend(t.iter().copied());
            }
        }
    }
    if cur.has_text || !cur.requests.is_empty() {
        out.push(cur);
    }
    out
}

#[cfg(test)]
mod tests {
    use super::*;

    #[test]
    fn control_and_text() {
        let l = read(".gcolor red\n.fcolor default\n\\fBa\\-b\\\\\\fR\n").unwrap();
        assert_eq!(l[0], Line::Control { cc: '.', name: "gcolor".into(), args: vec!["red".into()] });
        assert_eq!(
            l[2],
            Line::Text(vec![(Font::Bold, 'a'), (Font::Bold, '-'), (Font::Bold, 'b'), (Font::Bold, '\\')])
        );
        let b = blocks(&l);
        assert_eq!(b.len(), 1);
        assert_eq!(b[0].text_string(), "a-b\\");
    }

    #[test]
    fn protects_and_multiline() {
        let l = read("\\&.x\n\\&'y\n\n").unwrap();
        let b = blocks(&l);
        assert_eq!(b[0].text_string(), ".x\n'y\n");
        let l = read("\\fIa\n\\fR\n.defcolor hex_#010203 rgb #010203\n.x \"a b\" c\n").unwrap();
        let b = blocks(&l);
        assert_eq!(b[0].text, vec![(Font::Italic, 'a'), (Font::Italic, '\n')]);
        assert_eq!(b[1].requests[1], ("x".to_string(), vec!["a b".to_string(), "c".to_string()]));
    }

    #[test]
    fn rejects() {
        assert!(read("a").is_err());
        assert!(read("a\\\n").is_err());
        assert!(read("a\\n(.g\n").is_err());
        assert!(read("\\*(Aq\n").is_err());
        assert!(read("\\fXa\n").is_err());
        assert!(read("\\f").is_err());
    }
}
