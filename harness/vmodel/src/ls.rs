//! M-LS: reference reading of an LS_COLORS style value, written from the
//! property statement (C12), independent of the code under test.
//!
//! A value is a ';'-separated list of decimal codes.  The denoted style is the
//! left-to-right fold of the codes over the default style:
//!   0            full reset
//!   1..=9        bold, dim, italic, underline, blink, blink (rapid), invert, hidden, strike
//!   22..=29      resets: 22 bold+dim, 23 italic, 24 underline, 25 blink, 27 invert,
//!                28 hidden, 29 strike (26 is not a reset of any of 1-9: unknown)
//!   30-37 / 90-97    foreground, normal / bright
//!   40-47 / 100-107  background, normal / bright
//!   38 / 48 / 58 followed by `5;n` or `2;r;g;b`  foreground / background / underline colour
//!   39 / 49 / 59 colour resets
//!   anything else is ignored.
//! "", "0" and "00" mean "no style".  A value with a field that is not a
//! decimal number in 0..=255 is rejected.
//!
//! Three-valued where the statement is silent (`Unspecified`): an extended
//! colour introducer that is not followed by one of the two well-formed
//! tails; fields carrying a sign whose numeric value would be in range (`+1`, `-0`);
//! fields written with non-ASCII digits.

use crate::sgr::{fx, Col};

#[derive(Clone, Copy, Debug, PartialEq, Eq, Hash)]
pub struct LsStyle {
    pub fg: Col,
    pub bg: Col,
    pub ul: Col,
    pub effects: u16,
}

impl Default for LsStyle {
    fn default() -> Self {
        LsStyle { fg: Col::Default, bg: Col::Default, ul: Col::Default, effects: 0 }
    }
}

#[derive(Clone, Debug, PartialEq, Eq, Hash)]
pub enum Expect {
    /// "", "0", "00"
    NoStyle,
    /// some field is not a number in 0..=255
    Reject,
    /// a well-formed list: this style
    Style(LsStyle),
    /// the statement does not define the result (reason); only "no panic" applies
    Unspecified(&'static str),
}

#[derive(Clone, Copy, Debug, PartialEq, Eq)]
pub enum Field {
    Num(u8),
    Bad,
    Unspecified(&'static str),
}

/// One field of the list: ASCII decimal digits, value <= 255 (any number of leading zeros).
pub fn field(f: &str) -> Field {
    let b = f.as_bytes();
    if b.is_empty() {
        return Field::Bad;
    }
    if f.chars().any(|c| !c.is_ascii() && c.is_numeric()) && f.chars().all(|c| c.is_numeric() || c == '+' || c == '-') {
        return Field::Unspecified("non-ASCII digits");
    }
    let (sign, digits) = match b[0] {
        b'+' => (Some('+'), &b[1..]),
        b'-' => (Some('-'), &b[1..]),
        _ => (None, b),
    };
    if digits.is_empty() || !digits.iter().all(|c| c.is_ascii_digit()) {
        return Field::Bad;
    }
    let mut v: u32 = 0;
    for c in digits {
        v = (v * 10 + (c - b'0') as u32).min(100_000);
    }
    match sign {
        None => {
            if v <= 255 {
                Field::Num(v as u8)
            } else {
                Field::Bad
            }
        }
        Some('+') => {
            if v <= 255 {
                Field::Unspecified("explicit '+' sign on an in-range number")
            } else {
                Field::Bad
            }
        }
        _ => {
            if v == 0 {
                Field::Unspecified("'-0': signed spelling of an in-range number")
            } else {
                Field::Bad
            }
        }
    }
}

/// The fold itself.  `None` = an extended-colour introducer without a well-formed tail.
pub fn fold(codes: &[u8]) -> Option<LsStyle> {
    let mut s = LsStyle::default();
    let mut i = 0;
    while i < codes.len() {
        let c = codes[i];
        i += 1;
        match c {
            0 => s = LsStyle::default(),
            1 => s.effects |= fx::BOLD,
            2 => s.effects |= fx::DIMMED,
            3 => s.effects |= fx::ITALIC,
            4 => s.effects |= fx::UNDERLINE,
            5 | 6 => s.effects |= fx::BLINK,
            7 => s.effects |= fx::INVERT,
            8 => s.effects |= fx::HIDDEN,
            9 => s.effects |= fx::STRIKETHROUGH,
            22 => s.effects &= !(fx::BOLD | fx::DIMMED),
            23 => s.effects &= !fx::ITALIC,
            24 => s.effects &= !fx::UNDERLINE,
            25 => s.effects &= !fx::BLINK,
            27 => s.effects &= !fx::INVERT,
            28 => s.effects &= !fx::HIDDEN,
            29 => s.effects &= !fx::STRIKETHROUGH,
            30..=37 => s.fg = Col::Ansi(c - 30),
            39 => s.fg = Col::Default,
            40..=47 => s.bg = Col::Ansi(c - 40),
            49 => s.bg = Col::Default,
            59 => s.ul = Col::Default,
            90..=97 => s.fg = Col::Ansi(c - 90 + 8),
            100..=107 => s.bg = Col::Ansi(c - 100 + 8),
            38 | 48 | 58 => {
                let col = match codes.get(i) {
                    Some(5) if i + 1 < codes.len() => {
                        let n = codes[i + 1];
                        i += 2;
                        Col::Idx(n)
                    }
                    Some(2) if i + 3 < codes.len() => {
                        let (r, g, b) = (codes[i + 1], codes[i + 2], codes[i + 3]);
                        i += 4;
                        Col::Rgb(r, g, b)
                    }
                    _ => return None,
                };
                match c {
                    38 => s.fg = col,
                    48 => s.bg = col,
                    _ => s.ul = col,
                }
            }
            _ => {}
        }
    }
    Some(s)
}

pub fn parse(value: &str) -> Expect {
    if value.is_empty() || value == "0" || value == "00" {
        return Expect::NoStyle;
    }
    let mut codes = vec![];
    let mut unspecified = None;
    for f in value.split(';') {
        match field(f) {
            Field::Num(n) => codes.push(n),
            // a definitely bad field decides, whatever else is in the list
            Field::Bad => return Expect::Reject,
            Field::Unspecified(why) => unspecified = Some(why),
        }
    }
    if let Some(why) = unspecified {
        return Expect::Unspecified(why);
    }
    match fold(&codes) {
        Some(s) => Expect::Style(s),
        None => Expect::Unspecified("38/48/58 not followed by ';5;n' or ';2;r;g;b'"),
    }
}

#[cfg(test)]
mod tests {
    use super::*;
    #[test]
    fn basics() {
        assert_eq!(parse(""), Expect::NoStyle);
        assert_eq!(parse("00"), Expect::NoStyle);
        assert_eq!(parse("1;"), Expect::Reject);
        assert_eq!(parse("256"), Expect::Reject);
        assert_eq!(parse("+1;x"), Expect::Reject);
        assert!(matches!(parse("+1"), Expect::Unspecified(_)));
        assert!(matches!(parse("38;5"), Expect::Unspecified(_)));
        assert_eq!(
            parse("01;38;5;38;22;48;2;1;2;3;4"),
            Expect::Style(LsStyle { fg: Col::Idx(38), bg: Col::Rgb(1, 2, 3), ul: Col::Default, effects: fx::UNDERLINE })
        );
        assert_eq!(parse("31;000"), Expect::Style(LsStyle::default()));
    }
}
