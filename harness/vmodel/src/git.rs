//! M-GIT: reference reading of git's colour-configuration syntax, restricted
//! to what property C11 states (git-config(1), "color" value syntax):
//!
//!   value  := words separated by whitespace (leading/trailing allowed, may be empty)
//!   colour := black|red|green|yellow|blue|magenta|cyan|white   (palette 0..=7)
//!           | normal | -1                                      (no colour, but takes a slot)
//!           | decimal 0..=255                                  (256-colour index)
//!           | '#' h h h | '#' h h h h h h   (h = ASCII hexadecimal digit, nothing else)
//!   attr   := ['no' ['-']] (bold|dim|ul|blink|reverse|italic|strike)
//!   all keywords in any (ASCII) letter case.
//!
//! Denotation: first colour = foreground, second = background; attributes are
//! applied left to right (the later of `x` / `nox` wins).  A third colour is an
//! "extra colour" error naming that word; every other word is an "unknown
//! word" error naming that word.
//!
//! Three-valued (`Unspecified`) where the statement is silent: a `+` sign or a
//! negative zero / leading zeros on a decimal number, characters that only match
//! through Unicode case folding or are non-ASCII digits, and separators that
//! are whitespace for Unicode but not for C/ASCII (and VT, where the two ASCII
//! definitions differ).  Nothing in here depends on the code under test.

use crate::sgr::fx;

#[derive(Clone, Copy, Debug, PartialEq, Eq, Hash, PartialOrd, Ord)]
pub enum GitColor {
    /// one of the eight names: palette index 0..=7
    Named(u8),
    /// decimal number
    Idx(u8),
    /// `#rrggbb`
    Rgb(u8, u8, u8),
    /// `#rgb`: the three digit values (0..=15).  git >= 2.45 reads `#f1b` as
    /// `#ff11bb`; the statement does not say how the short form expands.
    Rgb12(u8, u8, u8),
}

#[derive(Clone, Copy, Debug, PartialEq, Eq, Hash)]
pub enum Word {
    Attr { bit: u16, on: bool },
    /// `None` = normal / -1
    Color(Option<GitColor>),
    Unknown,
    Unspecified(&'static str),
}

#[derive(Clone, Copy, Debug, PartialEq, Eq, Hash, Default)]
pub struct GitStyle {
    pub fg: Option<GitColor>,
    pub bg: Option<GitColor>,
    /// anstyle effect bits (vmodel::sgr::fx)
    pub effects: u16,
}

#[derive(Clone, Copy, Debug, PartialEq, Eq, Hash, PartialOrd, Ord)]
pub enum GitErr {
    ExtraColor,
    UnknownWord,
}

#[derive(Clone, Debug, PartialEq, Eq, Hash)]
pub enum Expect {
    Style(GitStyle),
    /// the value must be rejected; the error must be one of these (variant, word):
    /// one entry per offending word, in input order (the statement does not say
    /// which offending word is reported when there are several)
    Errors(Vec<(GitErr, String)>),
    Unspecified(&'static str),
}

pub const NAMES: [&str; 8] = ["black", "red", "green", "yellow", "blue", "magenta", "cyan", "white"];
pub const ATTRS: [(&str, u16); 7] = [
    ("bold", fx::BOLD),
    ("dim", fx::DIMMED),
    ("ul", fx::UNDERLINE),
    ("blink", fx::BLINK),
    ("reverse", fx::INVERT),
    ("italic", fx::ITALIC),
    ("strike", fx::STRIKETHROUGH),
];

fn hexval(c: u8) -> Option<u8> {
    match c {
        b'0'..=b'9' => Some(c - b'0'),
        b'a'..=b'f' => Some(c - b'a' + 10),
        b'A'..=b'F' => Some(c - b'A' + 10),
        _ => None,
    }
}

/// Separator classes used by the model.
/// "separated by any whitespace": the Unicode White_Space characters (listed explicitly).
pub fn is_separator(c: char) -> bool {
    matches!(
        c,
        '\t' | '\n' | '\x0b' | '\x0c' | '\r' | ' ' | '\u{85}' | '\u{a0}' | '\u{1680}' | '\u{2000}'..='\u{200a}' | '\u{2028}' | '\u{2029}' | '\u{202f}' | '\u{205f}' | '\u{3000}'
    )
}
/// (formerly: whitespace for some definitions only was left open; the statement says "any whitespace")
pub fn is_disputed_separator(_c: char) -> bool {
    false
}

pub fn classify(word: &str) -> Word {
    if !word.is_ascii() {
        if word.starts_with('#') {
            // "hexadecimal digits only": a non-ASCII character is never one
            return Word::Unknown;
        }
        // A keyword can only be matched by a non-ASCII word through Unicode case
        // folding (U+212A KELVIN SIGN -> k, U+0130 -> i + U+0307), and a number only
        // through non-ASCII digits: not covered by the statement.
        for c in word.chars().filter(|c| !c.is_ascii()) {
            if c.to_lowercase().any(|l| l.is_ascii()) || c.to_uppercase().any(|u| u.is_ascii()) {
                return Word::Unspecified("character that folds to ASCII only under Unicode case mapping");
            }
            if c.is_numeric() {
                return Word::Unspecified("non-ASCII digit");
            }
        }
        return Word::Unknown;
    }
    let w = word.to_ascii_lowercase();
    if let Some(i) = NAMES.iter().position(|n| *n == w) {
        return Word::Color(Some(GitColor::Named(i as u8)));
    }
    if w == "normal" || w == "-1" {
        return Word::Color(None);
    }
    let (on, rest) = match w.strip_prefix("no") {
        Some(r) => (false, r.strip_prefix('-').unwrap_or(r)),
        None => (true, w.as_str()),
    };
    if let Some((_, bit)) = ATTRS.iter().find(|(a, _)| *a == rest) {
        return Word::Attr { bit: *bit, on };
    }
    if let Some(hex) = w.strip_prefix('#') {
        let d: Option<Vec<u8>> = hex.bytes().map(hexval).collect();
        return match d.as_deref() {
            Some([r, g, b]) => Word::Color(Some(GitColor::Rgb12(*r, *g, *b))),
            Some([r1, r0, g1, g0, b1, b0]) => Word::Color(Some(GitColor::Rgb(r1 * 16 + r0, g1 * 16 + g0, b1 * 16 + b0))),
            _ => Word::Unknown,
        };
    }
    // decimal numbers
    let b = w.as_bytes();
    let (sign, digits) = match b.first() {
        Some(b'+') => (Some(b'+'), &b[1..]),
        Some(b'-') => (Some(b'-'), &b[1..]),
        _ => (None, b),
    };
    if !digits.is_empty() && digits.iter().all(|c| c.is_ascii_digit()) {
        let mut v: u32 = 0;
        for c in digits {
            v = (v * 10 + (c - b'0') as u32).min(100_000);
        }
        let canonical = digits.len() == 1 || digits[0] != b'0';
        return match sign {
            None if v > 255 => Word::Unknown,
            None if canonical => Word::Color(Some(GitColor::Idx(v as u8))),
            None => Word::Unspecified("leading zeros on a decimal colour number"),
            Some(b'+') if v <= 255 => Word::Unspecified("'+' sign on a decimal colour number"),
            Some(b'+') => Word::Unknown,
            // "-1" itself was handled above
            _ if v <= 1 => Word::Unspecified("signed zero / zero-padded -1"),
            _ => Word::Unknown,
        };
    }
    Word::Unknown
}

/// Split into words; `Err` if a disputed separator occurs.
pub fn words(s: &str) -> Result<Vec<&str>, &'static str> {
    if s.chars().any(is_disputed_separator) {
        return Err("separator that is whitespace only under some definitions (VT, NEL, NBSP, Unicode spaces)");
    }
    Ok(s.split(is_separator).filter(|w| !w.is_empty()).collect())
}

pub fn parse(s: &str) -> Expect {
    let ws = match words(s) {
        Ok(w) => w,
        Err(why) => return Expect::Unspecified(why),
    };
    let mut st = GitStyle::default();
    let mut ncol = 0;
    let mut errs = vec![];
    let mut unspecified = None;
    for w in ws {
        match classify(w) {
            Word::Attr { bit, on } => {
                if on {
                    st.effects |= bit
                } else {
                    st.effects &= !bit
                }
            }
            Word::Color(c) => {
                match ncol {
                    0 => st.fg = c,
                    1 => st.bg = c,
                    _ => errs.push((GitErr::ExtraColor, w.to_string())),
                }
                ncol += 1;
            }
            Word::Unknown => errs.push((GitErr::UnknownWord, w.to_string())),
            Word::Unspecified(why) => unspecified = Some(why),
        }
    }
    if let Some(why) = unspecified {
        // could be a colour (moves the slots), an error, or anything: nothing to compare
        return Expect::Unspecified(why);
    }
    if errs.is_empty() {
        Expect::Style(st)
    } else {
        Expect::Errors(errs)
    }
}

/// The harness's own printer: one canonical spelling per colour.
pub fn print_color(c: Option<GitColor>) -> String {
    match c {
        None => "normal".to_string(),
        Some(GitColor::Named(i)) => NAMES[i as usize].to_string(),
        Some(GitColor::Idx(n)) => n.to_string(),
        Some(GitColor::Rgb(r, g, b)) => format!("#{r:02x}{g:02x}{b:02x}"),
        Some(GitColor::Rgb12(r, g, b)) => format!("#{r:x}{g:x}{b:x}"),
    }
}

/// Print a style in git syntax.  `variant` selects between equivalent layouts:
/// bit 0: attributes before the colours; bit 1: `-1` instead of `normal`;
/// bit 2: upper case; bit 3: each attribute preceded by its `no-` form.
pub fn print(st: &GitStyle, variant: u8) -> String {
    let mut cols = vec![];
    if st.fg.is_some() || st.bg.is_some() {
        cols.push(print_color(st.fg));
    }
    if st.bg.is_some() {
        cols.push(print_color(st.bg));
    }
    if variant & 2 != 0 {
        for c in &mut cols {
            if c == "normal" {
                *c = "-1".to_string();
            }
        }
    }
    let mut attrs = vec![];
    for (name, bit) in ATTRS {
        if st.effects & bit != 0 {
            if variant & 8 != 0 {
                attrs.push(format!("no-{name}"));
            }
            attrs.push(name.to_string());
        }
    }
    let all: Vec<String> = if variant & 1 != 0 { attrs.into_iter().chain(cols).collect() } else { cols.into_iter().chain(attrs).collect() };
    let s = all.join(" ");
    if variant & 4 != 0 {
        s.to_ascii_uppercase()
    } else {
        s
    }
}

#[cfg(test)]
mod tests {
    use super::*;
    #[test]
    fn basics() {
        assert_eq!(classify("NoBold"), Word::Attr { bit: fx::BOLD, on: false });
        assert_eq!(classify("no-UL"), Word::Attr { bit: fx::UNDERLINE, on: false });
        assert_eq!(classify("no--ul"), Word::Unknown);
        assert_eq!(classify("nono-ul"), Word::Unknown);
        assert_eq!(classify("#+f+f+f"), Word::Unknown);
        assert_eq!(classify("#a\u{e9}"), Word::Unknown);
        assert_eq!(classify("#AbC"), Word::Color(Some(GitColor::Rgb12(10, 11, 12))));
        assert_eq!(classify("256"), Word::Unknown);
        assert_eq!(classify("-2"), Word::Unknown);
        assert_eq!(classify("-1"), Word::Color(None));
        assert!(matches!(classify("+1"), Word::Unspecified(_)));
        assert!(matches!(classify("007"), Word::Unspecified(_)));
        assert!(matches!(classify("blin\u{212a}"), Word::Unspecified(_)));
        assert_eq!(
            parse(" red\tblue bold nobold\n"),
            Expect::Style(GitStyle { fg: Some(GitColor::Named(1)), bg: Some(GitColor::Named(4)), effects: 0 })
        );
        assert_eq!(
            parse("red foo blue green"),
            Expect::Errors(vec![(GitErr::UnknownWord, "foo".into()), (GitErr::ExtraColor, "green".into())])
        );
        let st = GitStyle { fg: None, bg: Some(GitColor::Rgb(1, 2, 255)), effects: fx::BOLD | fx::STRIKETHROUGH };
        for v in 0..16 {
            assert_eq!(parse(&print(&st, v)), Expect::Style(st), "{}", print(&st, v));
        }
    }
}
