//! E1: explicit-state product explorer.
//!
//! A state is a product (real implementation object, reference-model state).
//! A transition applies one token of a fixed alphabet to a clone of the state;
//! `step` compares implementation and model and returns Err on disagreement.
//! Deduplication is exact: states are bucketed by `key` and compared with Eq.
//! Level-synchronous BFS, frontier expanded in parallel (rayon), successors
//! merged in deterministic order, so the first counterexample is a shortest
//! one and the run is reproducible.

use rayon::prelude::*;
use std::collections::HashMap;
use std::time::Instant;

pub trait System: Sync {
    type State: Clone + Eq + Send + Sync;
    /// name used in replay files and known-finding keys
    fn name(&self) -> String;
    /// number of tokens in the alphabet
    fn alphabet_len(&self) -> usize;
    /// human readable token (hex for bytes)
    fn token_label(&self, t: usize) -> String;
    /// initial states
    fn init(&self) -> Vec<Self::State>;
    /// bucket hash of a state
    fn key(&self, s: &Self::State) -> u64;
    /// is token `t` enabled in `s` (model guard)
    fn enabled(&self, _s: &Self::State, _t: usize) -> bool {
        true
    }
    /// apply token; Ok((successor, observation digest)) or Err(violation text)
    fn step(&self, s: &Self::State, t: usize) -> Result<(Self::State, u64), String>;
}

#[derive(Clone, Debug)]
pub struct Violation {
    pub system: String,
    /// index of the initial state, then token indices
    pub init: usize,
    pub trace: Vec<usize>,
    pub labels: Vec<String>,
    pub message: String,
}

#[derive(Clone, Debug, Default)]
pub struct Limits {
    pub max_depth: usize,
    pub max_states: usize,
    pub max_wall_s: f64,
    pub max_violations: usize,
}

impl Limits {
    pub fn depth(d: usize) -> Self {
        Limits { max_depth: d, max_states: 40_000_000, max_wall_s: 3600.0, max_violations: 200 }
    }
}

#[derive(Clone, Debug, Default)]
pub struct Report {
    pub system: String,
    pub states: usize,
    pub transitions: u64,
    pub depth_completed: usize,
    /// states discovered at the last level and not expanded (0 = fixpoint)
    pub frontier_at_bound: usize,
    pub level_sizes: Vec<usize>,
    pub distinct_observations: usize,
    pub pruned_violating: u64,
    pub violations: Vec<Violation>,
    pub capped: Option<String>,
    pub wall_s: f64,
    pub sample_traces: Vec<Vec<String>>,
}

impl Report {
    pub fn fixpoint(&self) -> bool {
        self.frontier_at_bound == 0 && self.capped.is_none()
    }
}

struct Node<S> {
    state: S,
    parent: u32,
    token: u32,
    init: u32,
}

fn trace_of<S>(nodes: &[Node<S>], mut idx: usize) -> (usize, Vec<usize>) {
    let mut t = vec![];
    while nodes[idx].parent != u32::MAX {
        t.push(nodes[idx].token as usize);
        idx = nodes[idx].parent as usize;
    }
    t.reverse();
    (nodes[idx].init as usize, t)
}

/// Replay a trace from scratch; returns Err(message) at the first violating step.
pub fn replay<Y: System>(sys: &Y, init: usize, trace: &[usize]) -> Result<Y::State, (usize, String)> {
    let mut s = sys.init().into_iter().nth(init).expect("init index");
    for (i, &t) in trace.iter().enumerate() {
        match crate::util::guard(|| sys.step(&s, t)).and_then(|r| r) {
            Ok((n, _)) => s = n,
            Err(m) => return Err((i, m)),
        }
    }
    Ok(s)
}

pub fn explore<Y: System>(sys: &Y, lim: &Limits) -> Report {
    explore_with(sys, lim, |_s, _depth| {})
}

/// `visit` is called once for every distinct state (sequentially, in discovery order).
pub fn explore_with<Y: System>(sys: &Y, lim: &Limits, mut visit: impl FnMut(&Y::State, usize)) -> Report {
    let t0 = Instant::now();
    let mut rep = Report { system: sys.name(), ..Default::default() };
    let mut nodes: Vec<Node<Y::State>> = vec![];
    let mut index: HashMap<u64, Vec<u32>> = HashMap::new();
    let mut obs: std::collections::HashSet<u64> = Default::default();
    let nt = sys.alphabet_len();

    let mut frontier: Vec<u32> = vec![];
    for (i, s) in sys.init().into_iter().enumerate() {
        let k = sys.key(&s);
        let bucket = index.entry(k).or_default();
        if bucket.iter().any(|&j| nodes[j as usize].state == s) {
            continue;
        }
        bucket.push(nodes.len() as u32);
        frontier.push(nodes.len() as u32);
        visit(&s, 0);
        nodes.push(Node { state: s, parent: u32::MAX, token: 0, init: i as u32 });
    }
    rep.level_sizes.push(frontier.len());

    let mut depth = 0;
    'levels: while !frontier.is_empty() && depth < lim.max_depth {
        let mut next: Vec<u32> = vec![];
        for batch in frontier.chunks(1 << 14) {
            // expand in parallel
            let results: Vec<(u32, u32, Result<(Y::State, u64, u64), String>)> = batch
                .par_iter()
                .flat_map_iter(|&pi| {
                    let s = &nodes[pi as usize].state;
                    (0..nt).filter(move |&t| sys.enabled(s, t)).map(move |t| {
                        let r = crate::util::guard(|| sys.step(s, t)).and_then(|r| r).map(|(n, o)| {
                            let k = sys.key(&n);
                            (n, o, k)
                        });
                        (pi, t as u32, r)
                    })
                })
                .collect();
            // merge sequentially, deterministic order
            for (pi, t, r) in results {
                rep.transitions += 1;
                match r {
                    Ok((n, o, k)) => {
                        obs.insert(o);
                        let bucket = index.entry(k).or_default();
                        if bucket.iter().any(|&j| nodes[j as usize].state == n) {
                            continue;
                        }
                        let id = nodes.len() as u32;
                        bucket.push(id);
                        next.push(id);
                        visit(&n, depth + 1);
                        let init = nodes[pi as usize].init;
                        nodes.push(Node { state: n, parent: pi, token: t, init });
                    }
                    Err(m) => {
                        rep.pruned_violating += 1;
                        if rep.violations.len() < lim.max_violations {
                            let (init, mut trace) = trace_of(&nodes, pi as usize);
                            trace.push(t as usize);
                            // re-execute twice from scratch; must reproduce identically
                            let r1 = replay(sys, init, &trace);
                            let r2 = replay(sys, init, &trace);
                            let ok = matches!((&r1, &r2), (Err((i1, m1)), Err((i2, m2)))
                                if i1 == i2 && m1 == m2 && *i1 == trace.len() - 1 && *m1 == m);
                            if !ok {
                                eprintln!(
                                    "MACHINERY ERROR: violation did not reproduce identically on replay: system={} trace={:?}",
                                    sys.name(),
                                    trace
                                );
                                std::process::exit(2);
                            }
                            let labels = trace.iter().map(|&t| sys.token_label(t)).collect();
                            rep.violations.push(Violation { system: sys.name(), init, trace, labels, message: m });
                        }
                    }
                }
            }
            if nodes.len() > lim.max_states {
                rep.capped = Some(format!("state cap {} hit at depth {}", lim.max_states, depth + 1));
                rep.frontier_at_bound = next.len();
                break 'levels;
            }
            if t0.elapsed().as_secs_f64() > lim.max_wall_s {
                rep.capped = Some(format!("wall cap {}s hit at depth {}", lim.max_wall_s, depth + 1));
                rep.frontier_at_bound = next.len();
                break 'levels;
            }
        }
        depth += 1;
        rep.depth_completed = depth;
        rep.level_sizes.push(next.len());
        frontier = next;
        rep.frontier_at_bound = frontier.len();
    }
    if frontier.is_empty() {
        rep.frontier_at_bound = 0;
    }
    rep.states = nodes.len();
    rep.distinct_observations = obs.len();
    // a few sample traces: the last few discovered states
    let n = nodes.len();
    for idx in [n / 3, 2 * n / 3, n.saturating_sub(1)] {
        if idx < n {
            let (_, tr) = trace_of(&nodes, idx);
            rep.sample_traces.push(tr.iter().map(|&t| sys.token_label(t)).collect());
        }
    }
    rep.wall_s = t0.elapsed().as_secs_f64();
    rep
}

/// Collect every distinct reachable state (used to seed second-phase sweeps).
pub fn reachable_states<Y: System>(sys: &Y, lim: &Limits) -> (Vec<Y::State>, Report) {
    let mut v = vec![];
    let rep = explore_with(sys, lim, |s, _| v.push(s.clone()));
    (v, rep)
}
