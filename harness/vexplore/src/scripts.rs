//! E2: deviation-bounded enumeration of environment scripts (CHESS-style).
//!
//! The system under test asks the script for an answer at every decision
//! point (`choose(menu_len)`); answer 0 is the default ("accept everything"),
//! any other answer is a deviation.  `enumerate` runs the closure for every
//! script with at most `k` deviations: it replays a forced prefix, answers 0
//! afterwards, then branches on every later decision point.

#[derive(Clone, Debug, Default)]
pub struct Script {
    forced: Vec<usize>,
    /// (menu length, choice taken) for every decision point of this run
    pub decisions: Vec<(usize, usize)>,
}

impl Script {
    pub fn new(forced: Vec<usize>) -> Self {
        Script { forced, decisions: vec![] }
    }
    pub fn choose(&mut self, menu_len: usize) -> usize {
        assert!(menu_len >= 1);
        let i = self.decisions.len();
        let c = if i < self.forced.len() { self.forced[i] } else { 0 };
        assert!(c < menu_len, "replay divergence: forced choice {c} out of range {menu_len} at point {i}");
        self.decisions.push((menu_len, c));
        c
    }
    /// Pretend the forced prefix was consumed (used when the run aborted by a panic).
    pub fn mark_aborted(&mut self) {
        while self.decisions.len() < self.forced.len() {
            let c = self.forced[self.decisions.len()];
            self.decisions.push((c + 1, c));
        }
    }
    pub fn choices(&self) -> Vec<usize> {
        self.decisions.iter().map(|d| d.1).collect()
    }
    pub fn deviations(&self) -> usize {
        self.decisions.iter().filter(|d| d.1 != 0).count()
    }
}

#[derive(Clone, Debug, Default)]
pub struct ScriptStats {
    pub runs: u64,
    pub max_points: usize,
}

/// Run `run` for every script with <= k deviations.  `run` returns false to stop early.
pub fn enumerate(k: usize, mut run: impl FnMut(&mut Script) -> bool) -> ScriptStats {
    let mut stats = ScriptStats::default();
    let mut stack: Vec<Vec<usize>> = vec![vec![]];
    while let Some(prefix) = stack.pop() {
        let plen = prefix.len();
        let mut s = Script::new(prefix);
        let cont = run(&mut s);
        stats.runs += 1;
        assert!(s.decisions.len() >= plen, "replay divergence: run consumed fewer decision points than its forced prefix");
        stats.max_points = stats.max_points.max(s.decisions.len());
        if !cont {
            break;
        }
        let choices = s.choices();
        let mut dev = choices[..plen].iter().filter(|&&c| c != 0).count();
        // branch on later points (push in reverse so that exploration order is simplest-first)
        let mut new = vec![];
        for i in plen..s.decisions.len() {
            debug_assert_eq!(choices[i], 0);
            if dev + 1 <= k {
                for alt in 1..s.decisions[i].0 {
                    let mut p = choices[..i].to_vec();
                    p.push(alt);
                    new.push(p);
                }
            }
            if choices[i] != 0 {
                dev += 1;
            }
        }
        new.reverse();
        stack.extend(new);
    }
    stats
}

#[cfg(test)]
mod tests {
    use super::*;
    #[test]
    fn counts() {
        // 3 decision points with 3 answers each, k = 3  -> 27 scripts
        let st = enumerate(3, |s| {
            for _ in 0..3 {
                s.choose(3);
            }
            true
        });
        assert_eq!(st.runs, 27);
        // k = 1 -> 1 + 3*2 = 7
        let st = enumerate(1, |s| {
            for _ in 0..3 {
                s.choose(3);
            }
            true
        });
        assert_eq!(st.runs, 7);
    }
}
