pub mod bfs;
pub mod evidence;
pub mod scripts;
pub mod util;
