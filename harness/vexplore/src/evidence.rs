//! Check driver: argument handling, known-findings, replay files, evidence files, exit codes.
//!
//! exit 0 = property held on everything explored (possibly KNOWN-FINDING lines)
//! exit 1 = a violation that /verif/known_findings.jsonl does not list
//! exit 2 = machinery failure (never a verdict)

use serde_json::{json, Map, Value};
use std::path::PathBuf;
use std::time::Instant;

pub const VERIF_ROOT: &str = "/verif";

#[derive(Clone, Copy, Debug, PartialEq, Eq)]
pub enum Tier {
    Quick,
    Thorough,
}

pub struct Ctx {
    pub property: String,
    pub tier: Tier,
    pub seed: u64,
    pub t0: Instant,
    /// extra free-form arguments (`--opt key=value`)
    pub opts: Vec<(String, String)>,
}

impl Ctx {
    pub fn quick(&self) -> bool {
        self.tier == Tier::Quick
    }
    pub fn opt(&self, k: &str) -> Option<&str> {
        self.opts.iter().find(|(a, _)| a == k).map(|(_, v)| v.as_str())
    }
    pub fn elapsed(&self) -> f64 {
        self.t0.elapsed().as_secs_f64()
    }
}

#[derive(Clone, Debug)]
pub struct Finding {
    /// which system / entry point
    pub system: String,
    /// which oracle clause failed (short, stable text)
    pub clause: String,
    /// the minimal failing case, as stable human readable tokens
    pub case: Vec<String>,
    /// details (expected / actual)
    pub message: String,
    /// machine readable replay payload understood by the check's replay function
    pub replay: Value,
}

impl Finding {
    pub fn key(&self) -> String {
        format!("{}|{}|{}", self.system, self.clause, self.case.join(" "))
    }
}

#[derive(Default)]
pub struct Outcome {
    pub coverage: Map<String, Value>,
    pub findings: Vec<Finding>,
    pub assumptions: Vec<String>,
    /// findings beyond the recorded ones (e.g. pruned transitions not individually kept)
    pub extra_violation_count: u64,
}

impl Outcome {
    pub fn set(&mut self, k: &str, v: Value) {
        self.coverage.insert(k.to_string(), v);
    }
    pub fn add_u64(&mut self, k: &str, v: u64) {
        let cur = self.coverage.get(k).and_then(|x| x.as_u64()).unwrap_or(0);
        self.coverage.insert(k.to_string(), json!(cur + v));
    }
    pub fn push_sample(&mut self, v: Value) {
        let e = self.coverage.entry("samples".to_string()).or_insert_with(|| json!([]));
        if let Some(a) = e.as_array_mut() {
            if a.len() < 12 {
                a.push(v);
            }
        }
    }
    pub fn push_part(&mut self, v: Value) {
        let e = self.coverage.entry("parts".to_string()).or_insert_with(|| json!([]));
        e.as_array_mut().unwrap().push(v);
    }
    pub fn assume(&mut self, s: &str) {
        self.assumptions.push(s.to_string());
    }
    /// fold a BFS report into the coverage map
    pub fn add_bfs(&mut self, rep: &crate::bfs::Report) {
        self.add_u64("states", rep.states as u64);
        self.add_u64("transitions", rep.transitions);
        self.add_u64("traces_validated_against_impl", rep.transitions);
        self.push_part(json!({
            "system": rep.system, "states": rep.states, "transitions": rep.transitions,
            "depth_completed": rep.depth_completed, "frontier_at_bound": rep.frontier_at_bound,
            "fixpoint": rep.fixpoint(), "level_sizes": rep.level_sizes,
            "distinct_observations": rep.distinct_observations,
            "pruned_violating_transitions": rep.pruned_violating,
            "capped": rep.capped, "wall_s": (rep.wall_s * 1000.0).round() / 1000.0,
        }));
        for t in &rep.sample_traces {
            if !t.is_empty() {
                self.push_sample(json!({"system": rep.system, "trace": t}));
            }
        }
        if rep.pruned_violating as usize > rep.violations.len() {
            self.extra_violation_count += rep.pruned_violating - rep.violations.len() as u64;
        }
    }
}

#[derive(Clone, Debug)]
struct Known {
    status: String,
    property: String,
    key: String,
    what: String,
}

fn load_known() -> Vec<Known> {
    // /verif/known_findings.txt, one entry per line:
    //   known: property=<id> key=<exact finding key> || <what fails>
    //   fixed: property=<id> <commit> <what failed>          (suppresses nothing)
    let p = format!("{VERIF_ROOT}/known_findings.txt");
    let Ok(text) = std::fs::read_to_string(&p) else { return vec![] };
    let mut out = vec![];
    for line in text.lines() {
        let line = line.trim();
        if line.is_empty() || line.starts_with('#') || line.starts_with("fixed:") {
            continue;
        }
        let parsed = (|| {
            let rest = line.strip_prefix("known: property=")?;
            let (prop, rest) = rest.split_once(" key=")?;
            let (key, what) = rest.split_once(" || ")?;
            Some(Known { status: "known".into(), property: prop.to_string(), key: key.to_string(), what: what.to_string() })
        })();
        match parsed {
            Some(k) => out.push(k),
            None => {
                eprintln!("MACHINERY ERROR: bad line in known_findings.txt: {line}");
                std::process::exit(2);
            }
        }
    }
    out
}

fn parse_args(property: &str) -> (Ctx, Option<PathBuf>) {
    let mut tier = match std::env::var("VERIF_TIER").as_deref() {
        Ok("thorough") => Tier::Thorough,
        _ => Tier::Quick,
    };
    let seed = std::env::var("VERIF_SEED").ok().and_then(|s| s.parse::<i64>().ok()).unwrap_or(0) as u64;
    let mut replay = None;
    let mut opts = vec![];
    let args: Vec<String> = std::env::args().skip(1).collect();
    let mut i = 0;
    while i < args.len() {
        match args[i].as_str() {
            "--tier" => {
                i += 1;
                tier = match args.get(i).map(|s| s.as_str()) {
                    Some("quick") => Tier::Quick,
                    Some("thorough") => Tier::Thorough,
                    o => {
                        eprintln!("bad --tier {o:?}");
                        std::process::exit(2);
                    }
                };
            }
            "--replay" => {
                i += 1;
                replay = args.get(i).map(PathBuf::from);
            }
            "--opt" => {
                i += 1;
                if let Some((k, v)) = args.get(i).and_then(|s| s.split_once('=')) {
                    opts.push((k.to_string(), v.to_string()));
                }
            }
            o => {
                eprintln!("unknown argument {o}");
                std::process::exit(2);
            }
        }
        i += 1;
    }
    (Ctx { property: property.to_string(), tier, seed, t0: Instant::now(), opts }, replay)
}

/// Entry point of every check binary.
pub fn run_check(
    property: &str,
    level: &str,
    main: impl FnOnce(&Ctx) -> Outcome,
    replay: impl FnOnce(&Value) -> Result<(), String>,
) -> ! {
    let (ctx, replay_path) = parse_args(property);
    if let Some(p) = replay_path {
        let text = std::fs::read_to_string(&p).unwrap_or_else(|e| {
            eprintln!("cannot read replay file {}: {e}", p.display());
            std::process::exit(2);
        });
        let v: Value = serde_json::from_str(&text).unwrap_or_else(|e| {
            eprintln!("bad replay file: {e}");
            std::process::exit(2);
        });
        crate::util::install_quiet_panic_hook();
        match crate::util::guard(|| replay(&v["replay"])).and_then(|r| r) {
            Ok(()) => {
                println!("replay: property {} holds on this case (no violation)", property);
                std::process::exit(0);
            }
            Err(m) => {
                println!("replay: {m}");
                println!("VIOLATION property={} replay={}", property, p.display());
                std::process::exit(1);
            }
        }
    }

    crate::util::install_quiet_panic_hook();
    let outcome = match std::panic::catch_unwind(std::panic::AssertUnwindSafe(|| main(&ctx))) {
        Ok(o) => o,
        Err(_) => {
            println!("MACHINERY ERROR: the check itself panicked: {}", crate::util::last_panic());
            std::process::exit(2);
        }
    };
    let known = load_known();
    let mut unlisted = 0u64;
    let mut known_hits = vec![];
    let out_root = std::env::var("VERIF_OUT_DIR").unwrap_or_else(|_| VERIF_ROOT.to_string());
    let replay_dir = format!("{out_root}/replays");
    let _ = std::fs::create_dir_all(&replay_dir);
    let mut reported = std::collections::HashSet::new();
    for f in &outcome.findings {
        let key = f.key();
        if !reported.insert(key.clone()) {
            continue;
        }
        if let Some(k) = known.iter().find(|k| k.status == "known" && k.property == property && k.key == key) {
            println!("KNOWN-FINDING: property={} {} [{}]", property, k.what, key);
            known_hits.push(key);
            continue;
        }
        unlisted += 1;
        let h = crate::util::hash_of(&key);
        let path = format!("{replay_dir}/{property}-{h:016x}.json");
        let doc = json!({
            "property": property, "system": f.system, "clause": f.clause, "case": f.case,
            "message": f.message, "key": key, "replay": f.replay,
        });
        if let Err(e) = std::fs::write(&path, serde_json::to_string_pretty(&doc).unwrap()) {
            eprintln!("MACHINERY ERROR: cannot write replay file {path}: {e}");
            std::process::exit(2);
        }
        println!("violation: {} :: {} :: {} :: {}", f.system, f.clause, f.case.join(" "), f.message);
        println!("VIOLATION property={} replay={}", property, path);
    }
    if outcome.extra_violation_count > 0 && unlisted == 0 && !outcome.findings.is_empty() {
        // violating transitions beyond the recorded cap exist but every recorded one is listed
        println!(
            "note: {} further violating transitions were pruned without being recorded individually",
            outcome.extra_violation_count
        );
    }

    // evidence
    let mut coverage = outcome.coverage.clone();
    coverage.entry("exhaustive".to_string()).or_insert(json!(false));
    coverage.insert("known_findings_hit".into(), json!(known_hits));
    let ev = json!({
        "property_id": property,
        "tier": if ctx.tier == Tier::Quick { "quick" } else { "thorough" },
        "seed": ctx.seed,
        "level": level,
        "coverage": coverage,
        "assumptions": outcome.assumptions,
        "wall_s": (ctx.elapsed() * 1000.0).round() / 1000.0,
        "violations": unlisted,
    });
    let evdir = format!("{out_root}/evidence");
    let _ = std::fs::create_dir_all(&evdir);
    let evpath = format!("{evdir}/{property}.json");
    if let Err(e) = std::fs::write(&evpath, serde_json::to_string_pretty(&ev).unwrap() + "\n") {
        eprintln!("MACHINERY ERROR: cannot write evidence {evpath}: {e}");
        std::process::exit(2);
    }
    println!(
        "{} tier={} wall={:.1}s violations={} known-findings={} evidence={}",
        property,
        if ctx.tier == Tier::Quick { "quick" } else { "thorough" },
        ctx.elapsed(),
        unlisted,
        known_hits.len(),
        evpath
    );
    std::process::exit(if unlisted > 0 { 1 } else { 0 });
}

/// Convert BFS violations into findings.
pub fn bfs_findings(rep: &crate::bfs::Report, clause_of: impl Fn(&str) -> String) -> Vec<Finding> {
    rep.violations
        .iter()
        .map(|v| Finding {
            system: v.system.clone(),
            clause: clause_of(&v.message),
            case: std::iter::once(format!("init{}", v.init)).chain(v.labels.iter().cloned()).collect(),
            message: v.message.clone(),
            replay: json!({"kind": "bfs", "system": v.system, "init": v.init, "trace": v.trace, "labels": v.labels}),
        })
        .collect()
}
