//! Small helpers shared by the checks.
use std::hash::{Hash, Hasher};

pub fn hash_of<T: Hash + ?Sized>(t: &T) -> u64 {
    let mut h = std::collections::hash_map::DefaultHasher::new();
    t.hash(&mut h);
    h.finish()
}

pub fn hash_debug<T: std::fmt::Debug + ?Sized>(t: &T) -> u64 {
    hash_of(&format!("{t:?}"))
}

pub fn hex(bytes: &[u8]) -> String {
    let mut s = String::with_capacity(bytes.len() * 2);
    for b in bytes {
        s.push_str(&format!("{b:02x}"));
    }
    s
}

pub fn unhex(s: &str) -> Vec<u8> {
    (0..s.len() / 2).map(|i| u8::from_str_radix(&s[2 * i..2 * i + 2], 16).unwrap()).collect()
}

/// printable rendering of bytes for messages
pub fn show(bytes: &[u8]) -> String {
    let mut s = String::new();
    for &b in bytes {
        match b {
            0x1b => s.push_str("ESC"),
            0x20..=0x7e => s.push(b as char),
            _ => s.push_str(&format!("\\x{b:02x}")),
        }
    }
    s
}

/// All strings of length 0..=n over `alphabet` (as index vectors), shortest first.
pub fn strings_upto(alphabet: usize, n: usize) -> impl Iterator<Item = Vec<usize>> {
    (0..=n).flat_map(move |len| strings_of(alphabet, len))
}

pub fn strings_of(alphabet: usize, len: usize) -> impl Iterator<Item = Vec<usize>> {
    let total = (alphabet as u64).pow(len as u32);
    (0..total).map(move |mut i| {
        let mut v = vec![0usize; len];
        for k in (0..len).rev() {
            v[k] = (i % alphabet as u64) as usize;
            i /= alphabet as u64;
        }
        v
    })
}

/// The i-th string of exactly `len` symbols (same order as `strings_of`), without materialising the list.
pub fn string_at(alphabet: usize, len: usize, mut i: u64) -> Vec<usize> {
    let mut v = vec![0usize; len];
    for k in (0..len).rev() {
        v[k] = (i % alphabet as u64) as usize;
        i /= alphabet as u64;
    }
    v
}

/// Number of strings of <= n symbols.
pub fn count_upto(alphabet: usize, n: usize) -> u64 {
    (0..=n).map(|l| (alphabet as u64).pow(l as u32)).sum()
}

/// The i-th string of <= n symbols (same order as `strings_upto`: shortest first).
pub fn string_upto_at(alphabet: usize, n: usize, mut i: u64) -> Vec<usize> {
    for len in 0..=n {
        let c = (alphabet as u64).pow(len as u32);
        if i < c {
            return string_at(alphabet, len, i);
        }
        i -= c;
    }
    panic!("index beyond the number of strings of <= {n} symbols");
}

/// For each piece (a sub-slice of `input`) mark the input bytes it covers.
/// Err if a piece is not inside `input`, or pieces overlap / go backwards.
pub fn emitted_flags(input: &[u8], pieces: &[&[u8]]) -> Result<Vec<bool>, String> {
    let base = input.as_ptr() as usize;
    let mut flags = vec![false; input.len()];
    let mut last_end = 0usize;
    for p in pieces {
        if p.is_empty() {
            return Err("empty piece returned".into());
        }
        let start = (p.as_ptr() as usize).wrapping_sub(base);
        if (p.as_ptr() as usize) < base || start + p.len() > input.len() {
            return Err(format!("returned piece {:02x?} does not lie inside the input", p));
        }
        if start < last_end {
            return Err(format!("returned pieces overlap or are out of order at offset {start}"));
        }
        for f in &mut flags[start..start + p.len()] {
            *f = true;
        }
        last_end = start + p.len();
    }
    Ok(flags)
}

thread_local! {
    static LAST_PANIC: std::cell::RefCell<String> = std::cell::RefCell::new(String::new());
}

/// Install a panic hook that records the message (and location) instead of printing it.
pub fn install_quiet_panic_hook() {
    std::panic::set_hook(Box::new(|info| {
        let msg = if let Some(s) = info.payload().downcast_ref::<&str>() {
            s.to_string()
        } else if let Some(s) = info.payload().downcast_ref::<String>() {
            s.clone()
        } else {
            "<non-string panic payload>".to_string()
        };
        let loc = info.location().map(|l| format!(" at {}:{}", l.file(), l.line())).unwrap_or_default();
        LAST_PANIC.with(|p| *p.borrow_mut() = format!("{msg}{loc}"));
    }));
}

pub fn last_panic() -> String {
    LAST_PANIC.with(|p| p.borrow().clone())
}

/// Run code under test; a panic becomes Err("panic: ...").
pub fn guard<T>(f: impl FnOnce() -> T) -> Result<T, String> {
    match std::panic::catch_unwind(std::panic::AssertUnwindSafe(f)) {
        Ok(v) => Ok(v),
        Err(_) => Err(format!("panic: {}", last_panic())),
    }
}

/// Environment variables that colour-aware programs look at.
pub const COLOUR_ENV: [&str; 9] = ["NO_COLOR", "CLICOLOR", "CLICOLOR_FORCE", "TERM", "COLORTERM", "CI", "FORCE_COLOR", "TERM_PROGRAM", "LS_COLORS"];

/// For functions whose result may depend on nothing but their arguments: run `digest` with the colour-related
/// environment variables removed and under two hostile settings; all three results must be equal.
/// Call this before any worker thread exists (it changes the process environment and restores it afterwards).
pub fn env_independence<T: PartialEq + std::fmt::Debug>(digest: impl Fn() -> T) -> Result<(), String> {
    let saved: Vec<(&str, Option<std::ffi::OsString>)> = COLOUR_ENV.iter().map(|k| (*k, std::env::var_os(k))).collect();
    let set = |vals: &[(&str, &str)]| {
        for k in COLOUR_ENV {
            std::env::remove_var(k);
        }
        for (k, v) in vals {
            std::env::set_var(k, v);
        }
    };
    set(&[]);
    let base = guard(&digest);
    let mut result = Ok(());
    for hostile in [
        &[("NO_COLOR", "1"), ("CLICOLOR", "0"), ("TERM", "dumb"), ("CI", "true"), ("LS_COLORS", "di=01;34")][..],
        &[("CLICOLOR_FORCE", "1"), ("FORCE_COLOR", "3"), ("TERM", "xterm-256color"), ("COLORTERM", "truecolor"), ("TERM_PROGRAM", "vscode")][..],
    ] {
        set(hostile);
        let other = guard(&digest);
        if other != base {
            result = Err(format!("the result depends on the environment: with {hostile:?} set it is {other:?}, with the colour-related variables removed {base:?}"));
            break;
        }
    }
    for (k, v) in saved {
        match v {
            Some(v) => std::env::set_var(k, v),
            None => std::env::remove_var(k),
        }
    }
    result
}
