//! C18 - the legacy-console stream hands over each text run once with 16-colour fg/bg.
//!
//! The working tree's anstream/src/wincon.rs is compiled into this harness (vwincon lib).
//! E1: product BFS over {write_all, write, write!} x chunk tokens against a recording console
//!     and the VT500+SGR run model (colours capped to the 16 palette).
//! E2: console scripts (short counts, errors) with a bounded number of deviations.

use rayon::prelude::*;
use serde_json::json;
use std::cell::RefCell;
use std::io::{self, ErrorKind, Write};
use std::rc::Rc;
use std::sync::atomic::{AtomicU64, Ordering};
use vchecks::wincon_sys::{sgr_bfs_system, WinconSys};
use vexplore::bfs::{self, Limits, System};
use vexplore::evidence::*;
use vexplore::scripts::{self, Script};
use vexplore::util::*;
use vmodel::runs::RunModel;
use vmodel::sgr::{Col, Ul};
use vwincon::stream::AsLockedWrite;
use vwincon::WinconStream;

type Cap = Option<u8>; // index into the 16 palette

#[derive(Default, Debug)]
struct Shared {
    script: Script,
    /// per accepted byte: (fg, bg, byte)
    cells: Vec<(Cap, Cap, u8)>,
    calls: usize,
    errors: Vec<ErrorKind>,
    zero: bool,
    short: bool,
    scripted: bool,
    bad_byte: Option<u8>,
}

#[derive(Debug)]
struct Console(Rc<RefCell<Shared>>);

fn idx(c: Option<anstyle::AnsiColor>) -> Cap {
    c.map(|c| anstyle::Ansi256Color::from_ansi(c).0)
}

impl anstyle_wincon::WinconStream for Console {
    fn write_colored(&mut self, fg: Option<anstyle::AnsiColor>, bg: Option<anstyle::AnsiColor>, data: &[u8]) -> io::Result<usize> {
        let mut s = self.0.borrow_mut();
        s.calls += 1;
        if let Some(&b) = data.iter().find(|&&b| b < 0x20 && !matches!(b, 0x09 | 0x0a | 0x0c | 0x0d)) {
            s.bad_byte = Some(b);
        }
        let mut n = data.len();
        if s.scripted {
            // errors come as plain kinds and as raw OS error codes (6 = "invalid handle" on Windows, ENXIO here; 32 = EPIPE)
            let mut menu: Vec<Result<usize, Result<ErrorKind, i32>>> = vec![Ok(data.len())];
            for k in 0..=2usize {
                if k < data.len() {
                    menu.push(Ok(k));
                }
            }
            for k in [ErrorKind::Interrupted, ErrorKind::WouldBlock, ErrorKind::Other, ErrorKind::BrokenPipe] {
                menu.push(Err(Ok(k)));
            }
            for code in [6, 32] {
                menu.push(Err(Err(code)));
            }
            let c = s.script.choose(menu.len());
            match menu[c] {
                Ok(k) => n = k,
                Err(e) => {
                    let err = match e {
                        Ok(k) => io::Error::new(k, "injected"),
                        Err(code) => io::Error::from_raw_os_error(code),
                    };
                    s.errors.push(err.kind());
                    return Err(err);
                }
            }
        }
        if n < data.len() {
            s.short = true;
        }
        if n == 0 && !data.is_empty() {
            s.zero = true;
        }
        let (f, b) = (idx(fg), idx(bg));
        for &byte in &data[..n] {
            s.cells.push((f, b, byte));
        }
        Ok(n)
    }
}

impl Write for Console {
    fn write(&mut self, _buf: &[u8]) -> io::Result<usize> {
        Err(io::Error::new(ErrorKind::Unsupported, "the console is only written through write_colored"))
    }
    fn flush(&mut self) -> io::Result<()> {
        Ok(())
    }
}

impl AsLockedWrite for Console {
    type Write<'w> = &'w mut Self;
    fn as_locked_write(&mut self) -> Self::Write<'_> {
        self
    }
}

fn cap(c: Col) -> Cap {
    match c {
        Col::Ansi(i) => Some(i),
        Col::Idx(i) if i < 16 => Some(i),
        _ => None,
    }
}

fn expected_cells(model: &mut RunModel, chunk: &[u8]) -> Vec<(Cap, Cap, u8)> {
    let mut v = vec![];
    for (sgr, text) in model.feed(chunk) {
        for b in text.bytes() {
            v.push((cap(sgr.fg), cap(sgr.bg), b));
        }
    }
    v
}

#[derive(Clone, Copy, Debug, PartialEq, Eq)]
enum Op {
    WriteAll,
    Write,
    Fmt,
    /// write_vectored with the chunk cut into two slices, driven by the standard protocol
    /// (advance by the reported count, retry on Interrupted) until everything is consumed
    Vectored,
    /// `flush()`: hands nothing to the console and leaves the escape-sequence / character state alone
    Flush,
    /// `write!` of a value whose `Display` emits the chunk character by character (`Formatter::write_char`: what `char`
    /// arguments and fill characters go through)
    FmtChars,
}

struct Chars<'a>(&'a str);
impl std::fmt::Display for Chars<'_> {
    fn fmt(&self, f: &mut std::fmt::Formatter<'_>) -> std::fmt::Result {
        use std::fmt::Write as _;
        for c in self.0.chars() {
            f.write_char(c)?;
        }
        Ok(())
    }
}
const OPS: [Op; 5] = [Op::WriteAll, Op::Write, Op::Fmt, Op::Vectored, Op::FmtChars];

fn apply(stream: &mut WinconStream<Console>, op: Op, chunk: &[u8]) -> io::Result<Option<usize>> {
    match op {
        Op::Flush => stream.flush().map(|_| None),
        Op::FmtChars => match std::str::from_utf8(chunk) {
            Ok(s) => write!(stream, "{}", Chars(s)).map(|_| None),
            Err(_) => stream.write_all(chunk).map(|_| None),
        },
        Op::WriteAll => stream.write_all(chunk).map(|_| None),
        Op::Write => stream.write(chunk).map(Some),
        Op::Fmt => match std::str::from_utf8(chunk) {
            Ok(s) => {
                let mid = (0..=s.len()).filter(|&i| s.is_char_boundary(i)).nth(s.chars().count() / 2).unwrap_or(0);
                write!(stream, "{}{}", &s[..mid], &s[mid..]).map(|_| None)
            }
            Err(_) => stream.write_all(chunk).map(|_| None),
        },
        Op::Vectored => {
            let cut = chunk.len() / 2;
            let mut consumed = 0usize;
            let mut rounds = 0;
            while consumed < chunk.len() {
                rounds += 1;
                if rounds > 64 {
                    return Err(io::Error::new(ErrorKind::Other, "vectored protocol did not terminate"));
                }
                let a = &chunk[consumed.min(cut)..cut];
                let b = &chunk[consumed.max(cut)..];
                let slices = [io::IoSlice::new(a), io::IoSlice::new(b)];
                match stream.write_vectored(&slices) {
                    Ok(0) => return Err(io::Error::new(ErrorKind::WriteZero, "write_vectored returned 0")),
                    Ok(n) => {
                        if n > chunk.len() - consumed {
                            return Err(io::Error::new(ErrorKind::Other, format!("write_vectored returned {n}, more than offered")));
                        }
                        consumed += n;
                    }
                    Err(e) if e.kind() == ErrorKind::Interrupted => {}
                    Err(e) => return Err(e),
                }
            }
            Ok(None)
        }
    }
}

fn stream_canon(s: &WinconStream<Console>) -> String {
    let d = format!("{s:?}");
    let st = d.find("state: WinconBytes").map(|i| &d[i..]).unwrap_or(&d);
    // when the parser is in Ground only the capture part is live (see wincon_sys::canon_of)
    if st.starts_with("state: WinconBytes { parser: Parser { state: Ground,") {
        if let Some(i) = st.find("capture: WinconCapture") {
            return st[i..].to_string();
        }
    }
    st.to_string()
}

#[derive(Clone, Debug)]
struct CState {
    history: Vec<usize>,
    canon: String,
    model: RunModel,
}
impl PartialEq for CState {
    fn eq(&self, o: &Self) -> bool {
        self.canon == o.canon && self.model == o.model
    }
}
impl Eq for CState {}

struct ConsoleSys {
    inner: WinconSys,
}

impl ConsoleSys {
    /// the last token of the alphabet is `flush()` (no bytes); the others are (operation, chunk) pairs
    fn tok(&self, t: usize) -> (Op, usize) {
        if t == self.inner.tokens.len() * OPS.len() {
            return (Op::Flush, usize::MAX);
        }
        (OPS[t % OPS.len()], t / OPS.len())
    }
    fn chunk(&self, c: usize) -> &[u8] {
        if c == usize::MAX {
            &[]
        } else {
            &self.inner.tokens[c]
        }
    }
}

impl System for ConsoleSys {
    type State = CState;
    fn name(&self) -> String {
        "anstream::WinconStream/ops x tokens".into()
    }
    fn alphabet_len(&self) -> usize {
        self.inner.tokens.len() * OPS.len() + 1
    }
    fn token_label(&self, t: usize) -> String {
        let (op, c) = self.tok(t);
        format!("{op:?}({})", show(self.chunk(c)))
    }
    fn init(&self) -> Vec<CState> {
        let s = WinconStream::new(Console(Default::default()));
        vec![CState { history: vec![], canon: stream_canon(&s), model: RunModel::default() }]
    }
    fn key(&self, s: &CState) -> u64 {
        hash_of(&(&s.canon, &s.model))
    }
    fn enabled(&self, s: &CState, t: usize) -> bool {
        let (op, c) = self.tok(t);
        if op == Op::Flush {
            // once per position is enough: not right after another flush
            return s.history.last() != Some(&t);
        }
        let g = &self.inner.guards[c];
        if !(g.is_empty() || (s.model.sgr.ul == Ul::None && g.len() == 1)) {
            return false;
        }
        let mut m = s.model.clone();
        m.feed(&self.inner.tokens[c]);
        !m.ill_formed
    }
    fn step(&self, s: &CState, t: usize) -> Result<(CState, u64), String> {
        let sh = Rc::new(RefCell::new(Shared::default()));
        let mut stream = WinconStream::new(Console(sh.clone()));
        for &h in &s.history {
            let (op, c) = self.tok(h);
            apply(&mut stream, op, self.chunk(c)).map_err(|e| format!("machinery: history replay failed: {e}"))?;
        }
        if stream_canon(&stream) != s.canon {
            return Err("machinery: replayed history did not reproduce the state".into());
        }
        let before = sh.borrow().cells.len();
        let (op, c) = self.tok(t);
        let chunk = self.chunk(c);
        let r = apply(&mut stream, op, chunk).map_err(|e| format!("{op:?} failed on a console that accepts everything: {e}"))?;
        if let Some(n) = r {
            if n != chunk.len() {
                return Err(format!("write returned {n} of {} although the console accepted everything", chunk.len()));
            }
        }
        let mut model = s.model.clone();
        let exp = expected_cells(&mut model, chunk);
        let shb = sh.borrow();
        let got = &shb.cells[before..];
        if let Some(b) = shb.bad_byte {
            return Err(format!("control byte 0x{b:02x} was passed to the console as text"));
        }
        if got != &exp[..] {
            let gt: Vec<u8> = got.iter().map(|c| c.2).collect();
            let et: Vec<u8> = exp.iter().map(|c| c.2).collect();
            let what = if gt != et { "text handed to the console differs" } else { "console colours differ" };
            return Err(format!(
                "{what}: {op:?}({}) -> console got {:?}, expected {:?}",
                show(chunk),
                summarize(got),
                summarize(&exp)
            ));
        }
        let canon = stream_canon(&stream);
        let mut history = s.history.clone();
        history.push(t);
        Ok((CState { history, canon, model: model.canon() }, hash_of(&exp)))
    }
}

fn summarize(cells: &[(Cap, Cap, u8)]) -> Vec<(Cap, Cap, String)> {
    let mut out: Vec<(Cap, Cap, Vec<u8>)> = vec![];
    for &(f, b, x) in cells {
        match out.last_mut() {
            Some((lf, lb, t)) if *lf == f && *lb == b => t.push(x),
            _ => out.push((f, b, vec![x])),
        }
    }
    out.into_iter().map(|(f, b, t)| (f, b, show(&t))).collect()
}

// ---- E2 ---------------------------------------------------------------------------------

const FTOK: [&[u8]; 7] = [b"a", b"\x1b[31m", b"bc", b"\x1b[44m", "é".as_bytes(), b"\x1b[0m", b"\x1b[38;5;12m"];

fn run_fault_case(tokens: &[usize], op: Op, script: Script) -> (Result<(), String>, Script) {
    let sh = Rc::new(RefCell::new(Shared { script, scripted: true, ..Default::default() }));
    let mut stream = WinconStream::new(Console(sh.clone()));
    let input: Vec<u8> = tokens.iter().flat_map(|&i| FTOK[i].to_vec()).collect();
    let mut model = RunModel::default();
    let exp = expected_cells(&mut model, &input);
    let res = apply(&mut stream, op, &input);
    let s = sh.borrow();
    let r = (|| {
        if let Some(b) = s.bad_byte {
            return Err(format!("control byte 0x{b:02x} was passed to the console as text"));
        }
        let fatal: Vec<ErrorKind> = s.errors.iter().copied().filter(|k| *k != ErrorKind::Interrupted).collect();
        match res {
            Ok(n) => {
                let reported_all = n.map_or(true, |n| n == input.len());
                if let Some(n) = n {
                    if n > input.len() {
                        return Err(format!("write returned {n}, more than the {} bytes given", input.len()));
                    }
                }
                if reported_all && s.cells != exp {
                    return Err(format!(
                        "the buffer was reported consumed but not all of its text was handed over: console accepted {:?}, the buffer's text is {:?}",
                        summarize(&s.cells),
                        summarize(&exp)
                    ));
                }
                if !reported_all && !exp.starts_with(&s.cells) {
                    return Err(format!("console accepted {:?} which is not a prefix of {:?}", summarize(&s.cells), summarize(&exp)));
                }
                if !fatal.is_empty() && reported_all {
                    return Err(format!("console error {:?} did not reach the caller (call returned success)", fatal[0]));
                }
                Ok(())
            }
            Err(e) => {
                let allowed = s.errors.contains(&e.kind()) || (s.zero && e.kind() == ErrorKind::WriteZero) || (op == Op::Vectored && e.kind() == ErrorKind::WriteZero);
                if !allowed {
                    return Err(format!("error kind {:?} returned but the console raised {:?}", e.kind(), s.errors));
                }
                if !exp.starts_with(&s.cells) {
                    return Err(format!("after an error the console holds {:?} which is not a prefix of {:?}", summarize(&s.cells), summarize(&exp)));
                }
                Ok(())
            }
        }
    })();
    drop(s);
    let script = std::mem::take(&mut sh.borrow_mut().script);
    (r, script)
}

fn cells_of_ansi(bytes: &[u8]) -> Vec<(Cap, Cap, u8)> {
    let mut m = RunModel::default();
    expected_cells(&mut m, bytes)
}

fn lock_part() -> (u64, Vec<(String, String)>) {
    use vchecks::stdio_sys::capture_stdio;
    let inputs: [&[u8]; 3] = [b"a\x1b[31mred\x1b[44m on blue\x1b[0m b\n", "p\x1b[38;5;12m€x\n".as_bytes(), b"\x1b[1;32mg\x1b]0;t\x07h\n"];
    let mut bad = vec![];
    let mut n = 0u64;
    for input in inputs {
        let expected = cells_of_ansi(input);
        for cut in 0..=input.len() {
            let (a, b) = input.split_at(cut);
            let r = capture_stdio(|| {
                let mut s = WinconStream::new(std::io::stdout());
                s.write_all(a).unwrap();
                let mut l = s.lock();
                l.write_all(b).unwrap();
                drop(l);
                let mut s = WinconStream::new(std::io::stderr());
                s.write_all(a).unwrap();
                let mut l = s.lock();
                l.write_all(b).unwrap();
                drop(l);
            });
            n += 2;
            match r {
                Ok((_, cap)) => {
                    for (name, got) in [("stdout", &cap.out), ("stderr", &cap.err)] {
                        let cells = cells_of_ansi(got);
                        if cells != expected {
                            bad.push((
                                format!("{name} cut={cut} input={}", hex(input)),
                                format!(
                                    "write_all({}); lock(); write_all({}) on {name}: the console calls (read back from their ANSI rendering) were {:?}, expected {:?}",
                                    show(a),
                                    show(b),
                                    summarize(&cells),
                                    summarize(&expected)
                                ),
                            ));
                        }
                    }
                }
                Err(m) => bad.push((format!("cut={cut} input={}", hex(input)), m)),
            }
        }
    }
    (n, bad)
}

const LARGE_UNIT: &str = "ab\x1b[38;5;9mc\x1b[44;1mé\x1b[0m\n";

fn run_large(n: usize, shift: usize, op: Op) -> Result<(), String> {
    let unit = LARGE_UNIT.as_bytes();
    let chunk: Vec<u8> = unit.iter().cycle().skip(shift).take(n).copied().collect();

        let sh = Rc::new(RefCell::new(Shared::default()));
        let mut stream = WinconStream::new(Console(sh.clone()));
        if op == Op::Write {
            let mut rest = &chunk[..];
            let mut rounds = 0;
            while !rest.is_empty() {
                rounds += 1;
                let k = stream.write(rest).map_err(|e| format!("write failed on a console that accepts everything: {e}"))?;
                if k == 0 || k > rest.len() || rounds > 100000 {
                    return Err(format!("write returned {k} of {} (call {rounds})", rest.len()));
                }
                rest = &rest[k..];
            }
        } else if op == Op::Fmt && std::str::from_utf8(&chunk).is_err() {
            // a cut inside the two-byte character: write! takes text only
            let s = String::from_utf8_lossy(&chunk).into_owned();
            write!(stream, "{s}").map_err(|e| format!("write! failed on a console that accepts everything: {e}"))?;
            let mut model = RunModel::default();
            let exp = expected_cells(&mut model, s.as_bytes());
            let got = sh.borrow().cells.clone();
            if got != exp {
                return Err(format!("console colours differ: write! of {} bytes (unit shifted by {shift}): first difference at cell {:?}", s.len(), got.iter().zip(exp.iter()).position(|(a, b)| a != b)));
            }
            return Ok(());
        } else {
            apply(&mut stream, op, &chunk).map_err(|e| format!("{op:?} failed on a console that accepts everything: {e}"))?;
        }
        if op == Op::Fmt {
            // the same text as a small piece followed by a large one (and three pieces) in one write!
            if let Ok(t) = std::str::from_utf8(&chunk) {
                for first in [1usize, 9, 300] {
                    let cut = (0..=first.min(t.len())).rev().find(|&c| t.is_char_boundary(c)).unwrap_or(0);
                    let cut2 = (0..=(cut + 5).min(t.len())).rev().find(|&c| t.is_char_boundary(c)).unwrap_or(cut);
                    let sh2 = Rc::new(RefCell::new(Shared::default()));
                    let mut s2 = WinconStream::new(Console(sh2.clone()));
                    write!(s2, "{}{}{}", &t[..cut], &t[cut..cut2], &t[cut2..]).map_err(|e| format!("write! failed on a console that accepts everything: {e}"))?;
                    let exp = expected_cells(&mut RunModel::default(), &chunk);
                    let got = sh2.borrow().cells.clone();
                    if got != exp {
                        let what = if got.len() != exp.len() || got.iter().map(|c| c.2).ne(exp.iter().map(|c| c.2)) { "text handed to the console differs" } else { "console colours differ" };
                        return Err(format!("{what}: write! of {n} bytes in pieces of {cut}, {} and {} bytes (unit shifted by {shift}): first difference at cell {:?}", cut2 - cut, t.len() - cut2, got.iter().zip(exp.iter()).position(|(a, b)| a != b)));
                    }
                }
            }
        }
        let mut model = RunModel::default();
        let exp = expected_cells(&mut model, &chunk);
        let got = sh.borrow().cells.clone();
        if got != exp {
            let what = if got.len() != exp.len() { "text handed to the console differs" } else { "console colours differ" };
            return Err(format!("{what}: {op:?} of {n} bytes (unit shifted by {shift}): console got {} cells, expected {}, first difference at cell {:?}", got.len(), exp.len(), got.iter().zip(exp.iter()).position(|(a, b)| a != b)));
        }
        Ok(())
    }

fn clause_of(m: &str) -> String {
    for (pat, c) in [
        ("panic:", "panic"),
        ("machinery", "machinery"),
        ("control byte", "escape-byte-as-text"),
        ("text handed to the console differs", "text-differs"),
        ("console colours differ", "colours-differ"),
        ("reported consumed but not all", "consumed-without-handing-over"),
        ("did not reach the caller", "error-swallowed"),
        ("error kind", "error-kind-changed"),
        ("not a prefix", "not-a-prefix"),
        ("although the console accepted everything", "short-count-without-cause"),
        ("failed on a console that accepts everything", "spurious-error"),
    ] {
        if m.contains(pat) {
            return c.into();
        }
    }
    "other".into()
}

fn main_check(ctx: &Ctx) -> Outcome {
    let mut out = Outcome::default();
    let quick = ctx.quick();
    // lock(): the colour / parser state must survive `WinconStream<Stdout|Stderr>::lock()`.
    // Off Windows anstyle_wincon renders console calls on the std streams as ANSI, which is read back.
    {
        let (n, bad) = lock_part();
        for (case, message) in bad.into_iter().take(20) {
            out.findings.push(Finding {
                system: "anstream::WinconStream<Stdout|Stderr>: write_all; lock(); write_all".into(),
                clause: "state-lost-at-lock".into(),
                case: vec![case],
                message,
                replay: json!({"kind":"lock"}),
            });
        }
        out.push_part(json!({"system":"write_all; lock(); write_all over the real stdout/stderr redirected to files, every cut position","cases":n}));
    }

    // E1
    let sys = ConsoleSys { inner: sgr_bfs_system() };
    let mut lim = Limits::depth(if quick { 3 } else { 4 });
    lim.max_wall_s = if quick { 30.0 } else { 1200.0 };
    let rep = bfs::explore(&sys, &lim);
    out.add_bfs(&rep);
    out.findings.extend(bfs_findings(&rep, clause_of));
    // fragments (sequences cut across calls)
    let mut frag = WinconSys { label: "frag".into(), tokens: vec![], guards: vec![] };
    for f in [&b"\x1b"[..], b"[", b"3", b"1", b";", b"4", b"m", b"a", b"\n", b"\xc3", b"\xa9", b"\x1b[38;5;", b"9m", b"\x1b]0;t", b"\x07"] {
        frag.push(f.to_vec(), &[]);
    }
    struct Named(ConsoleSys);
    impl System for Named {
        type State = CState;
        fn name(&self) -> String {
            "anstream::WinconStream/ops x fragments".into()
        }
        fn alphabet_len(&self) -> usize {
            self.0.alphabet_len()
        }
        fn token_label(&self, t: usize) -> String {
            self.0.token_label(t)
        }
        fn init(&self) -> Vec<CState> {
            self.0.init()
        }
        fn key(&self, s: &CState) -> u64 {
            self.0.key(s)
        }
        fn enabled(&self, s: &CState, t: usize) -> bool {
            self.0.enabled(s, t)
        }
        fn step(&self, s: &CState, t: usize) -> Result<(CState, u64), String> {
            self.0.step(s, t)
        }
    }
    let fsys = Named(ConsoleSys { inner: frag });
    let mut lim = Limits::depth(if quick { 5 } else { 7 });
    lim.max_wall_s = if quick { 20.0 } else { 900.0 };
    let rep = bfs::explore(&fsys, &lim);
    out.add_bfs(&rep);
    out.findings.extend(bfs_findings(&rep, clause_of));

    // value sweeps: every 256-colour index (the cap to the 16 palette has its boundary at 15/16),
    // every RGB component value, every plain code, through write_all on a fresh stream
    {
        let sweep = vchecks::wincon_sys::value_sweep_groups();
        let bad = std::sync::Mutex::new(Vec::<Finding>::new());
        sweep.par_iter().for_each(|g| {
            let mut chunk = b"x\x1b[".to_vec();
            chunk.extend(g.as_bytes());
            chunk.extend(b"my");
            let r = guard(|| {
                let sh = Rc::new(RefCell::new(Shared::default()));
                let mut stream = WinconStream::new(Console(sh.clone()));
                stream.write_all(&chunk).map_err(|e| format!("write_all failed on a console that accepts everything: {e}"))?;
                let mut model = RunModel::default();
                let exp = expected_cells(&mut model, &chunk);
                let got = sh.borrow().cells.clone();
                if got != exp {
                    return Err(format!("console colours differ: write_all({}) -> console got {:?}, expected {:?}", show(&chunk), summarize(&got), summarize(&exp)));
                }
                Ok(())
            })
            .and_then(|r| r);
            if let Err(m) = r {
                let mut b = bad.lock().unwrap();
                if b.len() < 60 {
                    b.push(Finding {
                        system: "anstream::WinconStream/value-sweep".into(),
                        clause: clause_of(&m),
                        case: vec![show(&chunk)],
                        message: m,
                        replay: json!({"kind":"sweep","chunk":hex(&chunk)}),
                    });
                }
            }
        });
        let mut b = bad.into_inner().unwrap();
        b.sort_by_key(|f| (f.case[0].len(), f.key()));
        out.findings.extend(b);
        out.push_part(json!({"system":"console value sweeps (all 256 indices / component values / plain codes)","sequences":sweep.len()}));
    }

    // sequences of two attribute groups from the default state (e.g. two truecolor groups in one sequence)
    {
        let groups = vchecks::wincon_sys::sgr_groups();
        let pairs: Vec<(usize, usize)> = (0..groups.len()).flat_map(|a| (0..groups.len()).map(move |b| (a, b))).collect();
        let bad = std::sync::Mutex::new(Vec::<Finding>::new());
        pairs.par_iter().for_each(|&(a, b)| {
            let chunk = format!("x\x1b[{};{}my", groups[a], groups[b]).into_bytes();
            let mut probe = RunModel::default();
            probe.feed(&chunk);
            if probe.ill_formed {
                return;
            }
            let r = guard(|| {
                let sh = Rc::new(RefCell::new(Shared::default()));
                let mut stream = WinconStream::new(Console(sh.clone()));
                stream.write_all(&chunk).map_err(|e| format!("write_all failed on a console that accepts everything: {e}"))?;
                let mut model = RunModel::default();
                let exp = expected_cells(&mut model, &chunk);
                let got = sh.borrow().cells.clone();
                if got != exp {
                    return Err(format!("console colours differ: write_all({}) -> console got {:?}, expected {:?}", show(&chunk), summarize(&got), summarize(&exp)));
                }
                Ok(())
            })
            .and_then(|r| r);
            if let Err(m) = r {
                let mut v = bad.lock().unwrap();
                if v.len() < 60 {
                    v.push(Finding {
                        system: "anstream::WinconStream/two-group-sequences".into(),
                        clause: clause_of(&m),
                        case: vec![show(&chunk)],
                        message: m,
                        replay: json!({"kind":"sweep","chunk":hex(&chunk)}),
                    });
                }
            }
        });
        let mut b = bad.into_inner().unwrap();
        b.sort_by_key(|f| (f.case[0].len(), f.key()));
        out.findings.extend(b);
        out.push_part(json!({"system":"console: every sequence of two attribute groups from the default state","sequences":pairs.len()}));
    }

    // codes the statement leaves out (5, 6, 22-29, 59), alone and next to listed groups: the console must see what a
    // conforming terminal shows, or what it shows without that code - nothing else
    {
        let cases = vchecks::wincon_sys::unlisted_code_cases();
        let bad = std::sync::Mutex::new(Vec::<Finding>::new());
        cases.par_iter().for_each(|(with, without)| {
            let r = guard(|| {
                let sh = Rc::new(RefCell::new(Shared::default()));
                let mut stream = WinconStream::new(Console(sh.clone()));
                stream.write_all(with).map_err(|e| format!("write_all failed on a console that accepts everything: {e}"))?;
                let got = sh.borrow().cells.clone();
                let conform = expected_cells(&mut RunModel::default(), with);
                let ignore = expected_cells(&mut RunModel::default(), without);
                if got != conform && got != ignore {
                    return Err(format!("console colours differ: write_all({}) -> console got {:?}; a conforming terminal shows {:?}, and {:?} if the left-out code is ignored", show(with), summarize(&got), summarize(&conform), summarize(&ignore)));
                }
                Ok(())
            })
            .and_then(|r| r);
            if let Err(m) = r {
                let mut v = bad.lock().unwrap();
                if v.len() < 40 {
                    v.push(Finding {
                        system: "anstream::WinconStream/left-out-codes".into(),
                        clause: clause_of(&m),
                        case: vec![show(with)],
                        message: m,
                        replay: json!({"kind":"left-out","with":hex(with),"without":hex(without)}),
                    });
                }
            }
        });
        let mut b = bad.into_inner().unwrap();
        b.sort_by_key(|f| (f.case[0].len(), f.key()));
        b.truncate(10);
        out.findings.extend(b);
        out.push_part(json!({"system":"console: sequences containing a code the statement leaves out (5, 6, 22-29, 59)","sequences":cases.len()}));
    }

    // every kind of non-SGR sequence inside styled text (every OSC number, every CSI / ESC final byte, DCS/SOS/PM/APC)
    {
        let cases = vchecks::wincon_sys::non_sgr_cases();
        let bad = std::sync::Mutex::new(Vec::<Finding>::new());
        cases.par_iter().for_each(|c| {
            let r = guard(|| {
                let sh = Rc::new(RefCell::new(Shared::default()));
                let mut stream = WinconStream::new(Console(sh.clone()));
                stream.write_all(c).map_err(|e| format!("write_all failed on a console that accepts everything: {e}"))?;
                let exp = expected_cells(&mut RunModel::default(), c);
                let shb = sh.borrow();
                if let Some(b) = shb.bad_byte {
                    return Err(format!("control byte 0x{b:02x} was passed to the console as text"));
                }
                if shb.cells != exp {
                    return Err(format!("console colours differ: write_all({}) -> console got {:?}, expected {:?}", show(c), summarize(&shb.cells), summarize(&exp)));
                }
                Ok(())
            })
            .and_then(|r| r);
            if let Err(m) = r {
                let mut v = bad.lock().unwrap();
                if v.len() < 40 {
                    v.push(Finding {
                        system: "anstream::WinconStream/non-SGR-sequences".into(),
                        clause: clause_of(&m),
                        case: vec![show(c)],
                        message: m,
                        replay: json!({"kind":"sweep","chunk":hex(c)}),
                    });
                }
            }
        });
        let mut b = bad.into_inner().unwrap();
        b.sort_by_key(|f| (f.case[0].len(), f.key()));
        b.truncate(10);
        out.findings.extend(b);
        out.push_part(json!({"system":"console: every OSC number 0..=255, every CSI final byte, every ESC final byte, DCS/SOS/PM/APC inside styled text","sequences":cases.len()}));
    }

    // every chunk of <= 2 bytes over ALL 256 byte values, written after each of ~100 prefixes (default / styled state,
    // then one class byte: the parser in every kind of state): the console must receive the model's cells
    {
        let (alpha, _) = vchecks::common::class_alphabet();
        let mut prefixes: Vec<Vec<u8>> = vec![];
        for p in [&b""[..], b"\x1b[1;31;44m"] {
            prefixes.push(p.to_vec());
            for &a in &alpha {
                let mut v = p.to_vec();
                v.push(a);
                prefixes.push(v);
            }
        }
        let chunks: Vec<Vec<u8>> = (0..=255u8).map(|a| vec![a]).chain((0..=255u8).flat_map(|a| (0..=255u8).map(move |b| vec![a, b]))).collect();
        let bad = std::sync::Mutex::new(Vec::<Finding>::new());
        let runs = AtomicU64::new(0);
        chunks.par_iter().for_each(|c| {
            for prefix in &prefixes {
                let mut model = RunModel::default();
                let exp_prefix = expected_cells(&mut model, prefix);
                let exp = expected_cells(&mut model, c);
                if model.ill_formed {
                    continue;
                }
                runs.fetch_add(1, Ordering::Relaxed);
                let r = guard(|| {
                    let sh = Rc::new(RefCell::new(Shared::default()));
                    let mut stream = WinconStream::new(Console(sh.clone()));
                    stream.write_all(prefix).map_err(|e| format!("write_all failed on a console that accepts everything: {e}"))?;
                    stream.write_all(c).map_err(|e| format!("write_all failed on a console that accepts everything: {e}"))?;
                    let shb = sh.borrow();
                    if let Some(b) = shb.bad_byte {
                        return Err(format!("control byte 0x{b:02x} was passed to the console as text"));
                    }
                    let want: Vec<_> = exp_prefix.iter().chain(exp.iter()).copied().collect();
                    if shb.cells != want {
                        let gt: Vec<u8> = shb.cells.iter().map(|c| c.2).collect();
                        let et: Vec<u8> = want.iter().map(|c| c.2).collect();
                        let what = if gt != et { "text handed to the console differs" } else { "console colours differ" };
                        return Err(format!("{what}: write_all({}); write_all({}) -> console got {:?}, expected {:?}", show(prefix), show(c), summarize(&shb.cells), summarize(&want)));
                    }
                    Ok(())
                })
                .and_then(|r| r);
                if let Err(m) = r {
                    let mut v = bad.lock().unwrap();
                    if v.len() < 60 {
                        v.push(Finding {
                            system: "anstream::WinconStream/all-2-byte-chunks".into(),
                            clause: clause_of(&m),
                            case: vec![show(prefix), show(c)],
                            message: m,
                            replay: json!({"kind":"sweep","chunk":hex(&[&prefix[..], &c[..]].concat())}),
                        });
                    }
                }
            }
        });
        let mut b = bad.into_inner().unwrap();
        b.sort_by_key(|f| (f.case[0].len() + f.case[1].len(), f.key()));
        b.truncate(12);
        out.findings.extend(b);
        out.push_part(json!({"system":"console: every chunk of <= 2 bytes over all 256 byte values after each prefix","prefixes":prefixes.len(),"chunks":chunks.len(),"runs":runs.load(Ordering::Relaxed)}));
    }

    // large buffers: sizes around 8 KiB (std's console writers cut there) and beyond, an escape sequence or a
    // multi-byte character straddling every offset near the cut, through every entry point driven by the standard protocol
    {
        let unit = LARGE_UNIT.as_bytes();
        let sizes: Vec<usize> = if quick { vec![1023, 1024, 1025, 8191, 8192, 8193, 16385, 20000] } else { vec![4095, 4096, 4097, 8191, 8192, 8193, 16383, 16384, 16385, 20000, 65535, 65537, 131073] };
        let cases: Vec<(usize, usize, Op)> = sizes.iter().flat_map(|&n| (0..unit.len()).flat_map(move |sh| OPS.iter().map(move |&op| (n, sh, op)))).collect();
        let bad = std::sync::Mutex::new(Vec::<Finding>::new());
        cases.par_iter().for_each(|&(n, shift, op)| {
            let r = guard(|| run_large(n, shift, op))
            .and_then(|r| r);
            if let Err(m) = r {
                let mut v = bad.lock().unwrap();
                if v.len() < 40 {
                    v.push(Finding {
                        system: format!("anstream::WinconStream/{op:?}/large-buffers"),
                        clause: clause_of(&m),
                        case: vec![format!("{n} bytes, unit shifted by {shift}")],
                        message: m,
                        replay: json!({"kind":"large","n":n,"shift":shift,"op":format!("{op:?}")}),
                    });
                }
            }
        });
        let mut b = bad.into_inner().unwrap();
        b.sort_by_key(|f| f.key());
        b.truncate(8);
        out.findings.extend(b);
        out.push_part(json!({"system":"console: large buffers through write_all / write loop / write! / write_vectored loop","sizes":sizes,"shifts":unit.len(),"cases":cases.len()}));
    }

    // E2
    let maxlen = if quick { 4 } else { 5 };
    let k = if quick { 2 } else { 3 };
    let inputs: Vec<Vec<usize>> = strings_upto(FTOK.len(), maxlen).filter(|c| !c.is_empty()).collect();
    let runs = AtomicU64::new(0);
    let deviating = AtomicU64::new(0);
    let viol = std::sync::Mutex::new(Vec::<Finding>::new());
    inputs.par_iter().for_each(|toks| {
        for op in OPS {
            let st = scripts::enumerate(k, |s| {
                let r = match guard(|| run_fault_case(toks, op, s.clone())) {
                    Ok((r, script)) => {
                        *s = script;
                        r
                    }
                    Err(p) => {
                        s.mark_aborted();
                        Err(p)
                    }
                };
                if s.deviations() > 0 {
                    deviating.fetch_add(1, Ordering::Relaxed);
                }
                if let Err(m) = r {
                    let input: Vec<u8> = toks.iter().flat_map(|&i| FTOK[i].to_vec()).collect();
                    let mut v = viol.lock().unwrap();
                    if v.len() < 400 {
                        v.push(Finding {
                            system: format!("anstream::WinconStream/{op:?}/console-script"),
                            clause: clause_of(&m),
                            case: vec![show(&input), format!("script{:?}", s.choices())],
                            message: m,
                            replay: json!({"kind":"fault","tokens":toks,"op":format!("{op:?}"),"script":s.choices()}),
                        });
                    }
                    return false;
                }
                true
            });
            runs.fetch_add(st.runs, Ordering::Relaxed);
        }
    });
    let mut v = viol.into_inner().unwrap();
    v.sort_by_key(|f| (f.case[0].len(), f.case[1].len(), f.key()));
    let mut per: std::collections::HashMap<(String, String), usize> = Default::default();
    v.retain(|f| {
        let c = per.entry((f.system.clone(), f.clause.clone())).or_default();
        *c += 1;
        *c <= 3
    });
    out.findings.extend(v);
    out.push_part(json!({"system":"console fault scripts","inputs":inputs.len(),"max_tokens":maxlen,"deviation_bound":k,"ops":["write_all","write","write!","write_vectored protocol"]}));
    out.set("evaluations", json!(runs.load(Ordering::Relaxed)));
    out.set("distinct_nontrivial", json!(deviating.load(Ordering::Relaxed)));
    out.set("rule", json!("evaluations = fault-script executions (input x op x console script); distinct_nontrivial = those with at least one short count or injected error"));
    out.set("exhaustive", json!(false));
    out.set("explanation", json!("bounded BFS depth (tokens are whole SGR sequences / text, and fragments) and bounded deviation count; anstream/src/wincon.rs and fmt.rs are compiled from the working tree via #[path]"));
    out.assume("crate::stream::{AsLockedWrite, IsTerminal} are harness stand-ins with the shape of the sealed originals; crate::adapter::WinconBytes is the real adapter");
    out.assume("calls with equal (fg, bg) are merged before comparison; DEL follows the VT model (printed in Ground)");
    out
}

fn replay(v: &serde_json::Value) -> Result<(), String> {
    match v["kind"].as_str().unwrap_or("") {
        "bfs" => {
            let frag = v["system"].as_str().unwrap_or("").contains("fragments");
            let trace: Vec<usize> = v["trace"].as_array().unwrap().iter().map(|x| x.as_u64().unwrap() as usize).collect();
            let sys = if frag {
                let mut f = WinconSys { label: "frag".into(), tokens: vec![], guards: vec![] };
                for t in [&b"\x1b"[..], b"[", b"3", b"1", b";", b"4", b"m", b"a", b"\n", b"\xc3", b"\xa9", b"\x1b[38;5;", b"9m", b"\x1b]0;t", b"\x07"] {
                    f.push(t.to_vec(), &[]);
                }
                ConsoleSys { inner: f }
            } else {
                ConsoleSys { inner: sgr_bfs_system() }
            };
            bfs::replay(&sys, 0, &trace).map(|_| ()).map_err(|(i, m)| format!("step {i}: {m}"))
        }
        "fault" => {
            let toks: Vec<usize> = v["tokens"].as_array().unwrap().iter().map(|x| x.as_u64().unwrap() as usize).collect();
            let op = match v["op"].as_str().unwrap() {
                "WriteAll" => Op::WriteAll,
                "Write" => Op::Write,
                "Vectored" => Op::Vectored,
                _ => Op::Fmt,
            };
            let forced: Vec<usize> = v["script"].as_array().unwrap().iter().map(|x| x.as_u64().unwrap() as usize).collect();
            run_fault_case(&toks, op, Script::new(forced)).0
        }
        "lock" => match lock_part().1.first() {
            Some((c, m)) => Err(format!("{c}: {m}")),
            None => Ok(()),
        },
        "sweep" => {
            let chunk = unhex(v["chunk"].as_str().unwrap_or(""));
            let sh = Rc::new(RefCell::new(Shared::default()));
            let mut stream = WinconStream::new(Console(sh.clone()));
            stream.write_all(&chunk).map_err(|e| e.to_string())?;
            let mut model = RunModel::default();
            let exp = expected_cells(&mut model, &chunk);
            let got = sh.borrow().cells.clone();
            if got != exp {
                return Err(format!("console got {:?}, expected {:?}", summarize(&got), summarize(&exp)));
            }
            Ok(())
        }
        "left-out" => {
            let (with, without) = (unhex(v["with"].as_str().unwrap_or("")), unhex(v["without"].as_str().unwrap_or("")));
            let sh = Rc::new(RefCell::new(Shared::default()));
            let mut stream = WinconStream::new(Console(sh.clone()));
            stream.write_all(&with).map_err(|e| e.to_string())?;
            let got = sh.borrow().cells.clone();
            if got != expected_cells(&mut RunModel::default(), &with) && got != expected_cells(&mut RunModel::default(), &without) {
                return Err(format!("console got {:?}", summarize(&got)));
            }
            Ok(())
        }
        "large" => {
            let op = OPS.into_iter().find(|o| Some(format!("{o:?}").as_str()) == v["op"].as_str()).ok_or("unknown op")?;
            run_large(v["n"].as_u64().unwrap_or(0) as usize, v["shift"].as_u64().unwrap_or(0) as usize, op)
        }
        k => Err(format!("unknown replay kind {k}")),
    }
}

fn main() {
    run_check("C18", "model_checking", main_check, replay);
}
