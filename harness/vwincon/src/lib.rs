//! Compiles the working tree's `anstream/src/wincon.rs` (a module the crate only builds on
//! Windows) and `fmt.rs` on this platform, with harness-side stand-ins for the two crate-private
//! items it imports: `crate::stream::{AsLockedWrite, IsTerminal}` and `crate::adapter::WinconBytes`
//! (the latter is the real adapter, re-exported).
#![allow(dead_code, unused_imports, clippy::all)]

pub mod adapter {
    pub use anstream::adapter::WinconBytes;
}

pub mod stream {
    /// Same shape as anstream's sealed trait; on Windows `RawStream` additionally requires
    /// `anstyle_wincon::WinconStream`, which is what `wincon.rs` relies on.
    pub trait AsLockedWrite {
        type Write<'w>: std::io::Write + anstyle_wincon::WinconStream + 'w
        where
            Self: 'w;
        fn as_locked_write(&mut self) -> Self::Write<'_>;
    }

    pub trait IsTerminal {
        fn is_terminal(&self) -> bool;
    }

    impl AsLockedWrite for std::io::Stdout {
        type Write<'w> = std::io::StdoutLock<'w>;
        fn as_locked_write(&mut self) -> Self::Write<'_> {
            self.lock()
        }
    }
    impl AsLockedWrite for std::io::StdoutLock<'static> {
        type Write<'w> = &'w mut Self;
        fn as_locked_write(&mut self) -> Self::Write<'_> {
            self
        }
    }
    impl AsLockedWrite for std::io::Stderr {
        type Write<'w> = std::io::StderrLock<'w>;
        fn as_locked_write(&mut self) -> Self::Write<'_> {
            self.lock()
        }
    }
    impl AsLockedWrite for std::io::StderrLock<'static> {
        type Write<'w> = &'w mut Self;
        fn as_locked_write(&mut self) -> Self::Write<'_> {
            self
        }
    }
    impl AsLockedWrite for Vec<u8> {
        type Write<'w> = &'w mut Self;
        fn as_locked_write(&mut self) -> Self::Write<'_> {
            self
        }
    }
}

#[path = "/repo/crates/anstream/src/fmt.rs"]
pub(crate) mod fmt;

#[path = "/repo/crates/anstream/src/wincon.rs"]
pub mod wincon;

pub use wincon::WinconStream;
