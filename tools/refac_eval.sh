#!/bin/bash
# tools/refac_eval.sh <lane> <Cxx> <i> [checks...]
# Runs the checks against a BEHAVIOUR-PRESERVING refactoring (/tmp/refac/<Cxx>/out/refactor<i>.diff) applied to a
# scratch worktree: every check must stay silent (exit 0). exit 1 = false alarm, exit 2 = the harness did not cope.
set -u
LANE="$1"; ID="$2"; I="$3"; shift 3
CHECKS="${*:-C01 C02 C03 C04 C05 C06 C07 C08 C09 C10 C11 C12 C13 C14 C15 C16 C17 C18 C19 C20}"
S=/root/scratch/lane$LANE
DIFF=/tmp/refac/$ID/out/refactor$I.diff
OUT=/verif/refactors/$ID-$(( I + ${OUTOFFSET:-0} ))
export CARGO_NET_OFFLINE=true
[[ -f "$DIFF" ]] || { echo "no diff $DIFF"; exit 2; }
mkdir -p "$OUT"
[[ -d $S/repo ]] || /verif/tools/scratch_env.sh lane$LANE init >/dev/null
git -C $S/repo reset -q --hard; git -C $S/repo clean -fdq; git -C $S/repo checkout -q --detach $(git -C /repo rev-parse HEAD)
if ! git -C $S/repo apply "$DIFF" 2>$OUT/apply.err; then echo "$ID-$I: diff does not apply"; exit 2; fi
cp "$DIFF" $OUT/patch.diff; cp /tmp/refac/$ID/out/refactor$I.md $OUT/refactor.md 2>/dev/null
( cd $S/repo && CARGO_TARGET_DIR=$S/repo-target cargo nextest run --workspace --no-fail-fast --offline 2>&1 | tail -3 ) > $OUT/suite.txt 2>&1
SUITE=$(grep -o "[0-9]* tests run: [0-9]* passed.*" $OUT/suite.txt | head -1)
: > $OUT/checks.txt; ALARMS=""; BROKEN=""
for c in $CHECKS; do
  /verif/tools/scratch_env.sh lane$LANE run $c --tier quick > $OUT/run-$c.log 2>&1; rc=$?
  echo "$c exit=$rc" >> $OUT/checks.txt
  if [[ $rc -eq 1 ]]; then ALARMS="$ALARMS $c"; grep -m3 "^violation" $OUT/run-$c.log | cut -c1-600 > $OUT/alarm-$c.txt; fi
  if [[ $rc -ge 2 ]]; then BROKEN="$BROKEN $c"; tail -15 $OUT/run-$c.log | cut -c1-400 > $OUT/broken-$c.txt; fi
  rm -f $OUT/run-$c.log
done
git -C $S/repo reset -q --hard
echo "suite=[$SUITE] false_alarms=[$ALARMS ] machinery_failures=[$BROKEN ]" > $OUT/result.txt
echo "$ID-$I: $(cat $OUT/result.txt)"
