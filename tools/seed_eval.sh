#!/bin/bash
# tools/seed_eval.sh <lane> <Cxx> <i> [checks...]
# Evaluates one seeded change (/tmp/seed/<Cxx>/out/change<i>.diff) WITHOUT touching /repo:
#  1. scratch worktree /root/scratch/lane<lane>/repo at /repo HEAD + the diff; repository suite must pass
#  2. the demonstration in /tmp/seed/<Cxx>/out/demo<i> must fail with the diff applied to /tmp/seed/<Cxx>/repo and pass without
#  3. every check (or the listed ones) is run (quick tier) against the scratch worktree; which ones report a VIOLATION is recorded
# Output: /verif/seeded/<Cxx>-<i>/{patch.diff,demo/,meta.json,checks.txt}
set -u
LANE="$1"; ID="$2"; I="$3"; shift 3
ALLCHECKS=$([[ $# -eq 0 ]] && echo 1)
CHECKS="${*:-C01 C02 C03 C04 C05 C06 C07 C08 C09 C10 C11 C12 C13 C14 C15 C16 C17 C18 C19 C20}"
S=/root/scratch/lane$LANE
SEED=${SEEDROOT:-/tmp/seed}/$ID
DIFF=$SEED/out/change$I.diff
OUT=/verif/seeded/$ID-$(( I + ${OUTOFFSET:-0} ))
export CARGO_NET_OFFLINE=true
[[ -f "$DIFF" ]] || { echo "no diff $DIFF"; exit 2; }
mkdir -p "$OUT"
[[ -d $S/repo ]] || /verif/tools/scratch_env.sh lane$LANE init >/dev/null
git -C $S/repo reset -q --hard; git -C $S/repo clean -fdq; git -C $S/repo checkout -q --detach $(git -C /repo rev-parse HEAD)
if ! git -C $S/repo apply "$DIFF" 2>$OUT/apply.err; then echo "$ID-$I: diff does not apply"; cat $OUT/apply.err; exit 2; fi
cp "$DIFF" $OUT/patch.diff
# 1. repository suite
( cd $S/repo && CARGO_TARGET_DIR=$S/repo-target cargo nextest run --workspace --no-fail-fast --offline 2>&1 | tail -3 ) > $OUT/suite.txt 2>&1
SUITE=$(grep -o "[0-9]* tests run: [0-9]* passed.*" $OUT/suite.txt | head -1)
# 2. demonstration
DEMO_WITH="n/a"; DEMO_WITHOUT="n/a"
if [[ -d $SEED/out/demo$I ]]; then
  rm -rf $OUT/demo; cp -r $SEED/out/demo$I $OUT/demo; rm -rf $OUT/demo/target
  if [[ -f $SEED/out/demo$I/Cargo.toml ]]; then
    git -C $SEED/repo checkout -q -- . ; git -C $SEED/repo apply "$DIFF"
    rundemo() { if [[ -f run.sh ]]; then sh ./run.sh >/dev/null 2>&1; else cargo test --offline >/dev/null 2>&1 && cargo run --offline >/dev/null 2>&1; fi; }
    ( cd $SEED/out/demo$I && rundemo ); DEMO_WITH=$?
    git -C $SEED/repo checkout -q -- .
    ( cd $SEED/out/demo$I && rundemo ); DEMO_WITHOUT=$?
    find $SEED/out/demo$I -name target -type d -prune -exec rm -rf {} + 2>/dev/null
  fi
fi
# 3. checks
: > $OUT/checks.txt
CAUGHT=""
for c in $CHECKS; do
  /verif/tools/scratch_env.sh lane$LANE run $c --tier quick > $OUT/run-$c.log 2>&1; rc=$?
  nv=$(grep -c "^VIOLATION" $OUT/run-$c.log)
  echo "$c exit=$rc violations=$nv" >> $OUT/checks.txt
  if [[ $rc -eq 1 ]]; then CAUGHT="$CAUGHT $c"; fi
  if [[ $rc -ne 1 ]]; then rm -f $OUT/run-$c.log; else grep -m3 "^violation" $OUT/run-$c.log | cut -c1-600 > $OUT/first-$c.txt; rm -f $OUT/run-$c.log; fi
done
git -C $S/repo checkout -q -- .
export CHECKS_RUN="$CHECKS" ALLCHECKS
python3 - "$ID" "$(( I + ${OUTOFFSET:-0} ))" "$SUITE" "$DEMO_WITH" "$DEMO_WITHOUT" "$CAUGHT" <<'PY'
import json,sys,os
id_,i,suite,dw,dwo,caught=sys.argv[1:7]
out=f"/verif/seeded/{id_}-{i}"
desc=""
import os as _o
p=_o.environ.get("SEEDROOT","/tmp/seed")+f"/{id_}/out/change{int(i)-int(_o.environ.get('OUTOFFSET','0'))}.md"
if os.path.exists(p):
    desc=open(p).read()
    open(out+"/change.md","w").write(desc)
meta={"property":id_,"seed":int(i),"source":"independent sub-agent given only the property text and a private worktree",
 "repo_suite_with_change":suite,"demo_exit_with_change":dw,"demo_exit_without_change":dwo,
 "checks_run":("every check's quick tier" if _o.environ.get("ALLCHECKS") else "quick tiers of "+_o.environ.get("CHECKS_RUN","")+" (the checks anchored in a touched file or consuming a touched crate; all 20 were run in the first evaluation)")+" via tools/scratch_env.sh against a scratch worktree with the patch applied",
 "caught_by":caught.split(),"needs_to_manifest":"see change.md (trigger section)"}
json.dump(meta,open(out+"/meta.json","w"),indent=1)
print(f"{id_}-{i}: suite=[{suite}] demo with/without={dw}/{dwo} caught_by={caught}")
PY
