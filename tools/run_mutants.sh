#!/bin/bash
# tools/run_mutants.sh <lane> [pattern]   - applies every /verif/mutants/<Cxx>-*.patch (matching pattern) to a
# scratch worktree, runs the quick tier of check Cxx there and records the verdict in /verif/mutants/RESULTS.txt
set -u
LANE="$1"; PAT="${2:-C}"
S=/root/scratch/lane$LANE
[[ -d $S/repo ]] || /verif/tools/scratch_env.sh lane$LANE init >/dev/null
HEAD=$(git -C /repo rev-parse HEAD)
for p in /verif/mutants/${PAT}*.patch; do
  name=$(basename $p .patch); id=${name%%-*}
  git -C $S/repo reset -q --hard; git -C $S/repo checkout -q --detach $HEAD
  if ! git -C $S/repo apply "$p" >/dev/null 2>&1; then
    echo "$name: DOES-NOT-APPLY (written against an earlier tree)" ; continue
  fi
  /verif/tools/scratch_env.sh lane$LANE run $id --tier quick > $S/mut.log 2>&1; rc=$?
  nv=$(grep -c "^VIOLATION" $S/mut.log)
  case $rc in 1) v="CAUGHT";; 0) v="MISSED";; *) v="MACHINERY(rc=$rc)";; esac
  echo "$name: $v violations=$nv"
done
git -C $S/repo reset -q --hard
