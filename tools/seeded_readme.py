#!/usr/bin/env python3
"""Regenerates /verif/seeded/README.md from the meta.json files."""
import json, glob, os, re
rows=[]
for d in sorted(glob.glob('/verif/seeded/C*-*')):
    m=os.path.join(d,'meta.json')
    if not os.path.exists(m): continue
    meta=json.load(open(m))
    desc=''
    cm=os.path.join(d,'change.md')
    if os.path.exists(cm):
        txt=open(cm).read()
        # first heading or first non-empty line
        for line in txt.splitlines():
            line=line.strip().lstrip('#').strip()
            if line:
                desc=line; break
    files=[]
    pd=os.path.join(d,'patch.diff')
    if os.path.exists(pd):
        files=sorted(set(re.findall(r'^\+\+\+ b/(\S+)', open(pd).read(), re.M)))
    rows.append((os.path.basename(d), meta, desc, files))
out=["# Independently seeded changes","",
"Each directory holds one change to rust-cli/anstyle written by a fresh sub-agent that was given only the text of one",
"property and a private worktree (nothing from /verif): `patch.diff`, its demonstration `demo/`, the author's",
"description `change.md` (what it is, what it needs in order to manifest, what was run) and `meta.json` (my confirmation:",
"repository suite with the change, demonstration exit code with/without the change, and which of the 20 quick checks",
"reported a VIOLATION when run against a scratch worktree with the patch applied - `tools/seed_eval.sh`).",
"No change was ever applied to /repo.","",
"| seed | files | suite with change | demo with / without | reported by | notes |","|---|---|---|---|---|---|"]
notes={}
np='/verif/seeded/NOTES.json'
if os.path.exists(np): notes=json.load(open(np))
missed=0
for name,meta,desc,files in rows:
    caught=' '.join(meta.get('caught_by',[])) or '**none**'
    own=meta['property'] in meta.get('caught_by',[])
    if not own: missed+=1
    out.append(f"| {name} | {', '.join(f.replace('crates/','') for f in files)} | {meta.get('repo_suite_with_change','')} | {meta.get('demo_exit_with_change')} / {meta.get('demo_exit_without_change')} | {caught} | {notes.get(name, desc[:140])} |")
out += ["", f"{len(rows)} seeds; {len(rows)-missed} reported by the check of the property they were written against (see notes for the others)."]
open('/verif/seeded/README.md','w').write('\n'.join(out)+'\n')
print('\n'.join(out[-3:]))
