#!/bin/bash
# tools/seed_regress.sh <lane> [pattern]  - re-applies every kept seeded change (/verif/seeded/<id>-<n>/patch.diff) to a
# scratch worktree and re-runs the quick tier of the checks that reported it when it was evaluated (meta.json caught_by):
# each of them must still report it.  Output: one line per seed; exit 1 if any check went quiet.
set -u
LANE="$1"; PAT="${2:-C}"
S=/root/scratch/lane$LANE
[[ -d $S/repo ]] || /verif/tools/scratch_env.sh lane$LANE init >/dev/null
HEAD=$(git -C /repo rev-parse HEAD)
rc_all=0
for d in /verif/seeded/${PAT}*-*/; do
  name=$(basename $d); [[ -f $d/patch.diff && -f $d/meta.json ]] || continue
  checks=$(python3 -c "import json;print(' '.join(json.load(open('$d/meta.json'))['caught_by']))")
  git -C $S/repo reset -q --hard; git -C $S/repo checkout -q --detach $HEAD
  if ! git -C $S/repo apply "$d/patch.diff" >/dev/null 2>&1; then echo "$name: DOES-NOT-APPLY"; continue; fi
  res=""
  for c in $checks; do
    /verif/tools/scratch_env.sh lane$LANE run $c --tier quick > $S/regress.log 2>&1; rc=$?
    if [[ $rc -eq 1 ]]; then res="$res $c:ok"; else res="$res $c:QUIET(rc=$rc)"; rc_all=1; fi
  done
  echo "$name:$res"
done
git -C $S/repo reset -q --hard
exit $rc_all
