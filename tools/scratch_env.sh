#!/bin/bash
# Scratch environment for trying changes to rust-cli/anstyle WITHOUT touching /repo:
#   tools/scratch_env.sh <name> init            create /root/scratch/<name>/repo (git worktree of /repo HEAD)
#   tools/scratch_env.sh <name> run <Cxx> [...] sync the harness, retarget it at the scratch repo, build, run the check
#   tools/scratch_env.sh <name> test            run the repository's own test suite in the scratch repo
#   tools/scratch_env.sh <name> snapshot        copy the committed harness to /root/scratch/harness-snapshot (VERIF_HARNESS_SRC)
#   tools/scratch_env.sh <name> clean           remove the worktree and all build output
# Evidence/replays of such runs go to /root/scratch/<name>/out, never to /verif.
set -u
NAME="$1"; CMD="$2"; shift 2
S=/root/scratch/$NAME
export CARGO_NET_OFFLINE=true
case "$CMD" in
  init)
    mkdir -p "$S" && git -C /repo worktree add --detach "$S/repo" HEAD >/dev/null && echo "scratch repo at $S/repo" ;;
  run)
    ID="$1"; shift; low=$(echo "$ID" | tr 'A-Z' 'a-z')
    mkdir -p "$S/harness" "$S/out"
    # VERIF_HARNESS_SRC: a snapshot of the harness (tools/scratch_env.sh <name> snapshot) so that long batches are
    # not disturbed by edits under /verif/harness
    rsync -a --delete --exclude target "${VERIF_HARNESS_SRC:-/verif/harness}/" "$S/harness/"
    grep -rlZ "/repo/" "$S/harness" --include=*.toml --include=*.rs --include=*.sh --include=*.py | xargs -0 -r sed -i "s#/repo/#$S/repo/#g"
    sed -i "s#/verif/.build/target#$S/target#; s#/verif/harness#$S/harness#g" "$S/harness/.cargo/config.toml"
    cp "$S/repo/Cargo.lock" /dev/null 2>&1
    cd "$S/harness" || exit 2
    export VERIF_OUT_DIR="$S/out" VERIF_HARNESS_DIR="$S/harness" VERIF_BUILD_DIR="$S"
    if [[ -x "$S/harness/drivers/$low.sh" ]]; then exec "$S/harness/drivers/$low.sh" "$@"; fi
    if ! cargo build --offline --profile verif --bin "$low" >"$S/build-$low.log" 2>&1; then
      echo "MACHINERY ERROR: build failed (see $S/build-$low.log)"; tail -30 "$S/build-$low.log"; exit 2; fi
    exec "$S/target/verif/$low" "$@" ;;
  snapshot)
    # committed state of the harness -> /root/scratch/harness-snapshot (use with VERIF_HARNESS_SRC)
    rm -rf /root/scratch/harness-snapshot && mkdir -p /root/scratch/harness-snapshot && git -C /verif archive HEAD harness | tar -x -C /root/scratch/harness-snapshot --strip-components=1 && echo /root/scratch/harness-snapshot ;;
  test)
    cd "$S/repo" && CARGO_TARGET_DIR="$S/repo-target" cargo test --workspace --no-fail-fast --offline 2>&1 | grep -E "^test result|FAILED|failed|panicked|error" ;;
  clean)
    git -C /repo worktree remove --force "$S/repo" 2>/dev/null; rm -rf "$S"; git -C /repo worktree prune; echo cleaned ;;
  *) echo "unknown command"; exit 2 ;;
esac
