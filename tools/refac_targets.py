#!/usr/bin/env python3
# tools/refac_targets.py <refactor-name> | <Cxx> <path/to/diff>: the checks whose anchored files (properties.jsonl) a refactoring touches,
# plus the check of the property it was written against and the checks that consume the touched crate.
import json,sys,re
name=sys.argv[1]
props=[json.loads(l) for l in open('/verif/properties.jsonl')]
diff=sys.argv[2] if len(sys.argv)>2 else f'/verif/refactors/{name}/patch.diff'
files=[l[6:].strip() for l in open(diff) if l.startswith('+++ b/')]
sel={name.split('-')[0]}
for p in props:
    if set(p['anchors']['files']) & set(files): sel.add(p['id'])
for f in files:
    if 'crates/anstyle-parse/' in f: sel|={'C01','C02','C04','C20'}
    if f.startswith('crates/anstyle/'): sel|={'C05','C13','C16'}
    if f.endswith('anstream/src/fmt.rs'): sel|={'C06','C08','C18'}
    if 'anstyle-lossy' in f: sel|={'C10','C14','C18'}
    if 'anstyle-wincon' in f: sel|={'C17','C18'}
print(' '.join(sorted(sel)))
