#!/bin/bash
# tools/refac_regress.sh <lane> <name>...  - re-applies kept behaviour-preserving refactorings (/verif/refactors/<name>/patch.diff)
# to a scratch worktree and runs all 20 quick tiers: every one must stay silent (exit 0).
# TARGETED=1: only the checks tools/refac_targets.py selects (anchored in a touched file, or consuming a touched crate).
set -u
LANE="$1"; shift
S=/root/scratch/lane$LANE
[[ -d $S/repo ]] || /verif/tools/scratch_env.sh lane$LANE init >/dev/null
HEAD=$(git -C /repo rev-parse HEAD)
for name in "$@"; do
  d=/verif/refactors/$name
  git -C $S/repo reset -q --hard; git -C $S/repo clean -fdq; git -C $S/repo checkout -q --detach $HEAD
  if ! git -C $S/repo apply "$d/patch.diff" >/dev/null 2>&1; then echo "$name: DOES-NOT-APPLY"; continue; fi
  alarms=""; broken=""
  CHECKS="C01 C02 C03 C04 C05 C06 C07 C08 C09 C10 C11 C12 C13 C14 C15 C16 C17 C18 C19 C20"
  [[ -n "${TARGETED:-}" ]] && CHECKS=$(python3 /verif/tools/refac_targets.py $name)
  for c in $CHECKS; do
    /verif/tools/scratch_env.sh lane$LANE run $c --tier quick > $S/refac.log 2>&1; rc=$?
    [[ $rc -eq 1 ]] && { alarms="$alarms $c"; grep -m2 "^violation" $S/refac.log | cut -c1-500 > $d/realarm-$c.txt; }
    [[ $rc -ge 2 ]] && broken="$broken $c"
  done
  echo "$name: checks=[$CHECKS] false_alarms=[$alarms ] machinery_failures=[$broken ]"
done
git -C $S/repo reset -q --hard
