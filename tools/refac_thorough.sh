#!/bin/bash
# tools/refac_thorough.sh <lane> <refactoring> <checks...>  - thorough tiers against one behaviour-preserving refactoring
set -u
LANE="$1"; NAME="$2"; shift 2
S=/root/scratch/lane$LANE
[[ -d $S/repo ]] || /verif/tools/scratch_env.sh lane$LANE init >/dev/null
git -C $S/repo reset -q --hard; git -C $S/repo clean -fdq; git -C $S/repo checkout -q --detach $(git -C /repo rev-parse HEAD)
git -C $S/repo apply /verif/refactors/$NAME/patch.diff || { echo "$NAME: DOES-NOT-APPLY"; exit 2; }
for c in "$@"; do
  /verif/tools/scratch_env.sh lane$LANE run $c --tier thorough > $S/rt.log 2>&1; rc=$?
  echo "$NAME $c thorough: exit=$rc $(grep -m1 '^violation' $S/rt.log | cut -c1-300)"
done
git -C $S/repo reset -q --hard
