#!/bin/bash
# Builds the whole harness offline from files on disk (run once after a fresh restore).
set -e
export CARGO_NET_OFFLINE=true
cd /verif/harness
cargo build --offline --profile verif --bins
cargo build --offline --profile verifrel --bin c04w
# C20 workers: one build per anstyle-parse feature set (the check rebuilds them itself, this only warms the cache)
for f in "core" "core,utf8" "utf8" ""; do
  cargo build --offline --profile verif -p vparsecfg --no-default-features --features "$f"
done
# C05 / C08 workers: anstyle without `std`, anstream without its default features
for f in style stream; do
  cargo build --offline --profile verif -p vfeat --no-default-features --features "$f"
done
echo "setup done"
