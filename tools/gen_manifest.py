#!/usr/bin/env python3
"""Generates /verif/MANIFEST.json from the table below (kept valid at all times)."""
import json, sys

import glob
CHECKS = {}
ENGINE = {}
for f in sorted(glob.glob("/verif/tools/manifest.d/C*.json")):
    d = json.load(open(f))
    CHECKS[d["property_id"]] = (d["level"], d["technique"], d["text"], d["note"], d["design_ref"])
    ENGINE[d["property_id"]] = d.get("engine", "vexplore")

NOT_YET = {}

def main():
    props = [json.loads(l)["id"] for l in open("/verif/properties.jsonl")]
    checks = []
    for pid in props:
        if pid not in CHECKS: continue
        level, tech, text, note, ref = CHECKS[pid]
        checks.append({
            "property_id": pid,
            "quick_cmd": f"./check {pid} --tier quick",
            "thorough_cmd": f"./check {pid} --tier thorough",
            "evidence_file": f"/verif/evidence/{pid}.json",
            "replay_cmd_template": f"./check {pid} --replay {{path}}",
            "engine": ENGINE[pid],
            "level_claimed": {"category": level, "text": text, "design_ref": f"DESIGN.md section {ref}"},
            "level_note": note,
            "technique": tech,
        })
    na = [{"property_id": p, "reason": NOT_YET.get(p, "check not built yet in this framework revision (planned, see DESIGN.md section 5)")} for p in props if p not in CHECKS]
    m = {
        "version": 1,
        "setup_cmd": "/verif/tools/setup.sh",
        "hooks": {
            "guard": "cargo feature `verif-hooks` of the anstream crate",
            "enable": "the loom harness crate /verif/harness/vloom depends on anstream with features = [\"verif-hooks\"]; no other check needs the hook",
            "baseline_off_cmd": "cd /repo && cargo test --workspace --no-fail-fast --offline",
            "source_commits": ["6aa38fe"],
            "add_only": True,
        },
        "engines": [
            {"name": "vexplore", "path": "/verif/harness/vexplore", "serves_properties": sorted(CHECKS), "kind_free_text": "explicit-state product BFS with exact dedupe, deviation-bounded fault-script enumerator, finite-domain enumerators"},
            {"name": "loom", "path": "/verif/harness/vloom", "serves_properties": ["C19"], "kind_free_text": "loom 0.7 stateless model checker (DPOR) driving the real anstream code over a loom-mutex sink and the re-targeted colorchoice source"},
            {"name": "vmodel", "path": "/verif/harness/vmodel", "serves_properties": sorted(CHECKS), "kind_free_text": "independent reference models (VT500 parser, RFC 3629, strip mask, SGR machine, colour metric)"},
        ],
        "checks": checks,
        "not_applicable": na,
        "notes": "All checks: ./check <id> --tier quick|thorough rebuilds the harness against /repo's working tree (path dependencies). Exit 0 held / 1 VIOLATION / 2 machinery failure. Known findings: /verif/known_findings.txt. Measured on 16 cores: every quick tier takes under 40 s (C03, C04, C06 about 30 s, the others under 15 s); thorough tiers take minutes - the longest are C06 (about 40 min on an idle machine; 69 min measured with other jobs running), C07 and C02 (20-30 min), C19, C14, C01, C03, C04, C17 (8-14 min).",
    }
    json.dump(m, open("/verif/MANIFEST.json", "w"), indent=1)
    print("MANIFEST.json written:", len(checks), "checks,", len(na), "not_applicable")

main()
