#!/usr/bin/env python3
"""Generates /verif/MANIFEST.json from the table below (kept valid at all times)."""
import json, sys

CHECKS = {
 # id: (level, technique, text, note, design_ref)
 "C01": ("model_checking",
         "explicit-state product BFS (real StripBytes/StripStr x reference strip model) to fixpoint over all 256 bytes; exhaustive chunk enumeration from every reachable state",
         "Every reachable adapter state x every byte is compared with the VT/UTF-8 reference mask (search closes: inputs of any length byte-at-a-time); every chunk of <= n class-representative symbols from every class-reachable state through strip_next, strip_bytes, strip_str, StripStream and AutoStream::never. Exhaustive, not sampled.",
         "Reference model M-STRIP (vmodel) is my transcription of Williams' parser + RFC 3629; malformed UTF-8 high bytes are unconstrained; chunk sweeps rely on the byte-class alphabet (computed from the real table).",
         "5/C01"),
}

NOT_YET = {}

def main():
    props = [json.loads(l)["id"] for l in open("/verif/properties.jsonl")]
    checks = []
    for pid in props:
        if pid not in CHECKS: continue
        level, tech, text, note, ref = CHECKS[pid]
        checks.append({
            "property_id": pid,
            "quick_cmd": f"./check {pid} --tier quick",
            "thorough_cmd": f"./check {pid} --tier thorough",
            "evidence_file": f"/verif/evidence/{pid}.json",
            "replay_cmd_template": f"./check {pid} --replay {{path}}",
            "engine": "vexplore",
            "level_claimed": {"category": level, "text": text, "design_ref": f"DESIGN.md section {ref}"},
            "level_note": note,
            "technique": tech,
        })
    na = [{"property_id": p, "reason": NOT_YET.get(p, "check not built yet in this framework revision (planned, see DESIGN.md section 5)")} for p in props if p not in CHECKS]
    m = {
        "version": 1,
        "setup_cmd": "cd /verif/harness && CARGO_NET_OFFLINE=true cargo build --offline --profile verif --bins",
        "hooks": {
            "guard": "cargo feature `verif-hooks` of the anstream crate",
            "enable": "harness crates depend on anstream with features = [\"verif-hooks\"] (only the loom harness needs it)",
            "baseline_off_cmd": "cd /repo && cargo test --workspace --no-fail-fast --offline",
            "source_commits": [],
            "add_only": True,
        },
        "engines": [
            {"name": "vexplore", "path": "/verif/harness/vexplore", "serves_properties": sorted(CHECKS), "kind_free_text": "explicit-state product BFS with exact dedupe, deviation-bounded fault-script enumerator, finite-domain enumerators"},
            {"name": "vmodel", "path": "/verif/harness/vmodel", "serves_properties": sorted(CHECKS), "kind_free_text": "independent reference models (VT500 parser, RFC 3629, strip mask, SGR machine, colour metric)"},
        ],
        "checks": checks,
        "not_applicable": na,
        "notes": "All checks: ./check <id> --tier quick|thorough rebuilds the harness against /repo's working tree (path dependencies). Exit 0 held / 1 VIOLATION / 2 machinery failure. Known findings: /verif/known_findings.txt.",
    }
    json.dump(m, open("/verif/MANIFEST.json", "w"), indent=1)
    print("MANIFEST.json written:", len(checks), "checks,", len(na), "not_applicable")

main()
